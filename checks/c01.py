"""C01 - a dependency's body runs exactly once per mage execution."""
import json, os, shutil
from vlib import *
import depslib


def run(ctx):
    ctx.prove(["Props/%s.vo" % ctx.pid, "Run/eval_deps.vo"], extra_props=["Engine_progress", "Engine_bigstep"])   # + deadlock freedom / termination: final states are reachable
    import extractlib; extractlib.fn_tie(ctx, ['displayName'])   # pure functions translated from the current source, re-proved equal to the models' (tools/notes/Translator.md)
    ctx.trusted_base += depslib_trusted()
    depslib.run_engine_check(ctx, ctx.pid, 400 if ctx.quick else 6000)
    contention(ctx)


def depslib_trusted():
    return ["harness/depsrun (gates, logging under one mutex: the logged order is a real-time order of the logging points)",
            "lib/depslib.py (generator, Coq term printer, oracles)",
            "sync.Mutex / sync.Once / sync.WaitGroup provide the atomicity the step rules of Model/Deps.v assume",
            "Model/DepsReplay.guess is untrusted: acceptance re-runs Model/Deps.run on the guessed schedule"]


def contention(ctx, parts=("contend", "generic", "names", "invalid", "custom", "verbose", "wide", "escaped", "ambient", "api", "long"), rounds=None, knob_env=None):
    """C01 under contention: a lost update in the registry only shows when several goroutines miss
    the same fresh key at the same instant (oracle only; the theorem side is C01_at_most_once)."""
    if knob_env is None:
        # MAGEFILE_* variables in the source that no model knows (lib/depslib.discover_knobs): the probes run again with each set
        for k in depslib.discover_knobs():
            for v in ("1", "true", "@FILE", "1s"):
                kv = depslib.knob_value(v)
                contention(ctx, parts=tuple(x for x in parts if x not in ("contend", "long", "generic")), rounds=100, knob_env={k: kv})
                if v == "@FILE":
                    shutil.rmtree(os.path.dirname(kv), ignore_errors=True)
    if knob_env:
        # every violation of this run says under which environment it was seen
        orig = ctx.violation
        ctx.violation = lambda what, case=None, **kw: orig(dict(what, environment=knob_env), case=case, **kw)
        try:
            return _contention(ctx, parts, rounds, knob_env)
        finally:
            ctx.violation = orig
    return _contention(ctx, parts, rounds, knob_env)


def _contention(ctx, parts, rounds, knob_env):
    binp = os.path.join(ctx.tmp, "bin_depsrun")
    gor = 8 if ctx.quick else 16
    rounds = rounds or (4000 if ctx.quick else 60000)
    spec = {"contend": {"rounds": rounds, "goroutines": gor}}
    if "long" in parts:
        # quick: 3 s; thorough: 11 minutes (longer than any plausible built-in patience of ten minutes)
        spec["contend"]["long_ms"] = 3000 if ctx.quick else 660000
    env = dict(os.environ, **(knob_env or {}))
    if knob_env:
        spec["environment"] = knob_env
    late = []
    if "long" in parts and not knob_env:
        # LATE requesters, in processes of their own next to the main run: a dependency in flight for 12.5 s (quick; beyond ten-second
        # heartbeat / progress intervals) or 11.5 minutes (thorough), requested again 1.5 s before it ends, quiet and verbose
        import subprocess
        late_ms = 12500 if ctx.quick else 690000
        for verbose in ("0", "1"):
            pr = subprocess.Popen([binp], stdin=subprocess.PIPE, stdout=subprocess.PIPE, stderr=subprocess.PIPE, env=dict(env, MAGEFILE_VERBOSE=verbose))
            pr.stdin.write(json.dumps({"contend": {"late_ms": late_ms}}).encode()); pr.stdin.close()
            late.append((verbose, late_ms, pr))
    rc, out, err = sh([binp], input=json.dumps(spec).encode(), env=env, timeout=1500)
    for verbose, late_ms, pr in late:
        try:
            o = pr.stdout.read().decode(errors="replace"); e = pr.stderr.read().decode(errors="replace"); lrc = pr.wait(timeout=late_ms / 1000 + 120)
        except Exception as ex:
            pr.kill(); o, e, lrc = "", str(ex), -1
        msg = None
        try:
            msg = json.loads(o.strip().splitlines()[-1]).get("late_wait")
        except Exception:
            msg = "the late-requester probe ended with status %s: %s" % (lrc, e[-400:])
        ctx.coverage["late_requester_probe_ms"] = late_ms
        if msg:
            ctx.violation({"kind": "oracle", "oracle": "C02/C13", "clauses": [msg + " (MAGEFILE_VERBOSE=%s)" % verbose]},
                          case={"call": "go mg.Deps(lateDep); after %d ms: mg.Deps(lateDep); mg.SerialDeps(lateDep, next); mg.CtxDeps(ctx, lateDep)" % (late_ms - 1500), "late_ms": late_ms, "MAGEFILE_VERBOSE": verbose})
    api_start = [l[len("VPAPI-CALLED:"):].strip().split(", ") for l in err.splitlines() if l.startswith("VPAPI-CALLED:")]
    if rc != 0:
        # (exported functions outside the known API were called first - harness/apiprobe, tools/notes/APIprobe.md: that call sequence is the input)
        ctx.violation(dict({"kind": "harness-run-failed", "rc": rc, "stderr": err[-1500:]}, **({"api_called_first": api_start[0]} if api_start else {})),
                      case=dict(spec, **({"api_called_first": api_start[0]} if api_start else {})), found_input=bool(knob_env) or bool(api_start))
        return
    r = json.loads(out.strip().splitlines()[-1])
    ctx.coverage["api_probe"] = {"called": r.get("api_called"), "not_callable_mechanically": r.get("api_skipped"), "violations": len(r.get("api") or [])}
    if "api" in parts and r.get("api"):
        called = r.get("api_called") or []
        ctx.violation({"kind": "oracle", "oracle": "C01/C03/C13", "clauses": ["exported functions the models do not know (%s) were called before and between requests for the same dependencies; that must change nothing the engine does for a dependency, but: %s"
                       % (", ".join(called) or "none in this tree - the plain re-request scenario", "; ".join(r["api"][:4]))]},
                      case={"call": "harness/depsrun/contend.go apiProbe (the calls: api_calls_gen.go generated by harness/apiprobe for this tree)", "api_called": called, "bad": r["api"][:20]})
    ctx.coverage["contention_keys"] = r["keys"]
    ctx.coverage["contention_goroutines_per_key"] = gor
    ctx.coverage["contention_not_once"] = len(r["not_once"])
    ctx.coverage["generic_instantiations_runs"] = r.get("generic_runs")
    if "generic" in parts and r.get("generic_runs") and r["generic_runs"] != [1, 1]:
        # matched by the known finding F23 (kind + shape); any other shape of conflation stays a violation
        ctx.violation({"kind": "generic-instantiations-conflated", "runs": r["generic_runs"]},
                      case={"call": "mg.Deps(genericDep[int], genericDep[string])"})
    ctx.coverage["invalid_member_probe"] = r.get("invalid_member")
    for name, v in sorted((r.get("invalid_member") or {}).items() if "invalid" in parts else []):
        if v.get("unwound_while_running") or not v.get("panicked"):
            ctx.violation({"kind": "oracle", "oracle": "C02", "clauses": ["%s: the call %s while the dependency it named was still running"
                           % (name, "unwound" if v.get("panicked") else "returned normally although one value is not a dependency")]}, case={"call": name})
    ctx.coverage["name_prefix_probe"] = r.get("name_prefix")
    if "names" in parts and r.get("name_prefix") and r["name_prefix"] != [1, 1, 1, 1, 0]:
        ctx.violation({"kind": "oracle", "oracle": "C01", "clauses": ["functions whose names are prefixes of one another (NmBuild/NmBuildAll, NmF1/NmF10) ran %s times (last number: calls that returned before the dependency they name had run), each must run exactly once and before its caller goes on" % r["name_prefix"]]},
                      case={"call": "mg.Deps(NmBuildAll, NmF10); mg.Deps(NmBuild, NmF1)"})
    ctx.coverage["custom_fn_probe"] = r.get("custom_fn")
    if "custom" in parts and (r.get("custom_fn") or {}).get("bad"):
        ctx.violation({"kind": "oracle", "oracle": "C01", "clauses": ["user-implemented mg.Fn values with different (Name, ID) pairs are treated as one dependency, or one pair runs twice: %s" % "; ".join(r["custom_fn"]["bad"][:4])]},
                      case={"call": "mg.Deps/CtxDeps/SerialDeps/SerialCtxDeps over custom mg.Fn values (harness/depsrun/contend.go customProbe)", "bad": r["custom_fn"]["bad"]})
    if "verbose" in parts and "VPROBE-BEGIN" in err:
        seg = err.split("VPROBE-BEGIN", 1)[1].split("VPROBE-END", 1)[0]
        lines = [l for l in seg.splitlines() if "Running dependency:" in l]
        late, early = sum("VpLate" in l for l in lines), sum("VpEarly" in l for l in lines)
        meth = sum(l.strip() == "Running dependency: main.(*vpOps).Push-fm" for l in lines)
        ctx.coverage["verbose_late_probe"] = {"late": late, "early": early, "method_value_line": meth}
        if meth != 1:
            ctx.violation({"kind": "oracle", "oracle": "C01", "clauses": ["with MAGEFILE_VERBOSE=1 the line 'Running dependency: main.(*vpOps).Push-fm' (a pointer-receiver method value) appeared %d times, must be exactly once and spelled as the function is named" % meth]},
                          case={"call": "mg.Deps(VpLate, VpEarly, ops.Push)", "stderr": seg[-600:]})
        if late != 1 or early != 0:
            ctx.violation({"kind": "oracle", "oracle": "C01", "clauses": ["MAGEFILE_VERBOSE=1 exported after a first dependency ran unverbosely (what a compiled magefile given -v does after init()): 'Running dependency:' printed %d times for the dependency executed afterwards (must be 1) and %d times for the one that had already run (must be 0)" % (late, early)]},
                          case={"call": "unset MAGEFILE_VERBOSE; mg.Deps(VpEarly); MAGEFILE_VERBOSE=1; mg.Deps(VpLate, VpEarly)", "stderr": seg[-600:]})
    ctx.coverage["escaped_names_probe"] = r.get("escaped_names")
    if "escaped" in parts and r.get("escaped_names") and r["escaped_names"] != [1, 1, 1, 1]:
        ctx.violation({"kind": "oracle", "oracle": "C01/C14", "clauses": ["function Build/Deploy of package .../tasks.V2 and method Build/Deploy of type V2 in package .../tasks (runtime names differ only by the escaped dot) ran %s times, each must run exactly once" % r["escaped_names"]]},
                      case={"call": "mg.Deps(tasks.V2.Build, v2.Build); mg.SerialDeps(mg.F(v2.Deploy, \"prod\"), mg.F(tasks.V2.Deploy, \"prod\"))"})
    sp = r.get("suffix_and_empty_args") or {}
    ctx.coverage["suffix_and_empty_args_probe"] = sp
    if "names" in parts and sp and sp.get("suffix") != [1] * 6:
        ctx.violation({"kind": "oracle", "oracle": "C01", "clauses": ["functions whose names differ only in a trailing f / m (NmAr/NmArm, NmPer/NmPerf, NmAs/NmAsm) ran %s times, each must run exactly once" % sp.get("suffix")]},
                      case={"call": "mg.Deps(NmArm, NmAr); mg.SerialDeps(NmPer, NmPerf); mg.CtxDeps(ctx, NmAsm, NmAs)"})
    if ("names" in parts or "escaped" in parts) and sp and sp.get("empty_args") != [1, 1]:
        ctx.violation({"kind": "oracle", "oracle": "C01/C14", "clauses": ["one function requested bare, as mg.F(f) and as mg.F(f, empty...) with an empty non-nil argument list ran %s times (plain, variadic); equal (empty) argument lists are one dependency: exactly once each" % sp.get("empty_args")]},
                      case={"call": "mg.Deps(EaPlain, mg.F(EaPlain), mg.F(EaPlain, empty...)); mg.SerialDeps(mg.F(EaVariadic, empty...), mg.F(EaVariadic), EaVariadic)"})
    if "long" in parts:
        ctx.coverage["long_wait_probe_ms"] = spec["contend"]["long_ms"]
        if r.get("long_wait"):
            ctx.violation({"kind": "oracle", "oracle": "C02/C13", "clauses": [r["long_wait"]]}, case={"call": "go mg.Deps(longDep); mg.SerialDeps(longDep, longNext)", "long_ms": spec["contend"]["long_ms"]})
        if "LPROBE-BEGIN" in err:
            seg = err.split("LPROBE-BEGIN", 1)[1].split("LPROBE-END", 1)[0]
            nlong = sum(1 for l in seg.splitlines() if "Running dependency:" in l and "longDep" in l)
            ctx.coverage["long_wait_probe_lines"] = nlong
            if nlong != 1:
                ctx.violation({"kind": "oracle", "oracle": "C01", "clauses": ["with MAGEFILE_VERBOSE=1 a dependency that ran for %d ms got %d 'Running dependency:' lines, must be exactly one" % (spec["contend"]["long_ms"], nlong)]},
                              case={"call": "mg.Deps(longDep) under MAGEFILE_VERBOSE=1", "stderr": seg[-500:]})
    ctx.coverage["rerequest_after_many_probe"] = r.get("rerequest_after_many")
    if "wide" in parts and r.get("rerequest_after_many") and r["rerequest_after_many"] != [1, 1, 1, 1]:
        ctx.violation({"kind": "oracle", "oracle": "C01/C13", "clauses": ["dependencies that had finished were requested again after more than 10 000 other dependencies had been registered: executions now %s, must stay 1 each" % r["rerequest_after_many"]]},
                      case={"call": "mg.Deps(NmBuild, NmF1); mg.SerialDeps(NmBuildAll, VpEarly) after the wide calls"})
    ctx.coverage["ambient_probe"] = r.get("ambient")
    if "ambient" in parts and r.get("ambient"):
        ctx.violation({"kind": "oracle", "oracle": "C01/C13/C14", "clauses": ["the working directory, the file system or the environment changed between two requests for one dependency: %s" % "; ".join(r["ambient"][:3])]},
                      case={"call": "harness/depsrun/contend.go ambientProbe", "bad": r["ambient"]})
    ctx.coverage["crowd_probe"] = r.get("crowd")
    if "wide" in parts and r.get("crowd"):
        ctx.violation({"kind": "oracle", "oracle": "C02", "clauses": [r["crowd"]]}, case={"call": "harness/depsrun/contend.go crowdProbe"})
    ctx.coverage["wide_calls_probe"] = r.get("wide")
    if "wide" in parts and r.get("wide"):
        ctx.violation({"kind": "oracle", "oracle": "C02", "clauses": ["one call naming many dependencies: %s" % "; ".join(r["wide"][:4])]},
                      case={"call": "mg.Deps/CtxDeps/SerialDeps/SerialCtxDeps over n fresh mg.F values, n in 31..1000 (harness/depsrun/contend.go wideProbe)", "bad": r["wide"][:20]})
    ctx.coverage["ctx_err_probe"] = r.get("ctx_err")
    if "ctxerr" in parts and r.get("ctx_err"):
        ctx.violation({"kind": "oracle", "oracle": "C03/C13", "clauses": ["a member failing with its context's own error: %s" % "; ".join(r["ctx_err"][:4])]},
                      case={"call": "harness/depsrun/contend.go ctxErrProbe", "bad": r["ctx_err"]})
    if "contend" in parts and r["not_once"]:
        ctx.violation({"kind": "oracle", "oracle": "C01", "clauses": ["under contention %d of %d fresh dependencies requested by %d goroutines at once did not run exactly once (executions per key: %s)"
                                                                       % (len(r["not_once"]), r["keys"], gor, dict(list(r["not_once"].items())[:5]))]}, case=spec)
