"""C01 - a dependency's body runs exactly once per mage execution."""
from vlib import *
import depslib


def run(ctx):
    ctx.prove(["Props/%s.vo" % ctx.pid, "Run/eval_deps.vo"])
    ctx.trusted_base += depslib_trusted()
    depslib.run_engine_check(ctx, ctx.pid, 400 if ctx.quick else 6000)


def depslib_trusted():
    return ["harness/depsrun (gates, logging under one mutex: the logged order is a real-time order of the logging points)",
            "lib/depslib.py (generator, Coq term printer, oracles)",
            "sync.Mutex / sync.Once / sync.WaitGroup provide the atomicity the step rules of Model/Deps.v assume",
            "Model/DepsReplay.guess is untrusted: acceptance re-runs Model/Deps.run on the guessed schedule"]
