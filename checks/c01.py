"""C01 - a dependency's body runs exactly once per mage execution."""
from vlib import *
import depslib


def run(ctx):
    ok_build, log = ctx.coq_build()
    props_ok, pout = (False, log)
    if vo_ok("Props/" + ctx.pid) or ok_build:
        props_ok, pout = ctx.coq_props()
    if not props_ok:
        ctx.violation({"kind": "theorem-no-longer-checks", "file": "coq/Props/%s.v" % ctx.pid, "log": pout[-1500:]}, found_input=False)
    ctx.trusted_base += depslib_trusted()
    depslib.run_engine_check(ctx, ctx.pid, 400 if ctx.quick else 6000)


def depslib_trusted():
    return ["Coq 8.16.1 kernel + vm_compute", "harness/depsrun (gates, logging under one mutex: the logged order is a real-time order of the logging points)",
            "lib/depslib.py (generator, Coq term printer, oracles)",
            "sync.Mutex / sync.Once / sync.WaitGroup provide the atomicity the step rules of Model/Deps.v assume",
            "Model/DepsReplay.guess is untrusted: acceptance re-runs Model/Deps.run on the guessed schedule"]
