"""C02 - engine property; theorems in coq/Props/C02.v over Model/Deps.v, trace acceptance against mg.Deps & co."""
from vlib import *
import depslib
from checks.c01 import depslib_trusted


def run(ctx):
    ctx.prove(["Props/%s.vo" % ctx.pid, "Run/eval_deps.vo"])
    ctx.trusted_base += depslib_trusted()
    depslib.run_engine_check(ctx, ctx.pid, 400 if ctx.quick else 6000, serial_bias=(ctx.pid == "C13"))
    if ctx.pid == "C02":
        from checks.c01 import contention
        contention(ctx, parts=("invalid", "wide", "long", "api"), rounds=200)      # the invalid-member probe (a call that panics must not leave named dependencies running) and wide calls (31..1000 dependencies in one call)
