"""C03 - a failed dependency fails every dependent, always.

Theorems in coq/Props/C03.v over Model/Deps.v; trace acceptance against mg.Deps & co (depslib).
In addition the exit-status combination rule is tied to the source MECHANICALLY: harness/extract
translates mg/deps.go's changeExit into Gallina on every run and Coq must prove it equal to the
model's changeExit for all integers (DESIGN.md section 3.5); when that proof fails the check
looks for the differing code pair and replays it against the real engine."""
import re
from vlib import *
import depslib
from checks.c01 import depslib_trusted

AGREE = """From Mage Require Import Base.Strs Model.Deps.
From Coq Require Import Lia ZArith.
%s
Theorem extracted_changeExit_agrees : forall a b, x_changeExit a b = changeExit a b.
Proof.
  intros a b; unfold x_changeExit, changeExit.
  repeat match goal with
         | |- context [Z.eqb ?x ?y] => destruct (Z.eqb_spec x y)
         | |- context [Z.ltb ?x ?y] => destruct (Z.ltb_spec x y)
         | |- context [Z.leb ?x ?y] => destruct (Z.leb_spec x y)
         end; cbn [negb andb orb]; try reflexivity; try lia; try congruence.
Qed.
Print Assumptions extracted_changeExit_agrees.
"""

SEARCH = """From Mage Require Import Base.Strs Model.Deps.
%s
Definition grid : list Z := [0; 1; 2; 3; 7; 99; 255; 256; -1]%%Z.
Definition D := Eval vm_compute in
  flat_map (fun a => flat_map (fun b => if Z.eqb (x_changeExit a b) (changeExit a b) then [] else [(a, b, x_changeExit a b, changeExit a b)]) grid) grid.
Print D.
"""


def pair_program(a, b):
    """root: guarded Deps(n0, n1) where n0 fails with mg.Fatal(a) and n1 with mg.Fatal(b); then the same pair in the other order"""
    def node(k, code):
        return {"kind": 1, "slot": k, "calls": [], "result": {"t": "fatal", "code": code}}
    return {"nodes": [node(0, a), node(1, b)],
            "roots": [{"ctx": "bg", "calls": [{"style": "par", "ctx": "bg", "deps": [0, 1], "guarded": True},
                                             {"style": "par", "ctx": "bg", "deps": [1, 0], "guarded": True}]}],
            "prio": [], "quiet_us": 250, "free": True, "verbose": False}


def translated_tie(ctx):
    """returns extra programs to run against the real engine when the translated function differs from the model"""
    ex = go_build_harness(ctx, "extract", tags=None)
    rc, out, err = sh([ex, os.path.join(REPO, "mg", "deps.go"), "changeExit", "x_changeExit"])
    ctx.coverage["changeExit_extracted"] = (rc == 0)
    if rc != 0:
        # fail-soft: a refactoring the translator does not understand; the behavioural tie alone decides
        ctx.notes.append("harness/extract could not translate changeExit (%s); only the behavioural tie applies" % err.strip()[:200])
        return []
    ctx.obligations += 1
    rc2, log = ctx.coq_eval("extracted_C03", AGREE % out)
    if rc2 == 0:
        ctx.discharged += 1
        ctx.trusted_base.append("harness/extract (Go -> Gallina translator for changeExit): extracted_changeExit_agrees proved for all integers on this run")
        return []
    ctx.log("translated changeExit no longer provably equals the model's:\n" + out)
    rc3, log3 = ctx.coq_eval("extracted_C03_search", SEARCH % out)
    pairs = [(int(a), int(b)) for a, b in re.findall(r"\((-?\d+),\s*(-?\d+),\s*-?\d+,\s*-?\d+\)", re.sub(r"%Z|\s+", " ", log3))]
    pairs = [(a, b) for a, b in pairs if 1 <= a <= 255 and 1 <= b <= 255][:6]
    ctx.coverage["changeExit_differs_on"] = pairs
    ctx.pending_tie = {"kind": "theorem-no-longer-checks", "theorem": "extracted_changeExit_agrees (mg/deps.go changeExit, translated, = Model/Deps.changeExit)",
                       "translated": out, "differs_on": pairs, "log": log[-800:]}
    return [pair_program(a, b) for a, b in pairs]


def run(ctx):
    ctx.prove(["Props/%s.vo" % ctx.pid, "Run/eval_deps.vo"], extra_props=["Compose_C03_C05", "Compose_bigstep_C05"])   # + composition C03 => C05: the engine's payload status is what the exit-chain model's runDeps computes and what the generated main exits with
    ctx.trusted_base += depslib_trusted()
    ctx.pending_tie = None
    extra = translated_tie(ctx)
    depslib.run_engine_check(ctx, ctx.pid, 400 if ctx.quick else 6000, extra_programs=extra)
    from checks.c01 import contention
    contention(ctx, parts=("ctxerr", "wide", "api"), rounds=200)      # a dependency failing with the context's own error fails its dependents like any other failure
    if ctx.pending_tie and not ctx.violations:
        # the proof obligation broke but neither the oracle nor trace acceptance found a failing run
        ctx.violation(ctx.pending_tie, found_input=False)
