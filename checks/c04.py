"""C04 - command-line words run exactly the named targets with converted arguments.

Theorems: coq/Props/C04.v over Model/Dispatch.v (+ Model/DispatchSpec.v).
Correspondence: generated collision-free magefile packages (plain, namespaced, imported with and
without alias, aliased targets; parameter lists over string/int/bool/time.Duration; with/without
context and error result) x command lines from a grammar, each run three ways (mage, cached binary
in hash mode, -compile'd binary) -> CALL trace, exit class, stderr class; the Coq model is evaluated
on the same template data, with the Go standard library's own conversions of the words (harness
unitrun op "conv") and the body outcomes as per-case data.
Oracle: an independent Python reading of the property sentence (segmenter of the word list)."""
import os, json, base64, re, time, shutil
from vlib import *
import projlib, c04gen

TY = {"string": "TString", "int": "TInt", "bool": "TBool", "time.Duration": "TDur"}
TIMES = [0.0, 0.0, 0.0]
BENIGN = re.compile(r"^(DEBUG: |MAGEFILE_\w+=|Running target:|\s*$)")
# failure SHAPES of a body: every non-nil result (whatever status it asks for), every panic, and the process
# ending inside the body stop the run there; the status itself is C05's
FAIL_MODES = ["error", "error", "fatal:0", "fatal:0", "fatal:1", "fatal:2", "fatal:3", "fatal:255", "fatal:256", "fatal:-1",
              "custom:0", "custom:0", "custom:-3", "custom:7", "panic-error", "panic-value", "panic-fatal:0", "panic-fatal:5",
              "panic-custom:0", "osexit:0", "osexit:4",
              # the PROCESS ends inside the body: killed by a signal it sends itself, or a fatal runtime error
              "signal:9", "signal:15", "signal:11", "signal:6", "signal:13", "stackoverflow", "signal:9", "stackoverflow"]


def death(mode):
    """the process dies inside the body (no exit status chosen by mage's code: the front end reports 255 and a
    message of its own where the binary dies by signal n)"""
    return mode.startswith("signal") or mode == "stackoverflow"


def probe_source():
    """lib/projlib's probe package + two more failure shapes: an error of a custom type with an ExitStatus()
    method, returned (custom:<c>) or panicked with (panic-custom:<c>)"""
    src = projlib.PROBE_GO
    anchor = '\t\tcase "osexit":'
    if anchor not in src:
        return None
    src = src.replace(anchor, '\t\tcase "custom":\n\t\t\treturn &codeErr{code, msg}\n\t\tcase "panic-custom":\n\t\t\tpanic(&codeErr{code, msg})\n'
                      '\t\tcase "signal":\n\t\t\tsyscall.Kill(os.Getpid(), syscall.Signal(code))\n\t\t\ttime.Sleep(300 * time.Millisecond)\n'
                      '\t\t\tsyscall.Kill(os.Getpid(), syscall.SIGKILL)\n\t\t\tselect {}\n'
                      '\t\tcase "stackoverflow":\n\t\t\tdebug.SetMaxStack(1 << 16)\n\t\t\tvar f func(n int) int\n\t\t\tf = func(n int) int { return f(n+1) + 1 }\n'
                      '\t\t\tfmt.Fprintln(os.Stderr, f(0))\n' + anchor, 1)
    if 'import (\n' not in src:
        return None
    src = src.replace('import (\n', 'import (\n\t"runtime/debug"\n\t"syscall"\n\t"time"\n', 1)
    return src + """
type codeErr struct {
	code int
	msg  string
}

func (e *codeErr) Error() string   { return e.msg }
func (e *codeErr) ExitStatus() int { return e.code }
"""


def make_project(mage, files, name):
    src = probe_source()
    if src is None:
        return mage.project(files, name=name)
    return mage.project(dict(files, **{"probe/probe.go": src}), name=name, probe=False)


# ------------------------------------------------------------------ generation
def gen_lines(rng, proj, inf, n):
    lines = []
    alld = [d["def"] for p in proj["pkgs"] for d in p["decls"]]
    for k in range(n):
        if k < 2 or rng.random() < 0.03:
            words = []
            ignore = None if k == 0 else rng.choice(c04gen.IGNORE_VALUES)
        else:
            words = c04gen.gen_words(rng, inf)
            ignore = rng.choice([None] * 8 + ["1", "yes"])
        fail = {}
        if rng.random() < 0.3:
            for d in rng.sample(alld, min(len(alld), rng.choice([1, 1, 2]))):
                fail[str(d)] = rng.choice(FAIL_MODES if probe_source() else [m for m in FAIL_MODES if "custom" not in m])
        ed = proj.get("edit")
        imp = bool(ed) and ed["kind"].startswith("imp-")
        goenv = None
        if imp:
            if k < 3:
                # the first runs after the edit, each with its own copy of the cache directory and its own go environment
                words = c04gen.gen_words(rng, inf)
                ignore = None
                # (a fresh GOCACHE, -trimpath and -tags recompile the standard library: ~15 cpu-seconds each)
                light = ["gocache-off", "gocache-relative", "home-unset", "tmpdir-elsewhere", "gopath-elsewhere"]
                goenv = "gocache-new" if k == 0 else rng.choice(light if k == 1 else [n for n in c04gen.GOENVS if n not in ("default", "gocache-new")])
            else:
                goenv = "default"
        if ed and words and (rng.random() < 0.5 or (imp and k < 3)):
            # mention the edited target first (or, after a rename, its old name)
            t = [t for t in c04gen.all_targets(inf) if t["def"] == ed["def"]][0]
            if ed["kind"] == "rename" and rng.random() < 0.3:
                words = [c04gen.rand_case(rng, ed["old_name"])] + words
            else:
                words = [c04gen.rand_case(rng, t["tname"])] + [c04gen.arg_word(rng, ty, inf, 1.0) for ty in t["args"]] + words
        lines.append({"words": words, "ignore": ignore, "fail": fail, "rebuild": ((k < 2 or rng.random() < 0.13) and not ed) or imp, "goenv": goenv,
                      "mode": c04gen.gen_mode(rng), "argv0": c04gen.gen_argv0(rng, inf, proj.get("binname")),
                      "streams": c04gen.gen_streams(rng)})
    return lines


# ------------------------------------------------------------------ the oracle: the property sentence
def oracle(proj, line, conv, low=None):
    """-> (calls, end) where calls = [(def, [(gotype, printed)])], end in
    'done' | 'listed' | 'failed' | ('exit2', 'unknown'|'missing'|'bad:<type>')"""
    names = {}
    bydef = {}
    if low is None:
        low = str.lower
    for p in proj["pkgs"]:
        for d in p["decls"]:
            nm = ":".join(x for x in (p["alias"], d["recv"], d["name"]) if x)      # target, ns:target, alias:target, alias:ns:target
            names[low(nm)] = d
            bydef[d["def"]] = d
    for a, defid in proj["aliases"]:
        names[low(a)] = bydef[defid]
    failing = set(int(k) for k in line["fail"])
    words = line["words"]
    if not words:
        ign = line["ignore"] is not None and conv.get(("bool", line["ignore"])) == "true"
        if proj["default"] is None or ign:
            return [], "listed"
        d = bydef[proj["default"]]
        if d["params"]:
            return [], ("exit2", "missing")
        return [(d["def"], [])], ("failed" if d["def"] in failing else "done")
    calls = []
    pos = 0
    while pos < len(words):                       # strictly left to right, once per mention
        d = names.get(low(words[pos]))            # matched case-insensitively: strings.ToLower on both sides
        if d is None:
            return calls, ("exit2", "unknown")
        argw = words[pos + 1: pos + 1 + len(d["params"])]
        if len(argw) < len(d["params"]):
            return calls, ("exit2", "missing")
        vals = []
        for ty, w in zip(d["params"], argw):      # declaration order
            if ty == "string":
                vals.append(("string", w))        # verbatim
            else:
                c = conv.get((ty, w))
                if c is None:
                    return calls, ("exit2", "bad:" + ty)      # before the body starts
                vals.append((ty, c))
        calls.append((d["def"], vals))
        if d["def"] in failing:
            return calls, "failed"                # no target after a failed one runs
        pos += 1 + len(d["params"])
    return calls, "done"


# ------------------------------------------------------------------ running
def observe(r):
    """projected observables of one run record"""
    cl = projlib.calls(r["out"])
    # log lines of the verbose / debug modes are not diagnostics
    err = "\n".join(l for l in r["err"].splitlines() if not BENIGN.match(l))
    sc = projlib.stderr_class(err)
    bad = None
    if sc == "bad-arg":
        m = re.search(r"can't convert argument .* to (int|bool|time\.Duration)\s*$", err, re.M)
        bad = m.group(1) if m else "?"
    listed = None
    if "Targets:" in r["out"].splitlines():
        listed = sorted(projlib.parse_list(r["out"])["targets"])
    return {"rc": r["rc"], "calls": [[c[0], [list(a) for a in c[1]]] for c in cl], "stderr": sc, "bad": bad, "listed": listed}


def classify(o, failing=()):
    """observed end of the run in the model's vocabulary (None: not classifiable).  A run whose last body
    was told to fail and that printed no dispatcher diagnostic ended "failed" whatever the exit status
    (mg.Fatal(0), ExitStatus() 0, os.Exit(0), 256: status 0) - what ran before and after is in the CALL trace."""
    if o["stderr"] in ("unknown-target", "missing-arg", "bad-arg"):
        if o["rc"] != 2:
            return None
        return ("exit2", {"unknown-target": "unknown", "missing-arg": "missing"}.get(o["stderr"]) or ("bad:%s" % o["bad"]))
    if o["calls"] and o["calls"][-1][0] in failing and o["listed"] is None:
        return "failed"
    if o["rc"] == 0:
        return "listed" if o["listed"] is not None else "done"
    if o["stderr"] in ("target-error", "none"):
        return "failed"
    return None


NOMODE = {"verbose": None, "debug": False, "timeout": None, "spell": 0}


def run_exe(mage, argv, cwd, env, executable=None, timeout=180):
    """like Mage.run, for a compiled binary started under a chosen argv[0] (PATH lookup in env when bare)"""
    import subprocess
    e = mage.env({k_: v for k_, v in env.items() if v is not None})
    for k_, v in env.items():
        if v is None:
            e.pop(k_, None)          # a variable that must be unset
    for attempt in range(5):
        try:
            p = subprocess.run(argv, executable=executable, cwd=cwd, env=e, input=b"", timeout=timeout,
                               stdout=subprocess.PIPE, stderr=subprocess.PIPE)
            rc, out, err = p.returncode, p.stdout, p.stderr
        except subprocess.TimeoutExpired as ex:
            rc, out, err = 124, ex.stdout or b"", (ex.stderr or b"") + b"\n[timeout]"
        except OSError as ex:
            if ex.errno == 26 and attempt < 4:      # ETXTBSY: a sibling's fork still holds the freshly written file
                time.sleep(0.05 * (attempt + 1))
                continue
            raise
        break
    return {"rc": rc, "out": out.decode("utf-8", "replace"), "err": err.decode("utf-8", "replace")}


PTY_OK = [True]
SHM_DIRS = []


def run_streams(mage, argv, cwd, env, spec, scratch, timeout=30):
    """run argv with the standard streams the spec asks for:
       stdin  in data | empty | devnull | closed | pty      (pty: a terminal on which end-of-file is typed)
       stdout in pipe | file | pty
       stderr in pipe | file | devnull | pty
    -> dict(rc, out, err) with err None when stderr went to /dev/null.  A pty that cannot be had becomes a pipe."""
    import subprocess, select
    e = mage.env(env)
    opened, masters = [], {}
    def pty_pair(name):
        if PTY_OK[0]:
            try:
                m, sl = os.openpty()
                opened.extend([m, sl])
                masters[name] = m
                return sl
            except OSError:
                PTY_OK[0] = False
        return None
    kw = {}
    files = {}
    sin = spec["stdin"]
    if sin == "closed":
        argv = ["/bin/sh", "-c", 'exec "$0" "$@" <&-'] + list(argv)
        kw["stdin"] = subprocess.DEVNULL
    elif sin == "devnull":
        kw["stdin"] = subprocess.DEVNULL
    elif sin == "pty" and pty_pair("stdin") is not None:
        kw["stdin"] = opened[-1]
        os.write(masters["stdin"], b"\x04")          # end-of-file typed at the terminal
    else:
        kw["stdin"] = subprocess.PIPE
    for name in ("stdout", "stderr"):
        how = spec[name]
        if how == "devnull":
            kw[name] = subprocess.DEVNULL
        elif how == "file":
            files[name] = open(os.path.join(scratch, name), "w+b")
            kw[name] = files[name]
        elif how == "pty" and pty_pair(name) is not None:
            kw[name] = opened[-1]
        else:
            kw[name] = subprocess.PIPE
    got = {"stdout": b"", "stderr": b""}
    rc = None
    try:
        p = subprocess.Popen(argv, cwd=cwd, env=e, **kw)
        for m_name, m in masters.items():           # the child holds the slave ends now
            pass
        for fd in [f for f in opened if f not in masters.values()]:
            os.close(fd)
            opened.remove(fd)
        if kw["stdin"] == subprocess.PIPE:
            try:
                if sin == "data":
                    p.stdin.write(b"yes\nanswer two\n42\ntrue\n1s\n")
                p.stdin.close()
            except OSError:
                pass
        readers = {}
        for name in ("stdout", "stderr"):
            if kw[name] == subprocess.PIPE:
                readers[getattr(p, name).fileno()] = name
            elif name in masters:
                readers[masters[name]] = name
        deadline = time.time() + timeout
        while readers:
            left = deadline - time.time()
            if left <= 0:
                p.kill()
                rc = 124
                break
            r, _, _ = select.select(list(readers), [], [], min(left, 1.0))
            for fd in r:
                try:
                    chunk = os.read(fd, 65536)
                except OSError:                      # EIO: the terminal's other end is gone
                    chunk = b""
                if chunk:
                    got[readers[fd]] += chunk
                else:
                    del readers[fd]
            if not r and p.poll() is not None:
                # the child is gone; a pty master does not signal end-of-file by itself: drain and stop
                for fd in list(readers):
                    if fd in masters.values():
                        while True:
                            rr, _, _ = select.select([fd], [], [], 0.05)
                            if not rr:
                                break
                            try:
                                chunk = os.read(fd, 65536)
                            except OSError:
                                chunk = b""
                            if not chunk:
                                break
                            got[readers[fd]] += chunk
                        del readers[fd]
        try:
            prc = p.wait(timeout=max(1, deadline - time.time()))
        except subprocess.TimeoutExpired:
            p.kill()
            prc = 124
        rc = prc if rc is None else rc
        for name in ("stdout", "stderr"):
            pipe = getattr(p, name)
            if pipe is not None:
                pipe.close()
    finally:
        for fd in opened:
            try:
                os.close(fd)
            except OSError:
                pass
    for name, f in files.items():
        f.seek(0)
        got[name] = f.read()
        f.close()
    dec = lambda b: b.decode("utf-8", "replace").replace("\r\n", "\n")
    return {"rc": rc, "out": dec(got["stdout"]), "err": None if spec["stderr"] == "devnull" else dec(got["stderr"])}


def start_compiled(bindir, k, neutral, named, a, d):
    """-> (argv0, executable or None, cwd, extra env) for the compiled binary started as the line's "argv0" says"""
    if a is None:
        return neutral, None, d, {}
    name = a["name"]
    executable = None
    if a["via"] == "compiled":
        ldir, path = os.path.dirname(named), named
    elif a["via"] == "fake":            # argv[0] chosen by the caller (exec with a different name), no such file
        ldir, path, executable = "/usr/local/bin", os.path.join("/usr/local/bin", name), neutral
    else:
        ldir = os.path.join(bindir, "l%d" % k)
        os.makedirs(ldir, exist_ok=True)
        path = os.path.join(ldir, name)
        if not os.path.lexists(path):
            if a["via"] == "copy":
                # copied by a child process: this (multi-threaded, forking) process never holds a write
                # descriptor of a file it is about to execute (ETXTBSY)
                sh(["cp", neutral, path], check=True)
            else:
                {"hardlink": os.link, "symlink": os.symlink}[a["via"]](neutral, path)
    if a["how"] == "abs":
        return path, executable, d, {}
    if a["how"] == "dot":
        return "./" + name, executable, (d if executable else ldir), {}
    return name, executable, d, ({} if executable else {"PATH": ldir + os.pathsep + os.environ.get("PATH", "")})


def run_project(mage, ctx, proj, lines):
    files = c04gen.render(proj)
    history = bool(proj.get("prev_files"))
    imp_history = history and proj["edit"]["kind"].startswith("imp-")
    hcache = os.path.join(ctx.tmp, "hcache", proj["name"])       # an imported-package history has MAGEFILE_CACHE directories of its own
    if history:
        # first generation: built and run once through the cached route (hash mode), then the edit.
        # When only a mage:import'ed package is edited the file name of the cached binary does not change
        # (hash mode is not meant to notice that); the route under test is then the DEFAULT mode, which rebuilds
        # whenever the go tool has a build cache - under each go environment of the lines
        d = make_project(mage, proj["prev_files"], proj["name"])
        if imp_history:
            r0 = mage.run(d, ["-l"], cache=os.path.join(hcache, "c"))
            for i_ in range(len(lines)):
                if (lines[i_].get("goenv") or "default") != "default":
                    sh(["cp", "-r", os.path.join(hcache, "c"), os.path.join(hcache, "c%d" % i_)], check=True)
        else:
            r0 = mage.run(d, ["-l"], env={"MAGEFILE_HASHFAST": "1"})
        if r0["rc"] != 0:
            return {"build_error": r0}
        for rel in set(proj["prev_files"]) - set(files):
            os.remove(os.path.join(d, rel))
        for rel, text in files.items():
            if proj["prev_files"].get(rel) != text:
                with open(os.path.join(d, rel), "w") as f:
                    f.write(text)
    else:
        d = make_project(mage, files, proj["name"])
    bindir = os.path.join(ctx.tmp, "static", proj["name"])
    neutral = os.path.join(bindir, "neutral", "magebin")
    os.makedirs(os.path.dirname(neutral), exist_ok=True)
    rc = mage.compile(d, neutral)
    if rc["rc"] != 0:
        return {"build_error": rc}
    named = None
    if proj.get("binname") and any((ln.get("argv0") or {}).get("via") == "compiled" for ln in lines):
        # mage -compile <dir>/<a name that spells a target or alias>
        named = os.path.join(bindir, "named", proj["binname"])
        os.makedirs(os.path.dirname(named), exist_ok=True)
        rc = mage.compile(d, named)
        if rc["rc"] != 0:
            return {"build_error": rc}
    res = []
    first = not history       # the first run through mage builds the cached binary (in a history: the hash-mode run does, never a rebuilding run)
    for k, ln in enumerate(lines):
        env = {}
        if ln["ignore"] is not None:
            env["MAGEFILE_IGNOREDEFAULT"] = ln["ignore"]
        if ln["fail"]:
            env["VERIF_FAIL"] = ";".join("d%s:%s" % (k_, v) for k_, v in sorted(ln["fail"].items()))
        mode = ln.get("mode") or NOMODE
        ffl, fenv = c04gen.mode_flags(mode, True)
        bfl, benv = c04gen.mode_flags(mode, False)
        t0 = time.time()
        # the front end hands the words over unchanged whether it rebuilds or reuses the binary, and a
        # rebuild costs ~0.1-1 s: the rebuilding route is taken for the lines marked "rebuild" only
        if imp_history:
            gname = ln.get("goenv") or "default"
            genv = {"MAGEFILE_CACHE": os.path.join(hcache, "c" if gname == "default" else "c%d" % k)}
            for var, val in c04gen.GOENVS[gname][0].items():
                if val == "NEW":
                    val = os.path.join(hcache, "new%d_%s" % (k, var))          # does not exist yet
                elif val == "SHM":
                    val = os.path.join("/dev/shm" if os.access("/dev/shm", os.W_OK) else ctx.tmp, "verif-c04-%d-%s-%d" % (os.getpid(), proj["name"], k))
                    os.makedirs(val, exist_ok=True)
                    SHM_DIRS.append(val)
                genv[var] = val
            r1 = run_exe(mage, [mage.bin] + ffl + ln["words"], d, dict(env, **fenv, **genv))
            r2 = None
        else:
            r1 = mage.run(d, ffl + ln["words"], env=dict(env, **fenv)) if ln.get("rebuild") or first else None
        first = False
        t1 = time.time()
        if not imp_history:
            r2 = mage.run(d, ffl + ln["words"], env=dict(env, MAGEFILE_HASHFAST="1", **fenv))
        t2 = time.time()
        argv0, executable, cwd, penv = start_compiled(bindir, k, neutral, named, ln.get("argv0"), d)
        r3 = run_exe(mage, [argv0] + bfl + ln["words"], cwd, dict(env, **benv, **penv), executable=executable)
        t3 = time.time()
        TIMES[0] += t1 - t0; TIMES[1] += t2 - t1; TIMES[2] += t3 - t2
        # the same line with other standard streams: dispatch must not depend on what stdin/stdout/stderr are
        variants = []
        for si, spec in enumerate(ln.get("streams") or []):
            scratch = os.path.join(bindir, "io%d_%d" % (k, si))
            os.makedirs(scratch, exist_ok=True)
            if spec.get("via") == "mage" and not imp_history:
                rv = run_streams(mage, [mage.bin] + ffl + ln["words"], d, dict(env, MAGEFILE_HASHFAST="1", **fenv), spec, scratch)
            else:
                rv = run_streams(mage, [neutral] + bfl + ln["words"], d, dict(env, **benv), spec, scratch)
            ov = observe(dict(rv, err=rv["err"] or ""))
            if rv["err"] is None:
                ov["stderr"] = ov["bad"] = None       # not observed
            variants.append(ov)
        prim = r2 if r2 is not None else r3      # (an imported-package history has no hash-mode route: the fresh compiled binary is the reference)
        res.append([observe(prim), observe(r1) if r1 else None, observe(r3), (prim["err"] + prim["out"])[-300:], variants])
    return {"runs": res}


# ------------------------------------------------------------------ Coq printing
def target_term(t):
    return "{| tname := %s; targs := %s; tdef := %d |}" % (coq_str(t["tname"]), coq_list([TY[a] for a in t["args"]]), t["def"])


def info_term(inf):
    return "{| funcs := %s; imports := %s; aliases := %s; default := %s |}" % (
        coq_list([target_term(t) for t in inf["funcs"]]),
        coq_list([coq_list([target_term(t) for t in imp]) for imp in inf["imports"]]),
        coq_list(["(%s, %s)" % (coq_str(a), coq_str(tn)) for a, tn in inf["aliases"]]),
        coq_opt(target_term(inf["default"])) if inf["default"] else "None")


def calls_term(cl):
    out = []
    for defid, vals in cl:
        vs = []
        for ty, v in vals:
            vs.append("(VStr %s)" % coq_str(v) if ty == "string" else "(VConv %s %s)" % (TY.get(ty, "TString"), coq_str(v)))
        out.append("{| cdef := %d; cvals := %s |}" % (int(defid[1:]) if isinstance(defid, str) else defid, coq_list(vs)))
    return coq_list(out)


def end_term(e):
    if e is None:
        return "None"
    if e == "done":
        return "(Some Done)"
    if e == "listed":
        return "(Some Listed)"
    if e == "failed":
        return "(Some Failed)"
    r = e[1]
    if r == "unknown":
        return "(Some (Exit2 Unknown))"
    if r == "missing":
        return "(Some (Exit2 Missing))"
    ty = r[4:]
    return "(Some (Exit2 (BadArg %s)))" % TY[ty] if ty in TY else "None"


def case_term(inf_name, line, conv, types, obs, end):
    words = list(line["words"])
    entries = []
    seen = set()
    keys = [(ty, w) for w in words for ty in types if ty != "string"]
    if not words:
        keys.append(("bool", line["ignore"] or ""))
    for ty, w in keys:
        if (ty, w) in seen:
            continue
        seen.add((ty, w))
        entries.append("(%s, %s, %s)" % (TY[ty], coq_str(w), coq_opt(coq_str(conv[(ty, w)])) if conv.get((ty, w)) is not None else "None"))
    mode = line.get("mode") or NOMODE
    a0 = line.get("argv0")
    mterm = "{| m_argv0 := %s; m_verbose := %s; m_debug := %s; m_timeout := %s |}" % (
        coq_str(a0["name"] if a0 else "magebin"), coq_bool(mode["verbose"] is not None), coq_bool(mode["debug"]),
        coq_opt(coq_str(mode["timeout"])) if mode["timeout"] else "None")
    return "{| c_info := %s; c_conv := %s; c_fail := %s; c_ignore := %s; c_mode := %s; c_words := %s; c_obs := (%s, %s) |}" % (
        inf_name, coq_list(entries), coq_list([str(int(k)) for k in sorted(line["fail"], key=int)]),
        coq_str(line["ignore"] or ""), mterm, coq_list([coq_str(w) for w in words]), calls_term(obs["calls"]), end_term(end))


# ------------------------------------------------------------------ the check
def run(ctx):
    ctx.prove(["Props/C04.vo", "Run/eval_C04.vo"], extra_props=["Compose"])            # + composition C07 => C04 (no_collision discharged)
    import extractlib; extractlib.fn_tie(ctx, ['TargetName', 'TargetName/Classify', 'TargetName/ImportTag'])   # pure functions translated from the current source, re-proved equal to the models' (tools/notes/Translator.md)
    ctx.trusted_base += [
        "lib/c04gen.py + checks/c04.py (package generator/renderer, template data as Coq term, command-line grammar, oracle, classification of exit status/stderr)",
        "lib/projlib.py (project layout, probe package printing CALL lines, three ways of running)",
        "harness/unitrun op conv: strconv.Atoi / strconv.ParseBool / time.ParseDuration called directly (their actual results are fed to the model and the oracle)",
        "go toolchain, text/template (the template engine instantiating the dispatcher is exercised, not modelled)"]
    rng = ctx.rng
    mage = projlib.Mage(ctx)
    unit = go_build_harness(ctx, "unitrun")
    nproj = 32 if ctx.quick else 500
    nlines = 24

    def go_conv(keys):
        req = json.dumps({"op": "conv", "raw": [{"ty": ty, "w": base64.b64encode(w.encode("utf-8", "surrogateescape")).decode()} for ty, w in keys]}) + "\n"
        rc, out, err = sh([unit], input=req.encode(), timeout=300)
        if rc != 0:
            raise BuildError("unitrun conv failed: " + err[-2000:])
        ans = json.loads(out.splitlines()[0])
        if isinstance(ans, dict):
            raise BuildError("unitrun conv: %s" % ans)
        return {k: (a["printed"] if a["ok"] else None) for k, a in zip(keys, ans)}

    # Go's own upper/lower-casing of the non-ASCII letters of the identifier pools (steers how names are typed)
    chars = c04gen.nonascii_chars()
    cc = go_conv([("toupper", c) for c in chars] + [("tolower", c) for c in chars])
    c04gen.GO_CASE.update({c: (cc[("toupper", c)], cc[("tolower", c)]) for c in chars})
    work = []
    if ctx.replay and ctx.replay.get("case"):
        c = ctx.replay["case"]
        work.append((c["proj"], [c["line"]]))
    else:
        for k in range(nproj):
            # every fourth package has identifiers / alias names with non-ASCII letters
            proj = c04gen.gen_project(rng, "p%04d" % k, nonascii=(k % 4 == 1))
            if k % 4 == 3:
                # a short HISTORY: the package is built and run once, then ONE of its several magefiles is edited
                # (new target / changed parameter list / renamed target); the lines are run against the edited
                # package with the same cache in hash mode - the cached route must follow the current files
                proj["split"] = c04gen.gen_split(rng, proj, force_first=True)
                other = None
                if k % 8 == 7:
                    # ... or ONLY a mage:import'ed package is edited; the lines then go through the default
                    # (rebuilding) mode, the first three under a go-tool environment of their own
                    for _ in range(20):
                        other = c04gen.gen_edit_import(rng, proj)
                        if other is not None:
                            break
                        proj = c04gen.gen_project(rng, "p%04d" % k)
                        proj["split"] = c04gen.gen_split(rng, proj, force_first=True)
                proj = other or c04gen.gen_edit(rng, proj)
            elif rng.random() < 0.5:
                proj["split"] = c04gen.gen_split(rng, proj)
            inf0 = c04gen.info(proj)
            # the file name of a second `mage -compile` output: spells a target or an alias of this package
            proj["binname"] = c04gen.binary_name(rng, rng.choice([t["tname"] for t in c04gen.all_targets(inf0)] + [a for a, _ in inf0["aliases"]]))
            work.append((proj, gen_lines(rng, proj, c04gen.info(proj), nlines)))
    infos = [c04gen.info(p) for p, _ in work]
    # the standard library's conversions of every word (independent of mage)
    keys = set()
    for (proj, lines) in work:
        for ln in lines:
            for w in ln["words"]:
                for ty in ("int", "bool", "time.Duration"):
                    keys.add((ty, w))
            keys.add(("bool", ln["ignore"] or ""))
    # strings.ToLower of every word and every name, as Go computes it (the oracle matches names with it)
    for (proj, lines), inf in zip(work, infos):
        for ln in lines:
            for w in ln["words"]:
                keys.add(("tolower", w))
        for t in c04gen.all_targets(inf):
            keys.add(("tolower", t["tname"]))
        for a_, _ in inf["aliases"]:
            keys.add(("tolower", a_))
    keys = sorted(keys)
    conv = go_conv(keys)
    golower = lambda w: conv[("tolower", w)]
    ascii_lower = lambda w: "".join(c.lower() if c.isascii() else c for c in w)
    ctx.log("projects %d, command lines %d, conversions %d" % (len(work), sum(len(l) for _, l in work), len(keys)))

    results = pmap(lambda pl: run_project(mage, ctx, pl[0], pl[1]), work)
    ctx.log("ran; cpu-seconds per way (mage, hashfast, static): %.1f %.1f %.1f" % tuple(TIMES))

    items, index, item_proj = [], [], []
    seen = set()
    nontriv = 0
    nviol = 0
    dist = {"ends": {}, "words_per_line": {}, "name_kinds": {"plain": 0, "ns": 0, "import": 0, "import-ns": 0, "alias": 0},
            "param_types": {}, "arity": {}, "modes": {}, "binary_started_as": {}, "fail_lines": 0, "no_words": 0, "projects_with_imports": 0, "projects_with_aliases": 0,
            "projects_with_default": 0, "projects_with_several_magefiles": 0, "history_edits": {}, "go_environments": {}, "go_environment_refused": 0, "streams": {}, "oracle_only_non_ascii": 0, "projects_non_ascii_names": 0}
    for pi, ((proj, lines), inf, res) in enumerate(zip(work, infos, results)):
        if "build_error" in res:
            # the generator only emits packages in the documented form: mage must build them
            ctx.violation({"kind": "oracle", "clause": "a collision-free package in the documented form does not build",
                           "stderr": res["build_error"]["err"][-800:]}, case={"proj": proj, "line": lines[0]})
            continue
        types = sorted(set(ty for p in proj["pkgs"] for d in p["decls"] for ty in d["params"]))
        dist["projects_with_imports"] += len(proj["pkgs"]) > 1
        dist["projects_with_several_magefiles"] += len(set((proj.get("split") or {}).values()) | {0}) > 1
        if proj.get("edit"):
            dist["history_edits"][proj["edit"]["kind"]] = dist["history_edits"].get(proj["edit"]["kind"], 0) + 1
        dist["projects_with_aliases"] += bool(proj["aliases"])
        dist["projects_with_default"] += proj["default"] is not None
        for p in proj["pkgs"]:
            for d in p["decls"]:
                dist["arity"][len(d["params"])] = dist["arity"].get(len(d["params"]), 0) + 1
                for ty in d["params"]:
                    dist["param_types"][ty] = dist["param_types"].get(ty, 0) + 1
        ntargets = sum(len(p["decls"]) for p in proj["pkgs"])
        allnames = [t["tname"] for t in c04gen.all_targets(inf)] + [a_ for a_, _ in inf["aliases"]]
        modelled = all(golower(n) == ascii_lower(n) for n in allnames)
        dist["projects_non_ascii_names"] += not modelled
        lowered = sorted(golower(t["tname"]) for t in c04gen.all_targets(inf))
        for ln, (o1, o2, o3, tail, variants) in zip(lines, res["runs"]):
            case = {"proj": proj, "line": ln}
            want_calls, want_end = oracle(proj, ln, conv, golower)
            got_calls = [(int(c[0][1:]), [tuple(a) for a in c[1]]) for c in o1["calls"]]
            got_end = classify(o1, set("d%s" % k_ for k_ in ln["fail"]))
            clause = None
            # a body in which the PROCESS dies (signal, fatal runtime error): the status and the stderr text are
            # the kernel's / the runtime's / the front end's own (255 + "failed to run compiled magefile" through
            # mage); what is compared is the CALL trace and that the status is not 0
            deaths = set("d%s" % k_ for k_, v in ln["fail"].items() if death(v))
            def norm(o):
                if o is not None and o["calls"] and o["calls"][-1][0] in deaths:
                    return dict(o, rc=(1 if o["rc"] != 0 else 0), stderr="(process died)" if o["stderr"] is not None else None, bad=None)
                return o
            gname = ln.get("goenv") or "default"
            if o2 is not None and c04gen.GOENVS[gname][1] and o2["rc"] == 1 and not o2["calls"] and o2["stderr"] == "compile-error" and o2["listed"] is None:
                o2 = None          # the go tool refuses to build in this environment: nothing ran at all
                dist["go_environment_refused"] += 1
            if gname != "default":
                dist["go_environments"][gname] = dist["go_environments"].get(gname, 0) + 1
            o1, o2, o3, variants = norm(o1), norm(o2), norm(o3), [norm(v) for v in variants]
            if (o2 is not None and o1 != o2) or o1 != o3:
                clause = "cached binary / mage (rebuilding) / compiled binary behave differently: %s | %s | %s" % (json.dumps(o1)[:300], json.dumps(o2)[:300], json.dumps(o3)[:300])
            elif got_calls != want_calls:
                clause = "bodies run %s, the property sentence says %s" % (got_calls, want_calls)
            elif [1 for ov in variants if any(ov[f] != o1[f] for f in ("rc", "calls", "listed") + (("stderr", "bad") if ov["stderr"] is not None else ()))]:
                spec, ov = [(sp, ov) for sp, ov in zip(ln["streams"], variants)
                            if any(ov[f] != o1[f] for f in ("rc", "calls", "listed") + (("stderr", "bad") if ov["stderr"] is not None else ()))][0]
                clause = "dispatch depends on the standard streams: with %s the run gave %s, with pipes %s" % (json.dumps(spec), json.dumps(ov)[:300], json.dumps(o1)[:300])
            elif got_end != want_end:
                clause = "run ended %s (rc=%d, stderr class %s), the property sentence says %s" % (got_end, o1["rc"], o1["stderr"], want_end)
            elif want_end == "listed" and sorted(c04gen.go_lower(x) for x in o1["listed"]) != lowered:
                clause = "listing shows %s, the targets are %s" % (o1["listed"], lowered)
            if clause:
                nviol += 1
                if nviol <= 5:        # the first few failing inputs are written as replays, the rest counted
                    ctx.violation({"kind": "oracle", "clause": clause, "words": ln["words"], "stderr_tail": tail}, case=case)
            # distribution
            k = want_end if isinstance(want_end, str) else ("exit2-" + want_end[1].split(":")[0])
            dist["ends"][k] = dist["ends"].get(k, 0) + 1
            nw = min(len(ln["words"]), 12)
            dist["words_per_line"][nw] = dist["words_per_line"].get(nw, 0) + 1
            dist["fail_lines"] += bool(ln["fail"])
            for sp in ln.get("streams") or []:
                key = "%s/%s/%s%s" % (sp["stdin"], sp["stdout"], sp["stderr"], "/mage" if sp.get("via") == "mage" else "")
                dist["streams"][key] = dist["streams"].get(key, 0) + 1
            md, a0 = ln.get("mode") or NOMODE, ln.get("argv0")
            for key, on in (("verbose-" + str(md["verbose"]), md["verbose"]), ("debug", md["debug"]), ("timeout", md["timeout"])):
                if on:
                    dist["modes"][key] = dist["modes"].get(key, 0) + 1
            key = "neutral" if not a0 else a0["via"] + "/" + a0["how"]
            dist["binary_started_as"][key] = dist["binary_started_as"].get(key, 0) + 1
            dist["no_words"] += not ln["words"]
            h = case_hash([inf, ln])
            if h not in seen:
                seen.add(h)
                converted = any(ty != "string" for _, vs in want_calls for ty, _ in vs)
                if len(want_calls) >= 2 or converted or (want_calls and want_end not in ("done", "listed")):
                    nontriv += 1
            # the Coq model's [lower] is ASCII lower-casing: it is evaluated on the cases where that IS
            # strings.ToLower for every name of the package and every word of the line; the oracle judges all
            if modelled and all(golower(w) == ascii_lower(w) for w in ln["words"]):
                items.append(case_term("inf_%d" % pi, ln, conv, types, o1, got_end))
                index.append(case)
                item_proj.append(pi)
            else:
                dist["oracle_only_non_ascii"] += 1
        # which kinds of names were used on the command lines of this project
        al = {a.lower() for a, _ in proj["aliases"]}
        kinds = {}
        for p in proj["pkgs"]:
            for d in p["decls"]:
                nm = ":".join(x for x in (p["alias"], d["recv"], d["name"]) if x).lower()
                kinds[nm] = ("import-ns" if d["recv"] else "import") if p["key"] else ("ns" if d["recv"] else "plain")
        for ln in lines:
            for w in ln["words"]:
                lw = w.lower()
                if lw in al:
                    dist["name_kinds"]["alias"] += 1
                elif lw in kinds:
                    dist["name_kinds"][kinds[lw]] += 1

    # model vs implementation, in batches of 40 projects (the template data of a project is defined once per shard file)
    mism = []
    BATCH = 40
    for b0 in range(0, len(work), BATCH):
        sel = [k for k, pi in enumerate(item_proj) if b0 <= pi < b0 + BATCH]
        if not sel:
            continue
        header = "From Mage Require Import Base.Strs Model.Dispatch Run.eval_C04.\n" + "".join(
            "Definition inf_%d : info := %s.\n" % (pi, info_term(infos[pi])) for pi in sorted(set(item_proj[k] for k in sel)))
        mm = ctx.coq_eval_shards("cases_C04_b%d" % (b0 // BATCH), header, [items[k] for k in sel],
                                 per_shard=max(20, min(400, (len(sel) + NCPU - 1) // NCPU)))
        mism += [(sel[idx], body) for idx, body in mm]
    if mism and not ctx.violations:
        for idx, body in mism[:3]:
            ctx.violation({"kind": "model-vs-implementation", "correspondence": "Run/eval_C04.mismatches", "model_says": body[:400]},
                          case=index[idx], found_input=False)
    for d_ in SHM_DIRS:
        shutil.rmtree(d_, ignore_errors=True)
    cov = ctx.coverage
    cov["evaluations"] = sum(len(res["runs"]) for res in results if "runs" in res)     # every case is judged by the oracle
    cov["model_evaluated"] = len(items)                                                 # ... and these also by the Coq model (ASCII names)
    cov["distinct_nontrivial"] = nontriv
    cov["rule"] = ("generated collision-free packages (1-6 local targets, 0-2 mage:import'ed packages with/without alias, namespaces, 0-3 aliases, "
                   "default with/without parameters or none) x command lines (1-6 mentions, random letter case, too few / too many words, "
                   "unconvertible spellings, words that look like targets or flags or need shell quoting, unknown names, failing bodies, no words with MAGEFILE_IGNOREDEFAULT values) "
                   "x mode flags (-v / MAGEFILE_VERBOSE / -debug / -t, to mage and to the compiled binary) x file name and invocation path of the compiled binary "
                   "(names spelling targets/aliases; copy, hard link, symlink, -compile output, made-up argv[0]; absolute, ./, PATH); "
                   "each run three ways; distinct by hash of (template data, line); non-trivial = at least two bodies run, or an argument converted, "
                   "or the run stops after at least one body ran")
    cov["projects"] = len(work)
    cov["runs"] = sum(2 + (r[1] is not None) + len(r[4]) for res in results if "runs" in res for r in res["runs"])
    cov["distribution"] = dist
    cov["model_mismatches"] = len(mism)
    cov["oracle_failures"] = nviol
    cov["traces_validated_against_impl"] = len(items) - len(mism)
    for (proj, lines), res in list(zip(work, results))[:2]:
        if "runs" in res:
            for ln, r in list(zip(lines, res["runs"]))[2:5]:
                ctx.sample({"targets": [t["tname"] for t in c04gen.all_targets(c04gen.info(proj))], "aliases": proj["aliases"],
                            "words": ln["words"], "fail": ln["fail"], "observed": r[0]})
