"""C05 - the process exit status reflects the outcome of the targets.

Theorems: coq/Props/C05.v over Model/ExitChain.v (the whole chain body -> runDeps/changeExit -> runTarget ->
handleError -> os.Exit -> kernel mod 256 -> RunCompiled/sh.ExitStatus -> Invoke -> ParseAndRun -> os.Exit).
Correspondence: generated projects whose targets and dependencies fail in every way of a palette (selected per run
through the environment, so one compile serves many scenarios), at every position of 1-3 target command lines,
run three ways (the -compile'd binary, `mage` in default mode, `mage` with the cached binary in hash mode), plus a
table of malformed command lines for both programs and of projects that cannot be found / parsed / compiled.
Observed: exit status, CALL trace (which requested targets started), stderr.  The Coq model gets the abstract
scenario and must predict status, number of started targets and (where mage itself reports) a non-empty stderr.
Oracle: an independent Python reading of the property sentence (o_status / oracle_line / the `want` column)."""
import json, os, re, subprocess, threading
from vlib import *
import projlib
from projlib import Mage

# ---------------------------------------------------------------- the generated magefile
MAGEFILE = r'''//go:build mage

package main

import (
	"context"
	"errors"
	"fmt"
	"os"
	"strconv"
	"strings"
	"syscall"
	"time"

	"github.com/magefile/mage/mg"
	"github.com/magefile/mage/sh"
)

var depFns = map[string]interface{}{}

func init() {
	depFns["d1"] = d1
	depFns["d2"] = d2
	depFns["d3"] = d3
	depFns["d4"] = d4
	depFns["d5"] = d5
	depFns["d6"] = d6
}

// act prints CALL <id> and then behaves as VERIF_SCEN says for id.
func act(id string, args ...interface{}) error {
	line := "CALL " + id
	for _, a := range args {
		line += " " + fmt.Sprintf("%T:%q", a, fmt.Sprint(a))
	}
	fmt.Println(line)
	if e := os.Getenv("VERIF_ECHO"); e != "" {
		// VERIF_ECHO=<variable>:<out|err>  every body prints the value of that environment variable in the middle of
		// other output before it acts
		ne := strings.SplitN(e, ":", 2)
		w := os.Stdout
		if len(ne) > 1 && ne[1] == "err" {
			w = os.Stderr
		}
		fmt.Fprintf(w, "ECHO-BEGIN %s\nconnecting with %s=%s to the service, please wait\nECHO-END %s\n", id, ne[0], os.Getenv(ne[0]), id)
	}
	if n := os.Getenv("VERIF_NOISE"); n != "" && strings.Contains(";"+os.Getenv("VERIF_SCEN"), ";"+id+"=") {
		emitNoise(n) // what a body prints before it fails
	}
	for _, spec := range strings.Split(os.Getenv("VERIF_SCEN"), ";") {
		kv := strings.SplitN(spec, "=", 2)
		if len(kv) != 2 || kv[0] != id {
			continue
		}
		parts := strings.Split(kv[1], ":")
		code := 1
		if len(parts) > 1 {
			code, _ = strconv.Atoi(parts[1])
		}
		msg := "FAIL-" + id
		if m := os.Getenv("VERIF_MSG"); m != "" {
			msg = m // every failure of this run carries the same message text
		}
		noText := false
		switch os.Getenv("VERIF_TEXT") { // ... or a text of a special form
		case "empty":
			msg, noText = "", true
		case "blank":
			msg = " "
		case "newline":
			msg = "\n"
		case "newlines":
			msg = "\n\n\n"
		case "big":
			msg = strings.Repeat("0123456789abcde\n", 4096) // 64 KiB
		case "percent":
			msg = "100%s done %d%% %!v %"
		case "nul":
			msg = "a\x00b"
		}
		if noText && (parts[0] == "fatal" || parts[0] == "panic-fatal") {
			// the usual way to pass on a tool's status when the tool printed its own diagnostics: no text at all
			if parts[0] == "fatal" {
				return mg.Fatal(code)
			}
			panic(mg.Fatal(code))
		}
		switch parts[0] {
		case "error":
			return mkErr(parts[1:], msg)
		case "fatal":
			return mg.Fatal(code, msg)
		case "fatalf":
			return mg.Fatalf(code, "%s", msg)
		case "panic-error":
			panic(mkErr(parts[1:], msg))
		case "panic-fatal":
			panic(mg.Fatal(code, msg))
		case "panic-string":
			panic(msg)
		case "panic-int":
			panic(4200 + code)
		case "osexit":
			os.Exit(code)
		case "sh":
			// sh:<k>[:<entry point>[:<noise>]]  the child writes to stdout (o) and/or stderr (e) before it exits k
			entry, noise, script := "run", "", ""
			if len(parts) > 2 {
				entry = parts[2]
			}
			if len(parts) > 3 {
				noise = parts[3]
			}
			if strings.Contains(noise, "o") {
				script += "echo not ready; "
			}
			if strings.Contains(noise, "e") {
				script += "echo warning >&2; "
			}
			return shFail(entry, script+"exit "+parts[1])
		case "shnotran":
			// shnotran[:0:<entry>]  the command cannot be started
			entry := "run"
			if len(parts) > 2 {
				entry = parts[2]
			}
			return shCall(entry, "verif-no-such-command-"+id)
		case "shsig":
			// shsig:<signal number>:<entry>  the child kills itself with that signal (no exit code of its own).
			// sh.Exec expands $NAME in its arguments, so "$$" is spelled through a variable holding "$".
			entry := "run"
			if len(parts) > 2 {
				entry = parts[2]
			}
			os.Setenv("VERIF_DOLLAR", "$")
			return shFail(entry, "echo going down; kill -"+parts[1]+" ${VERIF_DOLLAR}${VERIF_DOLLAR}; sleep 5")
		case "shcopy":
			// shcopy:<1|2>  the child exits 0 but the io.Writer given to sh.Exec for its stdout (1) / stderr (2) fails
			if parts[1] == "2" {
				_, err := sh.Exec(nil, os.Stdout, failWriter{}, "sh", "-c", "echo data >&2")
				return err
			}
			_, err := sh.Exec(nil, failWriter{}, os.Stderr, "sh", "-c", "echo data")
			return err
		case "kill", "killonce":
			// kill:<signal>      the compiled magefile process itself dies from that signal, in this body
			// killonce:<signal>  only the first time this body runs for the marker file VERIF_MARK (a later
			//                    run of the same command line completes)
			if parts[0] == "killonce" {
				mark := os.Getenv("VERIF_MARK") + "." + id
				if _, err := os.Stat(mark); err == nil {
					return nil
				}
				os.WriteFile(mark, []byte("killed once\n"), 0o644)
			}
			os.Stdout.Sync()
			syscall.Kill(os.Getpid(), syscall.Signal(code))
			time.Sleep(10 * time.Second)
		case "deps", "sdeps", "ctxdeps":
			var fs []interface{}
			for _, n := range strings.Split(parts[1], ",") {
				if n != "" {
					fs = append(fs, depFns[n])
				}
			}
			switch parts[0] {
			case "deps":
				mg.Deps(fs...)
			case "sdeps":
				mg.SerialDeps(fs...)
			default:
				mg.CtxDeps(context.Background(), fs...)
			}
		}
	}
	return nil
}

// emitNoise writes a lot before the failure: one very long line (no newline inside) or 10 MiB of short lines, on
// stderr (err...) or stdout (out...).
func emitNoise(kind string) {
	w := os.Stdout
	if strings.HasPrefix(kind, "err") {
		w = os.Stderr
	}
	switch strings.TrimPrefix(strings.TrimPrefix(kind, "err"), "out") {
	case "70k":
		w.WriteString(strings.Repeat("x", 70000) + "\n")
	case "200k":
		w.WriteString(strings.Repeat("y", 200000) + "\n")
	case "10m":
		chunk := strings.Repeat("noise line 0123456789 0123456789 0123456789 0123456789 01234567\n", 1024) // 64 KiB
		for i := 0; i < 160; i++ {
			w.WriteString(chunk)
		}
	}
}

// mkErr makes an error VALUE of the requested shape; what decides the exit status is only whether the value
// itself has a method ExitStatus() int.
func mkErr(shape []string, msg string) error {
	n := 0
	if len(shape) > 1 {
		n, _ = strconv.Atoi(shape[1])
	}
	if len(shape) == 0 {
		return errors.New(msg)
	}
	switch shape[0] {
	case "wrapplain": // %w around a plain error
		return fmt.Errorf("context: %w", errors.New(msg))
	case "wrapfatal": // %w around mg.Fatal(n): the wrapper has no ExitStatus() of its own
		return fmt.Errorf("context: %w", mg.Fatal(n, msg))
	case "unwrapnil": // a type with an optional cause: Unwrap() error returns nil
		return &causeErr{msg: msg}
	case "unwrapmulti": // Unwrap() []error
		return errors.Join(errors.New(msg), mg.Fatal(n, msg))
	case "typednil": // a nil pointer in a non-nil error interface
		var e *causeErr
		return e
	case "code": // a type of its own with ExitStatus() int = n (0, negative, > 255 included)
		return codeErr{n, msg}
	}
	return errors.New(msg)
}

type causeErr struct {
	msg   string
	cause error
}

func (e *causeErr) Error() string {
	if e == nil {
		return "FAIL-typed-nil"
	}
	return e.msg
}

func (e *causeErr) Unwrap() error {
	if e == nil {
		return nil
	}
	return e.cause
}

type codeErr struct {
	code int
	msg  string
}

func (e codeErr) Error() string   { return e.msg }
func (e codeErr) ExitStatus() int { return e.code }

// shFail runs the failing child through one of the entry points of package sh and hands its error on.
func shFail(entry, script string) error {
	return shCall(entry, "sh", "-c", script)
}

// shCall runs cmd through the entry point of package sh named by entry.
func shCall(entry, cmd string, args ...string) error {
	env := map[string]string{"VERIF_CHILD": "1"}
	switch entry {
	case "runv":
		return sh.RunV(cmd, args...)
	case "runwith":
		return sh.RunWith(env, cmd, args...)
	case "runwithv":
		return sh.RunWithV(env, cmd, args...)
	case "output":
		_, err := sh.Output(cmd, args...)
		return err
	case "outputwith":
		_, err := sh.OutputWith(env, cmd, args...)
		return err
	case "exec":
		_, err := sh.Exec(env, os.Stdout, os.Stderr, cmd, args...)
		return err
	case "runcmd":
		if len(args) > 0 {
			return sh.RunCmd(cmd, args[:len(args)-1]...)(args[len(args)-1])
		}
		return sh.RunCmd(cmd)()
	case "outcmd":
		var err error
		if len(args) > 0 {
			_, err = sh.OutCmd(cmd, args[:len(args)-1]...)(args[len(args)-1])
		} else {
			_, err = sh.OutCmd(cmd)()
		}
		return err
	}
	return sh.Run(cmd, args...)
}

// failWriter is an io.Writer (not an *os.File) every Write of which fails.
type failWriter struct{}

func (failWriter) Write(p []byte) (int, error) { return 0, errors.New("verif: writer is broken") }

func must(err error) {
	if err != nil {
		panic(err)
	}
}

func d1() error                    { return act("d1") }
func d2() error                    { return act("d2") }
func d3()                          { must(act("d3")) }
func d4(ctx context.Context) error { return act("d4") }
func d5() error                    { return act("d5") }
func d6() error                    { return act("d6") }

// T1 is a target.
func T1() error { return act("T1") }
func T2() error { return act("T2") }
func T3() error { return act("T3") }

// U1 has no error result.
func U1() { must(act("U1")) }

func C1(ctx context.Context) error { return act("C1") }

func A1(s string, n int) error   { return act("A1", s, n) }
func A2(b bool, d time.Duration) { must(act("A2", b, d)) }
'''

# function id -> has an error result
HAS_ERR = {"T1": True, "T2": True, "T3": True, "U1": False, "C1": True, "A1": True, "A2": False,
           "d1": True, "d2": True, "d3": False, "d4": True, "d5": True, "d6": True}
TARGET_WORDS = {"T1": ["t1"], "T2": ["T2"], "T3": ["t3"], "U1": ["u1"], "C1": ["c1"], "A1": ["a1", "x", "5"], "A2": ["A2", "true", "1s"]}
TOP = set(TARGET_WORDS)

def hist_project(name):
    """a project whose magefile depends on code outside the (hashed) magefiles: a helper package, a mage:import'ed package"""
    mf = MAGEFILE.replace('\t"github.com/magefile/mage/sh"\n)\n',
                          '\t"github.com/magefile/mage/sh"\n)\n\nimport (\n\t"example.test/%s/helper"\n\t// mage:import\n\t_ "example.test/%s/imp"\n)\n\nvar _ = helper.Version\n' % (name, name), 1)
    assert mf != MAGEFILE
    return {"mf.go": mf,
            "helper/helper.go": "package helper\n\n// Version reports the version.\nfunc Version() string { return \"v1\" }\n",
            "imp/imp.go": "package imp\n\n// Imported is a target of the imported package.\nfunc Imported() error { return nil }\n"}


HIST_BREAK = {          # where the code stops compiling after a first, successful run
    "magefile": ("mf.go", "\nvar _ int = \"no longer compiles\"\n"),
    "helper": ("helper/helper.go", "\nvar _ int = \"no longer compiles\"\n"),
    "imp": ("imp/imp.go", "\nvar _ int = \"no longer compiles\"\n"),
    "gomod": ("go.mod", "\nthis is not a go.mod directive\n"),
}

def probe_magefile(proj, extra=""):
    """a small valid magefile whose bodies say which project they belong to"""
    return ("//go:build mage\n\npackage main\n\nimport \"fmt\"\n\n// T1 of project %s.\nfunc T1() { fmt.Println(\"CALL T1 proj=%s\") }\n\n"
            "func T2() { fmt.Println(\"CALL T2 proj=%s\") }\n%s" % (proj, proj, proj, extra))


# what can be wrong with the project directory mage is started in
NEST_BROKEN = {
    "empty": {".keep": ""},
    "notag": {"plain.go": "package main\n\nfunc helper() {}\n"},
    "header": {"mf.go": "//go:build mage\n\npackage main\n\nimport (\n\t\"fmt\n)\n\nfunc T1() { fmt.Println(\"CALL T1 proj=inner\") }\n"},
    "syntax": {"mf.go": "//go:build mage\n\npackage main\n\nimport \"fmt\"\n\nfunc T1( { fmt.Println(\"CALL T1 proj=inner\") }\n"},
    "type": {"mf.go": "//go:build mage\n\npackage main\n\nimport \"fmt\"\n\nfunc T1() error { fmt.Println(\"CALL T1 proj=inner\"); return 5 }\n"},
    "dup": {"mf.go": "//go:build mage\n\npackage main\n\nfunc T1() {}\nfunc T1x() {}\nfunc T1X() {}\n"},
}


def nest_project(name):
    """failing project directories inside one (in1_*) and two (mid/in2_*) levels of valid mage projects: the outer one
    with magefiles in the directory, the middle one with a magefiles/ folder; plus a valid inner project"""
    files = {"mf.go": probe_magefile("outer", "\nfunc Outeronly() { fmt.Println(\"CALL Outeronly proj=outer\") }\n"),
             "mid/magefiles/mf.go": probe_magefile("mid"),
             "in1_ok/mf.go": probe_magefile("inner"),
             "mid/in2_ok/mf.go": probe_magefile("inner")}
    for k, fs in NEST_BROKEN.items():
        for rel, text in fs.items():
            files["in1_%s/%s" % (k, rel)] = text
            files["mid/in2_%s/%s" % (k, rel)] = text
    return files


PLAT_PROJECT = {      # compiles for amd64 only: the helper lives in a file that go/build selects by its name
    "mf.go": "//go:build mage\n\npackage main\n\nimport \"fmt\"\n\n// T1 needs the helper.\nfunc T1() { fmt.Println(\"CALL T1\", platHelper()) }\n",
    "plat_amd64.go": "//go:build mage\n\npackage main\n\nfunc platHelper() string { return \"amd64\" }\n",
}


def named_platforms(args):
    """the platforms a -compile command line names: the values of -goos / -goarch (the last occurrence of a repeated flag,
    as the flag package reads it), each split at commas, blanks trimmed, empty elements dropped; default: this host"""
    vals = {"goos": None, "goarch": None}
    i = 0
    while i < len(args):
        a = args[i].lstrip("-") if args[i].startswith("-") else None
        if a is not None:
            name, eq, v = a.partition("=")
            if name in vals:
                if eq:
                    vals[name] = v
                elif i + 1 < len(args):
                    vals[name] = args[i + 1]
                    i += 1
        i += 1
    def lst(v, dflt):
        xs = [x.strip() for x in (v or "").split(",") if x.strip()]
        return xs or [dflt]
    return sorted(set("%s/%s" % (o, a) for o in lst(vals["goos"], "linux") for a in lst(vals["goarch"], "amd64")))


def file_platform(path):
    """goos/goarch of an executable file (ELF: linux; PE: windows), None if it is not one"""
    try:
        b = open(path, "rb").read(0x200)
    except OSError:
        return None
    if b[:4] == b"\x7fELF" and len(b) > 20:
        m = int.from_bytes(b[18:20], "little")
        return "linux/" + {62: "amd64", 183: "arm64", 3: "386", 40: "arm"}.get(m, "machine%d" % m)
    if b[:2] == b"MZ" and len(b) > 0x40:
        off = int.from_bytes(b[0x3c:0x40], "little")
        try:
            with open(path, "rb") as fh:
                fh.seek(off)
                pe = fh.read(6)
        except OSError:
            return None
        if pe[:4] == b"PE\0\0":
            m = int.from_bytes(pe[4:6], "little")
            return "windows/" + {0x8664: "amd64", 0xaa64: "arm64", 0x14c: "386"}.get(m, "machine%x" % m)
    return None


PROJECTS = {
    "plat": PLAT_PROJECT,
    "nest": nest_project,
    "hist": hist_project,
    "main": {"mf.go": MAGEFILE},
    "def": {"mf.go": MAGEFILE + "\nvar Default = T1\n"},
    "defargs": {"mf.go": MAGEFILE + "\nvar Default = A1\n"},
    "empty": {"plain.go": "package main\n\nfunc main() {}\n"},
    "syntax": {"mf.go": "//go:build mage\n\npackage main\n\nfunc T1( {\n"},
    "type": {"mf.go": "//go:build mage\n\npackage main\n\nfunc T1() error { return 5 }\n"},
    "dup": {"mf.go": "//go:build mage\n\npackage main\n\nfunc Build() {}\nfunc BUILD() {}\n"},
    "fresh": {},
}


# ---------------------------------------------------------------- behaviours: concrete spec, abstract body, oracle
def spec_string(behs):
    parts = []
    for fid, b in sorted(behs.items()):
        if b[0] == "ok":
            continue
        if b[0] in ("deps", "sdeps", "ctxdeps"):
            parts.append("%s=%s:%s" % (fid, b[0], ",".join(b[1])))
        elif b[0] == "sh" and len(b) > 2:
            parts.append("%s=sh:%d:%s:%s" % (fid, b[1], b[2], b[3]))
        elif len(b) > 1:
            parts.append("%s=%s" % (fid, ":".join(str(x) for x in b)))
        else:
            parts.append("%s=%s" % (fid, b[0]))
    return ";".join(parts)


def abs_body(fid, behs):
    """the abstract body (Model/ExitChain.body) of function fid under behs, as a JSON-able list"""
    b = behs.get(fid, ("ok",))
    k, he = b[0], HAS_ERR[fid]
    if k == "ok":
        return ["ok"]
    if k in ("error", "panic-error") and len(b) > 1 and b[1] == "code":
        # an error value whose own method ExitStatus() returns b[2]: for the chain it is what mg.Fatal(b[2]) is
        return ["fatal", b[2]] if (he and k == "error") else ["pfatal", b[2]]
    if k == "error":
        # every other shape (errors.New, %w wrappers - also around mg.Fatal -, Unwrap() nil / []error, typed nil) is an
        # error without an ExitStatus() of its own
        return ["err"] if he else ["perr"]
    if k in ("fatal", "fatalf"):
        return ["fatal", b[1]] if he else ["pfatal", b[1]]
    if k == "panic-error":
        return ["perr"]
    if k == "panic-fatal":
        return ["pfatal", b[1]]
    if k in ("panic-string", "panic-int"):
        return ["pval"]
    if k == "sh":
        if he:
            return ["sh", b[1]]
        return ["ok"] if b[1] == 0 else ["pfatal", b[1]]
    if k == "shnotran":
        return ["shnr"] if he else ["perr"]
    if k == "shsig":
        return ["shsig"] if he else ["perr"]
    if k == "shcopy":
        return ["shcopy"] if he else ["perr"]
    if k == "osexit":
        return ["exit", b[1]]
    if k in ("kill", "killonce"):
        return ["killed"]
    if k in ("deps", "ctxdeps", "sdeps"):
        return ["deps", k == "sdeps", [abs_body(d, behs) for d in b[1]]]
    raise ValueError(k)


def body_term(a):
    k = a[0]
    if k == "ok":
        return "BOk"
    if k == "err":
        return "BErr"
    if k == "fatal":
        return "(BFatal %s)" % coq_Z(a[1])
    if k == "perr":
        return "BPanicErr"
    if k == "pfatal":
        return "(BPanicFatal %s)" % coq_Z(a[1])
    if k == "pval":
        return "BPanicVal"
    if k == "sh":
        return "(BSh (CExit %s))" % coq_Z(a[1])
    if k == "shnr":
        return "(BSh CNotStarted)"
    if k == "shsig":
        return "(BSh CSignaled)"
    if k == "shcopy":
        return "BShCopyErr"
    if k == "exit":
        return "(BOsExit %s)" % coq_Z(a[1])
    if k == "killed":
        # the process ends inside this body: for the count of started bodies it is "the body ends the process"; the
        # status does not come from the program (route RMageChild CSignaled: the front end sees a signaled child)
        return "(BOsExit 0)"
    if k == "deps":
        return "(BDeps %s %s)" % (coq_bool(a[1]), coq_list([body_term(x) for x in a[2]]))
    raise ValueError(k)


# the oracle: a direct reading of the property sentence over the concrete behaviours
def o_exits(fid, behs):
    """the code with which fid ends the whole process (os.Exit), or None"""
    b = behs.get(fid, ("ok",))
    if b[0] == "osexit":
        return b[1]
    if b[0] in ("deps", "ctxdeps"):
        for d in b[1]:
            e = o_exits(d, behs)
            if e is not None:
                return e
    if b[0] == "sdeps":
        for d in b[1]:
            e = o_exits(d, behs)
            if e is not None:
                return e
            if o_status(d, behs) != 0:
                return None
    return None


def o_kills(fid, behs):
    """does running fid end the compiled magefile process by a signal"""
    b = behs.get(fid, ("ok",))
    if b[0] in ("kill", "killonce"):
        return True
    if b[0] in ("deps", "ctxdeps"):
        return any(o_kills(d, behs) for d in b[1])
    if b[0] == "sdeps":
        for d in b[1]:
            if o_kills(d, behs):
                return True
            if o_status(d, behs) != 0:
                return False
    return False


def o_status(fid, behs):
    """the status carried by the failure of fid; 0 = completed without error or panic"""
    b = behs.get(fid, ("ok",))
    k = b[0]
    if k == "ok":
        return 0
    if k in ("error", "panic-error") and len(b) > 1 and b[1] == "code":
        return b[2]                                # the status the error value itself carries
    if k in ("error", "panic-error", "panic-string", "panic-int", "shnotran", "shsig", "shcopy"):
        return 1                                   # plain error, non-error panic; a failed sh command that has no exit
                                                   # code of its own (not started, killed by a signal, output copy failed)
    if k in ("fatal", "fatalf", "panic-fatal", "osexit"):
        return b[1]                                # the code of mg.Fatal / mg.Fatalf; os.Exit's argument
    if k == "sh":
        return b[1]                                # the exit code of the failed sh command
    if k in ("deps", "ctxdeps"):
        e = o_exits(fid, behs)
        if e is not None:
            return e
        failed = [s for s in (o_status(d, behs) for d in b[1]) if s != 0]
        if not failed:
            return 0
        return failed[0] if all(s == failed[0] for s in failed) else 1     # the combined status
    if k == "sdeps":
        for d in b[1]:
            s = o_status(d, behs)
            if s != 0:
                return s
        return 0
    raise ValueError(k)


def o_tokens(fid, behs, msg=None):
    """tokens the failure message on stderr must contain when fid fails (None: no claim, the process ended itself)"""
    b = behs.get(fid, ("ok",))
    k = b[0]
    if o_exits(fid, behs) is not None:
        return None
    if k == "ok":
        return []
    if k == "panic-int":
        return [str(4200 + b[1])]
    if k == "sh":
        return ["exit code %d" % b[1]] if b[1] else []
    if k in ("shnotran", "shsig", "shcopy"):
        return ["failed to run"]
    if k in ("deps", "ctxdeps"):
        out = []
        for d in b[1]:
            out += o_tokens(d, behs, msg) or []
        return out
    if k == "sdeps":
        for d in b[1]:
            if o_status(d, behs) != 0:
                return o_tokens(d, behs, msg)
        return []
    if k in ("error", "panic-error") and len(b) > 1 and b[1] == "typednil":
        return ["FAIL-typed-nil"]
    return [msg or ("FAIL-" + fid)]


def oracle_line(mentions, behs, msg=None):
    """(exit, number of requested targets started, tokens) for a command line of mentions"""
    ran = 0
    for m in mentions:
        if m["kind"] != "run":
            return 2, ran, {"unknown": ["Unknown target"], "missing": ["not enough arguments"], "badarg": ["can't convert argument"]}[m["kind"]]
        ran += 1
        if o_kills(m["id"], behs):
            # the program did not complete: not 0 (it has no exit status of its own; the text names no class for it),
            # mage says so on stderr, nothing after it runs - and nothing runs twice
            return "nonzero", ran, []
        s = o_status(m["id"], behs)
        if s != 0:
            return s, ran, o_tokens(m["id"], behs, msg)
    return 0, ran, []


# ---------------------------------------------------------------- abstract scenario -> Coq
FLAGS = {"ok": "FlagsOk", "errhelp": "FlagsErrHelp", "bad": "FlagsBad"}


def fargs(parse="ok", help=False, init=False, compile=False, version=False, clean=False, goosarch=False, force=False, hashfast=False, nargs=0):
    return dict(parse=parse, help=help, init=init, compile=compile, version=version, clean=clean, goosarch=goosarch,
                force=force, hashfast=hashfast, nargs=nargs)


def build(list_err=False, nofiles=False, exename_err=False, goenv_err=False, gocache=True, exe_exists=False,
          parse_err=False, generate_err=False, compile_err=False):
    return dict(list_err=list_err, nofiles=nofiles, exename_err=exename_err, goenv_err=goenv_err, gocache=gocache,
                exe_exists=exe_exists, parse_err=parse_err, generate_err=generate_err, compile_err=compile_err)


def prog(flags="ok", list=False, help=False, list_err=False, default=None, ignore=False, mentions=()):
    return dict(flags=flags, list=list, help=help, list_err=list_err, default=default, ignore=ignore, mentions=[m for m in mentions])


def fargs_term(a):
    return "(FA %s %s %s %s %s %s %s %s %s %d)" % (FLAGS[a["parse"]], coq_bool(a["help"]), coq_bool(a["init"]), coq_bool(a["compile"]),
                                                   coq_bool(a["version"]), coq_bool(a["clean"]), coq_bool(a["goosarch"]), coq_bool(a["force"]),
                                                   coq_bool(a["hashfast"]), a["nargs"])


def build_term(b):
    return "(BD %s)" % " ".join(coq_bool(b[k]) for k in ("list_err", "nofiles", "exename_err", "goenv_err", "gocache", "exe_exists",
                                                         "parse_err", "generate_err", "compile_err"))


def mention_term(m):
    if m[0] == "run":
        return "(MRun %s)" % body_term(m[1])
    return {"unknown": "MUnknown", "missing": "MMissing", "badarg": "MBadArg"}[m[0]]


def prog_term(p):
    d = p["default"]
    dt = "NoDefault" if d is None else ("DefaultArgs" if d == "args" else "(DefaultBody %s)" % body_term(d))
    return "(CP %s %s %s %s %s %s %s)" % (FLAGS[p["flags"]], coq_bool(p["list"]), coq_bool(p["help"]), coq_bool(p["list_err"]), dt,
                                          coq_bool(p["ignore"]), coq_list([mention_term(m) for m in p["mentions"]]))


def case_term(c, ob):
    s = c["scen"]
    route = {"compiled": "RCompiled", "mage": "RMage", "hash": "RMage"}[c["route"]]
    if s.get("child") == "signaled":
        route = "(RMageChild CSignaled)"
    sc = "(SC %s %s %s %s %s %s)" % (fargs_term(s["fargs"]), coq_bool(s["init_err"]), coq_bool(s["clean_err"]), build_term(s["build"]),
                                      coq_bool(s["start"]), prog_term(s["prog"]))
    return "CASE %s %s (O %s %d %s)" % (route, sc, coq_Z(ob["exit"]), ob["ran"], coq_bool(ob["msg"]))


def scen(fa=None, bd=None, start=True, pr=None, init_err=False, clean_err=False, child=None):
    s = dict(fargs=fa or fargs(), build=bd or build(), start=start, prog=pr or prog(), init_err=init_err, clean_err=clean_err)
    if child:
        s["child"] = child
    return s


# ---------------------------------------------------------------- generators
SAMPLE_CODES = [1, 2, 3, 5, 7, 37, 64, 99, 100, 125, 126, 127, 128, 129, 130, 137, 143, 200, 250, 254, 255]
CODE_KINDS = ["fatal", "fatalf", "panic-fatal", "osexit", "sh", "sh-dep", "deps-equal", "deps-diff", "deps-sametext-equal", "deps-sametext-diff"]
SAME_TEXT = "step failed"
NOISE_KINDS = ["err70k", "err200k", "out70k", "out200k", "err10m", "out10m"]     # VERIF_NOISE
TEXT_KINDS = ["empty", "blank", "newline", "newlines", "big", "percent", "nul"]     # VERIF_TEXT: the text of every failure of the run
KILL_SIGNALS = [9, 15, 1]          # SIGKILL, SIGTERM, SIGHUP: the Go runtime dies from them
PLAIN_KINDS = ["error", "panic-error", "panic-string", "panic-int", "shnotran", "shsig", "shcopy"]
LEAF_DEPS = ["d1", "d2", "d3", "d4", "d5", "d6"]


def other_code(rng, c):
    while True:
        d = rng.choice([1, 2, 3, 9, 42, 127, 128, 255, (c % 255) + 1])
        if d != c:
            return d


SH_ENTRIES = ["run", "runv", "runwith", "runwithv", "output", "outputwith", "exec", "runcmd", "outcmd"]
SH_NOISE = ["", "o", "e", "oe"]


def sh_beh(rng, k, shspec=None):
    """a failing sh command: exit code k, through entry point e, child writing to stdout/stderr as noise says"""
    e, n = shspec or (rng.choice(SH_ENTRIES), rng.choice(SH_NOISE + ["o", "oe"]))
    return ("sh", k, e, n)


def plain_beh(rng, kind, shspec=None):
    """a failure without a status of its own; shspec = (kind, arg, entry) fixes the sh variant"""
    if kind == "panic-int":
        return (kind, rng.choice([1, 2, 3]))
    if kind == "shnotran":
        return ("shnotran", 0, shspec[2] if shspec else rng.choice(SH_ENTRIES))
    if kind == "shsig":
        return ("shsig", shspec[1] if shspec else rng.choice([9, 15]), shspec[2] if shspec else rng.choice(SH_ENTRIES))
    if kind == "shcopy":
        return ("shcopy", shspec[1] if shspec else rng.choice([1, 2]))
    if kind in ("error", "panic-error") and rng.random() < 0.5:
        return (kind,) + rng.choice(PLAIN_SHAPES)
    return (kind,)


# error VALUE shapes.  The first group has no ExitStatus() of its own (status 1); ("code", n) carries n itself.
PLAIN_SHAPES = [("wrapplain",), ("unwrapnil",), ("unwrapmulti", 5), ("typednil",)]
ALL_SHAPES = PLAIN_SHAPES + [("wrapfatal", 7), ("code", 77), ("code", 0), ("code", -3), ("code", 300)]


def oracle_decides(behs):
    """the property sentence does not decide: codes outside 1..255 (its quantifier) and the code of an mg.Fatal that is
    only reachable through %w (the tree does not look through wrappers; the model is the reference there)"""
    for b in behs.values():
        if b[0] in ("error", "panic-error") and len(b) > 1:
            if b[1] == "wrapfatal" or (b[1] == "code" and not 1 <= b[2] <= 255):
                return False
    return True


def leaf_failure(rng, c):
    k = rng.choice(["fatal", "fatalf", "panic-fatal", "sh"])
    return sh_beh(rng, c) if k == "sh" else (k, c)


def gen_failure(rng, fid, kind, c, behs, shspec=None):
    """make target fid fail in the given way carrying code c; fills behs"""
    if kind == "sh":
        behs[fid] = sh_beh(rng, c, shspec)
    elif kind == "sh-dep":
        # the failed command is a dependency's error (possibly next to dependencies that complete)
        ds = rng.sample(LEAF_DEPS, rng.choice([1, 1, 2, 3]))
        for i, d in enumerate(ds):
            behs[d] = sh_beh(rng, c, shspec) if i == 0 else rng.choice([("ok",), ("sh", 0, rng.choice(SH_ENTRIES), rng.choice(SH_NOISE))])
        rng.shuffle(ds)
        behs[fid] = (rng.choice(["deps", "ctxdeps", "sdeps"]), ds)
    elif kind in ("fatal", "fatalf", "panic-fatal", "osexit"):
        behs[fid] = (kind, c)
    elif kind in PLAIN_KINDS:
        behs[fid] = plain_beh(rng, kind, shspec)
    elif kind == "errshape":
        # shspec = (error | panic-error, shape tuple, sibling?)
        behs[fid] = (shspec[0],) + tuple(shspec[1])
    elif kind == "errshape-dep":
        ds = rng.sample(LEAF_DEPS, rng.choice([1, 2, 3]) if not shspec[2] else rng.choice([2, 3]))
        for i, d in enumerate(ds):
            behs[d] = ((shspec[0],) + tuple(shspec[1])) if i == 0 else (("fatal", 3) if (i == 1 and shspec[2]) else ("ok",))
        rng.shuffle(ds)
        behs[fid] = (rng.choice(["deps", "ctxdeps", "sdeps"]), ds)
    elif kind in ("kill", "killonce"):
        behs[fid] = (kind, shspec[1] if shspec else rng.choice(KILL_SIGNALS))
    elif kind == "kill-dep":
        ds = rng.sample(LEAF_DEPS, rng.choice([1, 2, 3]))
        for i, d in enumerate(ds):
            behs[d] = ((shspec[0] if shspec else rng.choice(["kill", "killonce"])), shspec[1] if shspec else rng.choice(KILL_SIGNALS)) if i == 0 \
                else rng.choice([("ok",), ("ok",), ("error",), ("fatal", 3)])
        if ds[0] != ds[-1] and rng.random() < 0.5:
            ds = ds[1:] + ds[:1]
        style = rng.choice(["deps", "ctxdeps", "sdeps"])
        if style == "sdeps":
            # serial: everything before the killer completes
            for d in ds:
                if behs[d][0] not in ("kill", "killonce"):
                    behs[d] = ("ok",)
        behs[fid] = (style, ds)
    elif kind == "plain-dep":
        # a dependency fails with a plain error / a sh command without an exit code of its own (shspec = (kind, arg, entry))
        ds = rng.sample(LEAF_DEPS, rng.choice([1, 1, 2, 3]))
        for i, d in enumerate(ds):
            behs[d] = plain_beh(rng, shspec[0] if shspec else rng.choice(PLAIN_KINDS), shspec) if i == 0 else ("ok",)
        rng.shuffle(ds)
        behs[fid] = (rng.choice(["deps", "ctxdeps", "sdeps"]), ds)
    elif kind == "deps-equal":
        # a failed dependency set whose failed members all carry c
        n = rng.choice([1, 2, 2, 3, 4])
        ds = rng.sample(LEAF_DEPS, n)
        nfail = rng.randint(1, n)
        for i, d in enumerate(ds):
            behs[d] = leaf_failure(rng, c) if i < nfail else ("ok",)
        rng.shuffle(ds)
        behs[fid] = (rng.choice(["deps", "ctxdeps", "sdeps"]), ds)
    elif kind == "deps-diff":
        n = rng.choice([2, 2, 3, 4])
        ds = rng.sample(LEAF_DEPS, n)
        for i, d in enumerate(ds):
            if i == 0:
                behs[d] = leaf_failure(rng, c)
            elif i == 1:
                r = rng.random()
                behs[d] = leaf_failure(rng, other_code(rng, c)) if r < 0.6 else (plain_beh(rng, rng.choice(["error", "panic-error", "panic-string", "shsig", "shcopy", "shnotran"])) if (r < 0.9 or c == 1) else ("osexit", other_code(rng, c)))
            else:
                behs[d] = rng.choice([("ok",), leaf_failure(rng, c), leaf_failure(rng, other_code(rng, c)), ("error",)])
        rng.shuffle(ds)
        behs[fid] = (rng.choice(["deps", "deps", "ctxdeps", "sdeps"]), ds)
    elif kind in ("deps-sametext-equal", "deps-sametext-diff"):
        # the failing members all carry the SAME message text (the line sets VERIF_MSG): the text must play no role,
        # only the codes are combined.  One member may fail through a dependency set of its own.
        text_leaf = lambda code: (rng.choice(["fatal", "fatalf", "panic-fatal"]), code)
        n = rng.choice([2, 2, 3, 4])
        pool = ["d1", "d2", "d3", "d4"]
        ds = rng.sample(pool, n)
        for i, d in enumerate(ds):
            if i == 0:
                behs[d] = text_leaf(c)
            elif i == 1:
                if kind == "deps-sametext-equal":
                    behs[d] = text_leaf(c)
                else:
                    behs[d] = text_leaf(other_code(rng, c)) if (rng.random() < 0.75 or c == 1) else (rng.choice(["error", "panic-error", "panic-string"]),)
            else:
                behs[d] = rng.choice([("ok",), text_leaf(c), text_leaf(c) if kind == "deps-sametext-equal" else text_leaf(other_code(rng, c))])
        nestable = [d for d in ds if d in ("d1", "d2")]
        if nestable and rng.random() < 0.45:
            d = rng.choice(nestable)
            inner = rng.choice(["d5", "d6"])
            behs[inner] = behs[d]                      # the failure sits one level further down
            behs[d] = (rng.choice(["deps", "sdeps"]), [inner])
        rng.shuffle(ds)
        behs[fid] = (rng.choice(["deps", "deps", "ctxdeps", "sdeps"]), ds)
    elif kind == "deps-nested":
        # d1 and/or d2 have dependencies of their own (d5, d6)
        behs["d5"] = rng.choice([("ok",), leaf_failure(rng, c), ("error",)])
        behs["d6"] = rng.choice([("ok",), leaf_failure(rng, c), leaf_failure(rng, other_code(rng, c)), ("panic-string",)])
        behs["d1"] = (rng.choice(["deps", "sdeps"]), rng.sample(["d5", "d6"], rng.choice([1, 2])))
        behs["d2"] = rng.choice([("ok",), ("deps", ["d6"]), leaf_failure(rng, c)])
        behs["d3"] = rng.choice([("ok",), ("ok",), leaf_failure(rng, c)])
        ds = rng.sample(["d1", "d2", "d3"], rng.choice([1, 2, 3]))
        behs[fid] = (rng.choice(["deps", "sdeps"]), ds)
    elif kind == "deps-ok":
        ds = rng.sample(LEAF_DEPS, rng.choice([0, 1, 2, 3]))
        for d in ds:
            behs[d] = rng.choice([("ok",), ("sh", 0, rng.choice(SH_ENTRIES), rng.choice(SH_NOISE))])
        behs[fid] = (rng.choice(["deps", "ctxdeps", "sdeps"]), ds)
    elif kind == "sh-ok":
        behs[fid] = ("sh", 0, rng.choice(SH_ENTRIES), rng.choice(SH_NOISE))
    else:
        raise ValueError(kind)


# words that name no target, for TARGET positions.  ANYWHERE: also as the first word (neither program's flag parser takes
# them); AFTER_FIRST: only after a first target word (as the first word "--" ends the flags and "-x" is a flag).
# Invalid UTF-8 is written with surrogate escapes (os.fsencode turns them back into the bytes).
UNKNOWN_ANYWHERE = ["nosuch", "t1x", "d1", "act", "bogus", "T1:T2", "", " ", "\t", "  ", " t1", "t1 ", "t1\n", "\nt1", "t1\t", "t\x011",
                    "\x7f", "t1\x00x"[:2] + "\x1b[0m", "\udcff\udcfe", "t1\udcff", "n" * 300, "t1" + "x" * 298, "-", "t1:", ":t1", "a::b",
                    "t1:t2:", ":", "T1 T2", "t1,t2", "*", "t1=1", "./t1", "t1.go", "\u00e9t\u00e9", "\u0131"]
UNKNOWN_AFTER_FIRST = ["--", "-bogus", "-v", "-l", "-h", "--t1", "-t1", "-t", "--help", "-="]


def gen_line(rng, kind, c, npos=None, shspec=None, word=None):
    """a 1-3 mention command line in which the mention at a random position fails in way `kind` (or none fails)"""
    n = rng.choice([1, 2, 2, 3, 3])
    ids = rng.sample(sorted(TOP), n)
    pos = rng.randrange(n) if npos is None else min(npos, n - 1)
    behs = {}
    mentions = []
    words = []
    for i, fid in enumerate(ids):
        w = list(TARGET_WORDS[fid])
        w[0] = rng.choice([w[0], w[0].lower(), w[0].upper()])
        m = {"kind": "run", "id": fid}
        if i == pos:
            if kind == "unknown":
                m = {"kind": "unknown", "id": None}
                w = [word if word is not None else rng.choice(UNKNOWN_ANYWHERE + (UNKNOWN_AFTER_FIRST if i > 0 else []))]
            elif kind == "missing":
                # only meaningful at the end of the line: the following words would be taken as arguments
                ids = ids[:i + 1]
                m = {"kind": "missing", "id": None}
                w = rng.choice([["a1"], ["a1", "x"], ["a2"], ["A2", "true"]])
                mentions.append(m)
                words += w
                break
            elif kind == "badarg":
                m = {"kind": "badarg", "id": None}
                w = rng.choice([["a1", "x", "notint"], ["a1", "x", "1.5"], ["a2", "maybe", "1s"], ["a2", "true", "1x"], ["A1", "", ""]])
            elif kind != "none":
                gen_failure(rng, fid, kind, c, behs, shspec)
        elif i < pos or kind == "none":
            r = rng.random()
            if r < 0.2:
                gen_failure(rng, fid, "deps-ok", 0, behs)
            elif r < 0.3:
                gen_failure(rng, fid, "sh-ok", 0, behs)
        else:
            # after the failure: anything, it must not run
            if rng.random() < 0.5:
                gen_failure(rng, fid, rng.choice(["fatal", "error", "osexit"]), other_code(rng, c or 1), behs)
        mentions.append(m)
        words += w
    return {"kind": "line", "fail": kind, "code": c, "pos": pos, "text": None, "msg": (SAME_TEXT if kind.startswith("deps-sametext") or (kind in ("deps-diff", "deps-equal", "deps-nested") and rng.random() < 0.25) else None), "nmentions": len(mentions), "mentions": mentions, "behs": {k: list(v) for k, v in behs.items()}, "words": words}


def line_cases(ctx):
    rng = ctx.rng
    codes = list(range(1, 256)) if not ctx.quick else sorted(set(SAMPLE_CODES + rng.sample(range(1, 256), 4)))
    lines = []
    for c in codes:
        for kind in CODE_KINDS:
            lines.append(gen_line(rng, kind, c))
    extra = 14 if ctx.quick else 120
    for _ in range(extra):
        lines.append(gen_line(rng, rng.choice(PLAIN_KINDS), 1))
        lines.append(gen_line(rng, rng.choice(["unknown", "missing", "badarg"]), 2))
        lines.append(gen_line(rng, "none", 0))
        lines.append(gen_line(rng, "deps-nested", rng.choice(codes)))
    # every entry point of package sh x what the child writes before it exits k, directly and as a dependency
    sweep_codes = [2, 7, 127, 255] if ctx.quick else [1, 2, 7, 37, 126, 127, 128, 200, 255]
    i = 0
    for ki, k in enumerate(sweep_codes):
        for e in SH_ENTRIES:
            for n in SH_NOISE:
                lines.append(gen_line(rng, "sh" if (i + ki) % 2 == 0 else "sh-dep", k, shspec=(e, n)))
                i += 1
    # sh commands without an exit code of their own: killed by a signal / output copy fails / cannot be started, through
    # every entry point, directly in a target and as a dependency, all three routes
    noexit = [("shsig", sig, e) for sig in (9, 15) for e in SH_ENTRIES] + [("shcopy", w, None) for w in (1, 2)] + \
             [("shnotran", 0, e) for e in SH_ENTRIES]
    for sp in noexit:
        for kind in (sp[0], "plain-dep"):
            l = gen_line(rng, kind, 1, shspec=sp)
            l["routes"] = "all"
            lines.append(l)
    # the TEXT of the failure as a dimension: empty, blank, newlines only, 64 KiB, with % verbs, with a NUL - for returned
    # and panicked errors / mg.Fatal / non-error panics, in a target, in (parallel / serial / nested / mixed) dependency sets
    for text in TEXT_KINDS:
        for kind in ("fatal", "fatalf", "panic-fatal", "error", "panic-error", "panic-string", "deps-equal", "deps-equal", "deps-diff", "deps-diff", "deps-nested", "plain-dep"):
            l = gen_line(rng, kind, rng.choice([7, 3, 128, 255, 1, 2]))
            l["text"], l["msg"] = text, None
            lines.append(l)
    for l in lines:
        if l.get("text") is None and not l.get("msg") and l["fail"] not in ("none", "unknown", "missing", "badarg") and rng.random() < 0.12:
            l["text"] = rng.choice(TEXT_KINDS)
    # the volume / shape of what a body prints before it fails: a 70 000 / 200 000-byte line (no newline inside) or 10 MiB of
    # short lines, on stderr or stdout - the failure message must still arrive (it is looked for in the TAIL of stderr)
    for noise in NOISE_KINDS:
        kinds = ("error", "fatal") if noise.endswith("10m") else ("error", "fatal", "panic-string", "sh", "deps-diff", "plain-dep")
        for kind in kinds:
            l = gen_line(rng, kind, rng.choice([7, 5, 200]))
            l["noise"] = noise
            l["routes"] = "all"
            lines.append(l)
    # a credential-looking environment variable whose VALUE a body prints (in the middle of other output, on stdout or
    # stderr) before it completes / fails: status, message and the complete output per the model, all three routes
    kinds_cycle = ["none", "error", "fatal", "sh", "deps-diff", "panic-string", "none", "fatalf", "osexit"]
    k = 0
    for var, val in (("DEPLOY_TOKEN", "tok-3f9a7c21e5"), ("API_KEY", "AKIA1234567890"), ("DB_PASSWORD", "hunter2hunter2"), ("MY_SECRET", "s3cr3t-value")):
        for stream in ("out", "err"):
            for _ in range(3):
                l = gen_line(rng, kinds_cycle[k % len(kinds_cycle)], rng.choice([7, 3, 200]))
                k += 1
                l["echo_env"] = {var: val, "VERIF_ECHO": "%s:%s" % (var, stream)}
                l["echo"] = [var, val, stream]
                l["routes"] = "all"
                lines.append(l)
    # error value shapes: as a target's result, as a dependency's result (alone / next to an mg.Fatal(3)), returned or
    # as an error-valued panic
    for shape in ALL_SHAPES:
        for ek in ("error", "panic-error"):
            lines.append(gen_line(rng, "errshape", 1, shspec=(ek, shape, False)))
            lines.append(gen_line(rng, "errshape-dep", 1, shspec=(ek, shape, False)))
            lines.append(gen_line(rng, "errshape-dep", 1, shspec=(ek, shape, True)))
    # the compiled magefile process itself dies from a signal: in a target / in a dependency, every run / only the first
    # run (marker file), several signals; through the front end (default and hash mode)
    for rep in range(1 if ctx.quick else 4):
        for sig in KILL_SIGNALS:
            for how in ("kill", "killonce"):
                for kind in (how, "kill-dep"):
                    lines.append(gen_line(rng, kind, 0, shspec=(how, sig)))
    # every word of the pool that names no target, at the first position and after targets that complete
    for w in UNKNOWN_ANYWHERE + UNKNOWN_AFTER_FIRST:
        for p in ((0, 1, 2) if w in UNKNOWN_ANYWHERE else (1, 2)):
            for _ in range(30):
                l = gen_line(rng, "unknown", 2, npos=p, word=w)
                if l["pos"] == p:
                    l["mage_share"] = 0.15          # mostly the binary and hash mode: the default mode costs a build
                    lines.append(l)
                    break
    # every position of a three-target line for a few kinds
    for kind in ("fatal", "error", "unknown", "deps-diff", "deps-sametext-diff", "sh", "sh-dep", "shsig", "shcopy", "plain-dep", "killonce", "kill-dep"):
        for p in range(3):
            for _ in range(20):
                l = gen_line(rng, kind, rng.choice(codes), npos=p)
                if l["nmentions"] == 3 and l["pos"] == p:
                    lines.append(l)
                    break
    return lines


def line_to_cases(ctx, l, idx):
    """one abstract line -> cases over the routes"""
    rng = ctx.rng
    behs = {k: tuple(v) for k, v in l["behs"].items()}
    ments = []
    for m in l["mentions"]:
        ments.append(["run", abs_body(m["id"], behs)] if m["kind"] == "run" else [m["kind"]])
    want = oracle_line(l["mentions"], behs, l.get("msg"))
    if l.get("text") and want[2] is not None and want[0] != 0:
        want = (want[0], want[1], [t for t in want[2] if not t.startswith("FAIL-")])      # the text is not FAIL-<id>: only "something on stderr"
    decided = oracle_decides(behs)
    out = []
    killed = want[0] == "nonzero"
    routes = ["compiled", "hash"]
    mage_share = 0.12 if ctx.quick else 0.5
    if rng.random() < l.get("mage_share", 0.5 if l["fail"] in ("unknown", "missing", "badarg") else mage_share) or l.get("routes") == "all":
        routes.append("mage")
    if killed:
        routes = ["mage", "hash"]       # a -compile'd binary killed by a signal has no exit status to look at
    for r in routes:
        c = dict(l)
        c.update(route=r, proj="main", args=list(l["words"]), env=dict(({"VERIF_MSG": l["msg"]} if l.get("msg") else ({"VERIF_TEXT": l["text"]} if l.get("text") else {})), **dict(({"VERIF_NOISE": l["noise"]} if l.get("noise") else {}), **(l.get("echo_env") or {}))), want=({"exit": want[0], "ran": want[1], "tokens": want[2]} if decided else None),
                 scen=scen(fa=fargs(nargs=len(l["words"]), hashfast=(r == "hash")), pr=prog(mentions=ments), child=("signaled" if killed else None)), line=idx)
        out.append(c)
    return out


HEAD_FLAGS = {"clean", "compile", "h", "init", "l", "version", "d", "debug", "f", "goarch", "gocmd", "goos", "ldflags", "keep", "t", "v", "w",
              "help"}
SLICE_KINDS = ["error", "fatal", "fatalf", "panic-fatal", "panic-string", "panic-error", "sh", "osexit", "deps-diff", "deps-equal", "plain-dep",
               "unknown", "badarg", "none"]


def representative_slice(lines):
    """one line per failure kind (as generated: random position and line length) plus two with a long stderr line before
    the failure: what is re-run under every discovered knob / flag"""
    out, seen = [], set()
    for l in lines:
        if l["fail"] in SLICE_KINDS and l["fail"] not in seen and not l.get("noise") and not l.get("text") and not l.get("msg"):
            seen.add(l["fail"])
            out.append(l)
    noisy = [l for l in lines if l.get("noise") in ("err70k", "err200k")][:2]
    return out + noisy


def discover_flags(ctx, m):
    """flags the front end of the tree under test documents in `mage -h` that are not in the list at HEAD:
    [(name, takes_value)]"""
    r = m.run(ctx.tmp, ["-h"])
    found = []
    for mm in re.finditer(r"(?m)^\s+-([A-Za-z][\w-]*)\b([^\n]*)", r["out"] + r["err"]):
        name, rest = mm.group(1), mm.group(2)
        if name not in HEAD_FLAGS and name not in [f for f, _ in found]:
            found.append((name, "<" in rest))
    return found


def variant_cases(ctx, lines, tag, env_extra=None, arg_prefix=None, routes=("compiled", "hash", "mage")):
    """the lines of the slice once more, with an extra environment variable or extra front-end flags; same expectations"""
    out = []
    for i, l in enumerate(lines):
        l2 = dict(l, routes="all")
        for c in line_to_cases(ctx, l2, 100000 + i):
            if c["route"] not in routes:
                continue
            c["variant"] = tag
            c["env"] = dict(c["env"], **(env_extra or {}))
            if arg_prefix:
                c["args"] = list(arg_prefix) + c["args"]
            out.append(c)
    return out


def discovery_cases(ctx, m, lines):
    """knobs (environment variables) and front-end flags of the tree under test that no model knows: they must not change
    the status, which targets run, or the failure message - they become a dimension of the status scenarios"""
    import depslib
    cases = []
    slice_ = representative_slice(lines)
    knobs = depslib.discover_knobs()
    flags = discover_flags(ctx, m)
    ctx.coverage["discovered_knobs"] = knobs
    ctx.coverage["discovered_flags"] = [f for f, _ in flags]
    n = [0]

    def value(v):
        if v == "@FILE":
            n[0] += 1
            return os.path.join(ctx.tmp, "knob-%d.out" % n[0])
        return v
    for k in knobs:
        for v in ("1", "true", "@FILE", "1s", "10ms"):
            cases += variant_cases(ctx, slice_, "%s=%s" % (k, v), env_extra={k: value(v)})
    for name, takes in flags:
        for v in (("1s", "10ms", "@FILE", "t1") if takes else (None,)):
            pre = ["-" + name] + ([value(v)] if takes else [])
            # does the front end accept the value?  -version runs nothing and builds nothing
            probe = m.run(ctx.tmp, pre + ["-version"])
            if probe["rc"] == 0:
                cases += variant_cases(ctx, slice_, "flag %s" % " ".join(pre), arg_prefix=pre, routes=("hash", "mage"))
            else:
                cases.append(dict(kind="table", name="new flag %s with a value it rejects" % " ".join(pre), proj="main", route="mage", args=pre + ["t1"], env={},
                                  scen=scen(fa=fargs(parse="bad")), special=None, behs={}, want={"exit": 2, "ran": 0, "tokens": ["Error"]}, slot=None))
    return cases


def table_cases(ctx):
    """malformed command lines, pure commands, projects that cannot be built: (args, expected status) from the property sentence"""
    T1 = ["run", ["ok"]]
    cs = []

    def add(name, proj, route, args, want_exit, sc, env=None, tokens=None, want_ran=0, special=None, oracle=True, behs=None, slot=None):
        cs.append(dict(kind="table", name=name, proj=proj, route=route, args=args, env=env or {}, scen=sc, special=special, behs=behs or {},
                       want=({"exit": want_exit, "ran": want_ran, "tokens": tokens} if oracle else None), slot=slot))

    # --- the front end's own command line: misuse -> 2, nothing runs, message on stderr
    bad = lambda **k: scen(fa=fargs(parse="bad", **k))
    add("undefined flag", "main", "mage", ["-bogus"], 2, bad(), tokens=["Error:", "bogus"])
    add("undefined flag before a target", "main", "mage", ["-bogus", "t1"], 2, bad(), tokens=["Error:"])
    add("bad flag value", "main", "mage", ["-t", "notaduration", "t1"], 2, bad(), tokens=["Error:", "notaduration"])
    add("missing flag value", "main", "mage", ["-t"], 2, bad(), tokens=["Error:"])
    add("bad bool flag value", "main", "mage", ["-v=maybe", "t1"], 2, bad(), tokens=["Error:"])
    add("-h with a command and a target", "main", "mage", ["-h", "-version", "t1"], 2, scen(fa=fargs(help=True, version=True, nargs=1)), tokens=["Error:"])
    add("-h -clean target", "main", "mage", ["-h", "-clean", "t1"], 2, scen(fa=fargs(help=True, clean=True, nargs=1)), tokens=["Error:"])
    add("-h with two targets", "main", "mage", ["-h", "t1", "t2"], 2, scen(fa=fargs(help=True, nargs=2)), tokens=["Error:"])
    add("-goos without -compile", "main", "mage", ["-goos", "linux", "t1"], 2, scen(fa=fargs(goosarch=True, nargs=1)), tokens=["Error:"])
    add("-goarch without -compile", "main", "mage", ["-goarch", "arm64"], 2, scen(fa=fargs(goosarch=True)), tokens=["Error:"])
    add("-goos with -version", "main", "mage", ["-goos", "linux", "-version"], 2, scen(fa=fargs(goosarch=True, version=True)), tokens=["Error:"])
    add("words after -clean", "main", "mage", ["-clean", "t1"], 2, scen(fa=fargs(clean=True, nargs=1)), tokens=["Error:"], slot="clean")
    add("words after -version", "main", "mage", ["-version", "t1"], 2, scen(fa=fargs(version=True, nargs=1)), tokens=["Error:"])
    add("words after -init", "main", "mage", ["-init", "t1"], 2, scen(fa=fargs(init=True, nargs=1)), tokens=["Error:"])
    add("words after -compile", "main", "mage", ["-compile", "../never-built", "t1"], 2, scen(fa=fargs(compile=True, nargs=1)), tokens=["Error:"])
    # --- a malformed flag combined with valid options, in both orders: a flag error anywhere -> 2, nothing runs, message
    #     on stderr (the targets after it would run - one of them would fail with 7 - if the error were lost)
    bad_shapes = [["-nosuchflag"], ["-t", "notaduration"], ["-v=maybe"], ["-debug=perhaps"], ["--undefined=1"]]
    valid_opts = [["-w", "work"], ["-d", "."], ["-v"], ["-debug"], ["-t", "5s"], ["-gocmd", "go"], ["-f"], ["-keep"]]
    tail = ["t1", "t2"]
    tail_behs = {"T2": ["fatal", 7]}
    for bs in bad_shapes:
        for vo in valid_opts:
            for order in ("before", "after"):
                argv = (vo + bs if order == "before" else bs + vo) + tail
                add("bad flag %s with %s %s it" % (bs, vo, order), "main", "mage", argv, 2,
                    bad(force=(order == "before" and vo == ["-f"])), tokens=["Error:"], behs=tail_behs)
    for vo in valid_opts:
        add("missing flag value after %s" % vo, "main", "mage", vo + ["-t"], 2, bad(force=(vo == ["-f"])), tokens=["Error:"])
        add("-h, %s, bad flag" % vo, "main", "mage", ["-h"] + vo + ["-nosuchflag", "t1"], 2, bad(help=True, force=(vo == ["-f"])), tokens=["Error:"])
    add("bad flag between two valid options", "main", "mage", ["-w", "work", "-nosuchflag", "-v", "t1", "t2"], 2, bad(), tokens=["Error:"], behs=tail_behs)
    add("two valid options then a bad value", "main", "mage", ["-v", "-w", "work", "-t", "notaduration", "t1", "t2"], 2, bad(), tokens=["Error:"], behs=tail_behs)
    add("valid options with a command, then a bad flag", "main", "mage", ["-w", "work", "-l", "-nosuchflag"], 2, bad(), tokens=["Error:"])
    # --- the same valid options on a well-formed line: the targets run and decide
    for vo in valid_opts[:-1]:
        add("valid option %s, targets" % vo, "main", "mage", vo + tail, 7, scen(fa=fargs(nargs=2, force=(vo == ["-f"])), pr=prog(mentions=[T1, ["run", ["fatal", 7]]])),
            tokens=["FAIL-T2"], behs=tail_behs, want_ran=2)
    # --- the compiled binary: a malformed flag with its valid options in both orders
    for bs in [["-nosuchflag"], ["-t", "zz"], ["-v=maybe"]]:
        for vo in [["-v"], ["-t", "5s"], ["-l"], ["-h"]]:
            for order in ("before", "after"):
                argv = (vo + bs if order == "before" else bs + vo) + tail
                add("binary: bad flag %s with %s %s it" % (bs, vo, order), "main", "compiled", argv, 2,
                    scen(pr=prog(flags="bad", list=(order == "before" and vo == ["-l"]), help=(order == "before" and vo == ["-h"]),
                                 mentions=[T1, ["run", ["fatal", 7]]])), tokens=["Error:"], behs=tail_behs)
    # --- usage / pure commands -> 0
    add("-help", "main", "mage", ["-help"], 0, scen(fa=fargs(parse="errhelp")))
    add("--help", "main", "mage", ["--help"], 0, scen(fa=fargs(parse="errhelp")))
    add("-h", "main", "mage", ["-h"], 0, scen(fa=fargs(help=True)))
    add("-h -version", "main", "mage", ["-h", "-version"], 0, scen(fa=fargs(help=True, version=True)))
    add("-version", "main", "mage", ["-version"], 0, scen(fa=fargs(version=True)))
    add("-version -l", "main", "mage", ["-version", "-l"], 0, scen(fa=fargs(version=True)))
    add("-clean", "main", "mage", ["-clean"], 0, scen(fa=fargs(clean=True)), slot="clean")
    # --- the commands that run no target x an environmental failure: not 0, message on stderr (needs chattr +i: we are root)
    if ctx.coverage.get("immutable_files_possible"):
        add("-clean, a cache entry cannot be removed", "main", "mage", ["-clean"], "nonzero", scen(fa=fargs(clean=True), clean_err=True), slot="clean2",
            special="clean-stuck", tokens=["Error"])
        add("-clean in hash mode, a cache entry cannot be removed", "main", "hash", ["-clean"], "nonzero", scen(fa=fargs(clean=True, hashfast=True), clean_err=True),
            slot="clean3", special="clean-stuck", tokens=["Error"])
        add("-init, the directory cannot be written", "fresh", "mage", ["-init"], "nonzero", scen(fa=fargs(init=True), init_err=True), slot="init2",
            special="init-immutable", tokens=["Error:"])
        add("-compile, the output path cannot be written", "main", "mage", ["-compile", "../immutable-out/bin"], "nonzero",
            scen(fa=fargs(compile=True), bd=build(compile_err=True)), slot="compile2", special="compile-immutable", tokens=["Error"])
    add("-h target, the magefile does not parse", "syntax", "mage", ["-h", "t1"], 1, scen(fa=fargs(help=True, nargs=1), bd=build(parse_err=True)), tokens=["Error parsing magefiles"])
    add("-h target, the magefile does not compile", "type", "mage", ["-h", "t1"], 1, scen(fa=fargs(help=True, nargs=1), bd=build(compile_err=True)), tokens=["error compiling magefiles"])
    add("-l, the magefile does not compile", "type", "mage", ["-l"], 1, scen(fa=fargs(), bd=build(compile_err=True)), tokens=["error compiling magefiles"])
    add("-l, no magefiles", "empty", "hash", ["-l"], 1, scen(fa=fargs(hashfast=True), bd=build(nofiles=True)), tokens=["No .go files"])
    add("-init in a fresh directory", "fresh", "mage", ["-init"], 0, scen(fa=fargs(init=True)), special="init-fresh")
    add("-init next to an existing magefile.go", "fresh", "mage", ["-init"], 1, scen(fa=fargs(init=True), init_err=True), special="init-existing", tokens=["Error:"])
    add("-init -clean (the switch takes -init)", "fresh", "mage", ["-init", "-clean"], 0, scen(fa=fargs(init=True, clean=True)), special="init-fresh2", oracle=False)
    # --- through to the compiled program
    add("-l", "main", "mage", ["-l"], 0, scen(fa=fargs(), pr=prog(list=True)))
    add("-l target", "main", "mage", ["-l", "t1"], 0, scen(fa=fargs(nargs=1), pr=prog(list=True, mentions=[T1])))
    add("no target, no default: the list", "main", "mage", [], 0, scen(fa=fargs(), pr=prog()))
    add("-h target", "main", "mage", ["-h", "t1"], 0, scen(fa=fargs(help=True, nargs=1), pr=prog(help=True, mentions=[T1])))
    add("-h target with arguments", "main", "mage", ["-h", "a1"], 0, scen(fa=fargs(help=True, nargs=1), pr=prog(help=True, mentions=[["missing"]])))
    add("-h unknown target", "main", "mage", ["-h", "nosuch"], 2, scen(fa=fargs(help=True, nargs=1), pr=prog(help=True, mentions=[["unknown"]])), tokens=["Unknown target"])
    add("-- -bogus (a flag reaches the compiled program)", "main", "mage", ["--", "-bogus"], 2, scen(fa=fargs(nargs=1), pr=prog(flags="bad")), tokens=["bogus"])
    add("-v target", "main", "mage", ["-v", "t1"], 0, scen(fa=fargs(nargs=1), pr=prog(mentions=[T1])), want_ran=1)
    add("-f target in hash mode", "main", "hash", ["-f", "t2"], 0, scen(fa=fargs(nargs=1, force=True, hashfast=True), pr=prog(mentions=[T1])), want_ran=1)
    add("-l, stdout cannot be written", "main", "mage", ["-l"], "nonzero", scen(fa=fargs(), pr=prog(list=True, list_err=True)), special="devfull", tokens=["no space left"])
    add("list by default, stdout cannot be written", "main", "mage", [], "nonzero", scen(fa=fargs(), pr=prog(list_err=True)), special="devfull", tokens=["no space left"])
    add("cached binary cannot be started", "main", "hash", ["t1"], 1, scen(fa=fargs(nargs=1, hashfast=True), start=False, pr=prog(mentions=[T1])), special="garbage", tokens=["failed to run"])
    add("target killed by a signal", "main", "mage", ["t1", "t2"], "nonzero", scen(fa=fargs(nargs=2), child="signaled", pr=prog(mentions=[["run", ["killed"]], T1])),
        behs={"T1": ["kill", 9]}, tokens=[], want_ran=1)
    # --- magefiles cannot be found, parsed or compiled -> 1
    for args in (["t1"], [], ["-l"]):
        add("no magefiles %s" % args, "empty", "mage", args, 1, scen(fa=fargs(nargs=len([a for a in args if not a.startswith("-")])), bd=build(nofiles=True)), tokens=["No .go files"])
    add("no magefiles -compile", "empty", "mage", ["-compile", "../nothing"], 1, scen(fa=fargs(compile=True), bd=build(nofiles=True)), tokens=["No .go files"], special="no-out")
    add("syntax error", "syntax", "mage", ["t1"], 1, scen(fa=fargs(nargs=1), bd=build(parse_err=True)), tokens=["Error parsing magefiles"])
    add("syntax error -l", "syntax", "mage", ["-l"], 1, scen(fa=fargs(), bd=build(parse_err=True)), tokens=["Error parsing magefiles"])
    add("syntax error in hash mode", "syntax", "hash", ["t1"], 1, scen(fa=fargs(nargs=1, hashfast=True), bd=build(parse_err=True)), tokens=["Error parsing magefiles"])
    add("type error", "type", "mage", ["t1"], 1, scen(fa=fargs(nargs=1), bd=build(compile_err=True)), tokens=["error compiling magefiles"])
    add("type error -compile", "type", "mage", ["-compile", "../typeout"], 1, scen(fa=fargs(compile=True), bd=build(compile_err=True)), tokens=["error compiling magefiles"], special="no-out")
    add("duplicate targets", "dup", "mage", ["build"], 1, scen(fa=fargs(nargs=1), bd=build(parse_err=True)), tokens=["Error parsing magefiles"])
    # --- cannot be compiled as a HISTORY: a first run succeeds (the binary is in the cache), then the code stops compiling -
    #     in the magefile, in an imported helper package, in a mage:import'ed package, in go.mod - and mage runs again:
    #     1, nothing runs.  In hash mode without -f a binary whose name (a hash of the magefiles only) is in the cache is
    #     run without compiling, by design: there the model is the reference, the sentence does not decide.
    hn = 0
    for where in ("magefile", "helper", "imp", "gomod"):
        for route, args in (("mage", ["t1"]), ("mage", ["t1", "t2"]), ("hash", ["-f", "t1"]), ("hash", ["t1"])):
            hn += 1
            decided = not (route == "hash" and "-f" not in args and where in ("helper", "imp", "gomod"))
            add("first run fine, then %s does not compile: mage%s %s" % (where, " (hash mode)" if route == "hash" else "", " ".join(args)),
                "hist", route, args, 1,
                scen(fa=fargs(nargs=len([a for a in args if not a.startswith("-")]), force=("-f" in args), hashfast=(route == "hash")),
                     pr=prog(mentions=[T1] * len([a for a in args if not a.startswith("-")]))),
                tokens=[], special="history", oracle=decided, slot="h%d" % hn)
            cs[-1]["hist_break"] = where
    # --- the project directory that cannot be found / read / parsed / compiled sits INSIDE valid mage projects (one level:
    #     magefiles in the parent directory; two levels: a parent with a magefiles/ folder inside another project), mage is
    #     started in it without -d and with -d .: 1, a message, and no body of ANY project runs.  A valid inner project runs
    #     its own same-named target, not an ancestor's.
    for level, base in ((1, "in1_"), (2, "mid/in2_")):
        for k in NEST_BROKEN:
            for route, args in (("mage", ["t1"]), ("mage", ["-d", ".", "t1"]), ("mage", ["-l"]), ("mage", []), ("hash", ["t1"]), ("mage", ["outeronly"])):
                if route == "hash" and k not in ("header", "empty"):
                    continue
                nwords = len([a for a in args if not a.startswith("-") and a != "."])
                add("broken project (%s) %d level(s) inside valid ones: mage%s %s" % (k, level, " (hash mode)" if route == "hash" else "", " ".join(args)),
                    "nest", route, args, 1, scen(fa=fargs(nargs=nwords, hashfast=(route == "hash")), pr=prog(mentions=[T1] * nwords)),
                    tokens=[], special="nested", slot="n%d" % level)
                cs[-1]["cwd"] = base + k
                cs[-1]["want"]["projects"] = []
        for args in (["t1"], ["-d", ".", "t1", "t2"]):
            nwords = len([a for a in args if not a.startswith("-") and a != "."])
            add("valid project %d level(s) inside valid ones: mage %s" % (level, " ".join(args)), "nest", "mage", args, 0,
                scen(fa=fargs(nargs=nwords), pr=prog(mentions=[T1] * nwords)), special="nested", slot="n%d" % level, want_ran=nwords)
            cs[-1]["cwd"] = base + "ok"
            cs[-1]["want"]["projects"] = ["inner"]
    # --- -compile
    add("-compile out", "main", "mage", ["-compile", "../compiled-out"], 0, scen(fa=fargs(compile=True)), special="compile-out")
    add("-compile -goos", "main", "mage", ["-goos", "linux", "-compile", "../compiled-out2"], 0, scen(fa=fargs(compile=True, goosarch=True)), special="compile-out")
    # --- -compile and the platforms the command line names.  The sentence: 0 only if it compiled successfully - so status 0 =>
    #     for every named platform an executable for it was written next to the path given; a build failure on stderr =>
    #     status not 0.  (Whether a comma list is accepted or rejected is mage's business: both are fine.)
    pn = 0
    def plat(name, proj, args):
        nonlocal pn
        pn += 1
        full = args + ["-compile", "../plat-out-%d/bin" % pn]
        add(name, proj, "mage", full, None, scen(fa=fargs(compile=True, goosarch=any(a.startswith(("-goos", "-goarch")) for a in args))),
            special="platforms", slot="p%d" % pn, tokens=[])
        cs[-1]["want"]["platforms"] = named_platforms(full)
    plat("-compile for the host platform", "plat", [])
    plat("-compile -goarch amd64", "plat", ["-goarch", "amd64"])
    plat("-compile -goos=linux -goarch=amd64", "plat", ["-goos=linux", "-goarch=amd64"])
    plat("-compile for a platform the magefile does not compile for", "plat", ["-goarch", "arm64"])
    plat("-compile, buildable then unbuildable platform in one value", "plat", ["-goarch", "amd64,arm64"])
    plat("-compile, unbuildable then buildable platform in one value", "plat", ["-goarch", "arm64,amd64"])
    plat("-compile, unbuildable then buildable platform, -goos given too", "plat", ["-goos", "linux", "-goarch", "arm64,amd64"])
    plat("-compile, repeated -goarch flags (unbuildable, buildable)", "plat", ["-goarch", "arm64", "-goarch", "amd64"])
    plat("-compile, repeated -goarch flags (buildable, unbuildable)", "plat", ["-goarch", "amd64", "-goarch", "arm64"])
    plat("-compile, a list with blanks and an empty element", "plat", ["-goarch", " amd64 , ,amd64"])
    plat("-compile, the same platform twice", "main", ["-goos", "linux,linux"])
    plat("-compile, a list with an unknown platform first", "main", ["-goos", "nosuchos,linux"])
    plat("-compile, a list with an unknown platform last", "main", ["-goos", "linux,nosuchos"])
    # --- the compiled binary's own command line
    cb = lambda **k: scen(pr=prog(**k))
    add("binary: undefined flag", "main", "compiled", ["-bogus"], 2, cb(flags="bad"), tokens=["bogus"])
    add("binary: undefined flag before a target", "main", "compiled", ["-bogus", "t1"], 2, cb(flags="bad"), tokens=["bogus"])
    add("binary: bad -t value", "main", "compiled", ["-t", "zz", "t1"], 2, cb(flags="bad"), tokens=["zz"])
    add("binary: missing -t value", "main", "compiled", ["-t"], 2, cb(flags="bad"), tokens=["-t"])
    add("binary: -h", "main", "compiled", ["-h"], 0, cb(help=True))
    add("binary: -help", "main", "compiled", ["-help"], 0, cb(flags="errhelp"))
    add("binary: -l", "main", "compiled", ["-l"], 0, cb(list=True))
    add("binary: -l -h", "main", "compiled", ["-l", "-h"], 0, cb(list=True, help=True))
    add("binary: -l target", "main", "compiled", ["-l", "t1"], 0, cb(list=True, mentions=[T1]))
    add("binary: no words", "main", "compiled", [], 0, cb())
    add("binary: -h target", "main", "compiled", ["-h", "t1"], 0, cb(help=True, mentions=[T1]))
    add("binary: -h unknown", "main", "compiled", ["-h", "nosuch"], 2, cb(help=True, mentions=[["unknown"]]), tokens=["Unknown target"])
    add("binary: -h unknown known", "main", "compiled", ["-h", "nosuch", "t1"], 2, cb(help=True, mentions=[["unknown"], T1]), tokens=["Unknown target"])
    add("binary: MAGEFILE_HELP", "main", "compiled", [], 0, cb(help=True), env={"MAGEFILE_HELP": "1"})
    add("binary: MAGEFILE_LIST target", "main", "compiled", ["t1"], 0, cb(list=True, mentions=[T1]), env={"MAGEFILE_LIST": "1"})
    add("binary: -v target", "main", "compiled", ["-v", "t1"], 0, cb(mentions=[T1]), want_ran=1)
    add("binary: -l, stdout cannot be written", "main", "compiled", ["-l"], "nonzero", cb(list=True, list_err=True), special="devfull", tokens=["no space left"])
    add("binary: list by default, stdout cannot be written", "main", "compiled", [], "nonzero", cb(list_err=True), special="devfull", tokens=["no space left"])
    # --- default targets
    for route in ("compiled", "mage"):
        add("default target completes", "def", route, [], 0, scen(pr=prog(default=["ok"])), want_ran=1)
        add("default target, MAGEFILE_IGNOREDEFAULT", "def", route, [], 0, scen(pr=prog(default=["ok"], ignore=True)), env={"MAGEFILE_IGNOREDEFAULT": "1"})
        for c in ([3, 128] if ctx.quick else [1, 2, 3, 77, 127, 128, 200, 255]):
            add("default target mg.Fatal(%d)" % c, "def", route, [], c, scen(pr=prog(default=["fatal", c])), behs={"T1": ["fatal", c]}, tokens=["FAIL-T1"], want_ran=1)
        add("default target plain error", "def", route, [], 1, scen(pr=prog(default=["err"])), behs={"T1": ["error"]}, tokens=["FAIL-T1"], want_ran=1)
        for w in ("", " ", "\t", "t1 ", " t1", "nosuch"):
            add("default target and the word %r: the word decides, the default target does not run" % w, "def", route, [w], 2,
                scen(fa=fargs(nargs=1), pr=prog(default=["ok"], mentions=[["unknown"]])), tokens=["Unknown target"])
        add("default target, a target and an empty word", "def", route, ["t2", ""], 2,
            scen(fa=fargs(nargs=2), pr=prog(default=["ok"], mentions=[T1, ["unknown"]])), tokens=["Unknown target"], want_ran=1)
        add("default target and a word", "def", route, ["t2"], 0, scen(fa=fargs(nargs=1), pr=prog(default=["ok"], mentions=[T1])), want_ran=1)
        add("default target needs arguments", "defargs", route, [], 2, scen(pr=prog(default="args")), tokens=["not enough arguments"])
        add("default target needs arguments, MAGEFILE_IGNOREDEFAULT", "defargs", route, [], 0, scen(pr=prog(default="args", ignore=True)), env={"MAGEFILE_IGNOREDEFAULT": "1"})
    return cs


# ---------------------------------------------------------------- running
BIN_LOCK = threading.Lock()
MARK_LOCK = threading.Lock()
MARK_N = [0]

class Slot:
    """one private copy of a project: its directory, its caches, its compiled binary"""

    def __init__(self, m, kind, name):
        self.m, self.kind, self.name = m, kind, name
        files = PROJECTS[kind]
        self.dir = m.project(files(name) if callable(files) else files, name=name, probe=False)
        self.cache_mage = os.path.join(m.ctx.tmp, "cache-m-" + name)
        self.cache_hash = os.path.join(m.ctx.tmp, "cache-h-" + name)
        os.makedirs(self.cache_mage)
        os.makedirs(self.cache_hash)
        os.makedirs(os.path.join(self.dir, "work"), exist_ok=True)      # an existing directory for -w
        self.cases = []

    def binary(self):
        """the -compile'd binary of this project kind: built once (in the first slot that asks), shared by all slots"""
        with BIN_LOCK:
            bins = self.m.__dict__.setdefault("_c05_bins", {})
            if self.kind not in bins:
                out = os.path.join(self.m.ctx.tmp, "bin-" + self.kind)
                r = self.m.run(self.dir, ["-compile", out], cache=self.cache_mage)
                if r["rc"] != 0 or not os.path.exists(out):
                    raise BuildError("mage -compile failed for the %s project:\n%s" % (self.kind, r["err"][-3000:]))
                bins[self.kind] = out
            return bins[self.kind]


def chattr(flag, path):
    return subprocess.run(["chattr", flag, path], stdout=subprocess.PIPE, stderr=subprocess.PIPE).returncode == 0


def can_immutable(tmp):
    """can a file be made undeletable for root here (chattr +i on the file system of the run's temp directory)?"""
    p = os.path.join(tmp, "immutable-probe")
    open(p, "w").close()
    ok = chattr("+i", p)
    if ok:
        try:
            os.remove(p)
            ok = False              # the flag did not stop the removal
        except OSError:
            pass
        chattr("-i", p)
    if os.path.exists(p):
        os.remove(p)
    return ok


def run_proc(argv, cwd, env, devfull=False, timeout=180):
    out_f = open("/dev/full", "wb") if devfull else subprocess.PIPE
    try:
        p = subprocess.run(argv, cwd=cwd, env=env, stdin=subprocess.DEVNULL, stdout=out_f, stderr=subprocess.PIPE, timeout=timeout)
        rc, out, err = p.returncode, p.stdout or b"", p.stderr
    except subprocess.TimeoutExpired as ex:
        rc, out, err = 124, ex.stdout or b"", (ex.stderr or b"") + b"\n[timeout]"
    finally:
        if devfull:
            out_f.close()
    return rc, out.decode("utf-8", "replace"), err.decode("utf-8", "replace")


def exec_case(slot, c):
    """run one case in its slot; returns the observation dict (and fixes the run-dependent parts of the abstract scenario)"""
    m = slot.m
    env = dict(c.get("env") or {})
    behs = {k: tuple(v) for k, v in (c.get("behs") or {}).items()}
    if behs:
        env["VERIF_SCEN"] = spec_string(behs)
        if any(b[0] == "killonce" for b in behs.values()):
            with MARK_LOCK:
                MARK_N[0] += 1
                mark = os.path.join(m.ctx.tmp, "mark-%d" % MARK_N[0])
            env["VERIF_MARK"] = mark          # fresh for every run of a case: "first run" means first run of this command
    special = c.get("special")
    route = c["route"]
    note = {}
    if route == "compiled":
        argv = [slot.binary()] + list(c["args"])
        e = m.env(env, cache=slot.cache_mage)
    else:
        cache = slot.cache_mage if route == "mage" else slot.cache_hash
        if c.get("slot") in ("clean", "clean2", "clean3"):
            cache = os.path.join(m.ctx.tmp, "cache-clean-" + slot.name)
            os.makedirs(cache, exist_ok=True)
            open(os.path.join(cache, "stale"), "w").close()
        if special == "history":
            # step 1: a good run that leaves the binary in this slot's cache; step 2: break one place
            r0 = m.run(slot.dir, ["t1"], env=({"MAGEFILE_HASHFAST": "1"} if route == "hash" else None), cache=cache)
            if r0["rc"] != 0 or "CALL T1" not in r0["out"]:
                raise BuildError("history case: the first run of the intact project failed (%d):\n%s" % (r0["rc"], r0["err"][-2000:]))
            rel, text = HIST_BREAK[c["hist_break"]]
            with open(os.path.join(slot.dir, rel), "a") as fh:
                fh.write(text)
            note["first_run"] = {"rc": r0["rc"], "cache": sorted(os.listdir(cache))}
        if route == "hash":
            env["MAGEFILE_HASHFAST"] = "1"
            if special == "garbage":
                if not os.listdir(cache):
                    m.run(slot.dir, ["-l"], env={"MAGEFILE_HASHFAST": "1"}, cache=cache)
                for f in os.listdir(cache):
                    p = os.path.join(cache, f)
                    with open(p + ".tmp", "w") as fh:
                        fh.write("this is not an executable\n")
                    os.chmod(p + ".tmp", 0o755)
                    os.replace(p + ".tmp", p)
            # the file system's answer to os.Stat(exePath): the private hash-mode cache holds only this project's binary
            c["scen"]["build"]["exe_exists"] = bool(os.listdir(cache))
            if special == "history" and c["hist_break"] == "magefile":
                c["scen"]["build"]["exe_exists"] = False      # the cache name is a hash of the magefiles: a new name
        elif special == "history":
            c["scen"]["build"]["exe_exists"] = bool(os.listdir(cache))
        if special == "init-existing":
            open(os.path.join(slot.dir, "magefile.go"), "a").close()
        if special in ("init-fresh", "init-fresh2"):
            p = os.path.join(slot.dir, "magefile.go")
            if os.path.exists(p):
                os.remove(p)
        argv = [m.bin] + list(c["args"])
        e = m.env(env, cache=cache)
    locked = []
    try:
        if special == "clean-stuck":
            stuck = os.path.join(cache, "stuck")
            open(stuck, "w").close()
            open(os.path.join(cache, "zz-after"), "w").close()
            if chattr("+i", stuck):
                locked.append(stuck)
        if special == "init-immutable":
            p = os.path.join(slot.dir, "magefile.go")
            if os.path.exists(p):
                os.remove(p)
            if chattr("+i", slot.dir):
                locked.append(slot.dir)
        if special == "platforms":
            os.makedirs(os.path.normpath(os.path.join(slot.dir, os.path.dirname(c["args"][-1]))), exist_ok=True)
        if special == "compile-immutable":
            d = os.path.normpath(os.path.join(slot.dir, os.path.dirname(c["args"][-1])))
            os.makedirs(d, exist_ok=True)
            if chattr("+i", d):
                locked.append(d)
        rc, out, err = run_proc(argv, os.path.join(slot.dir, c["cwd"]) if c.get("cwd") else slot.dir, e, devfull=(special == "devfull"))
        if special == "clean-stuck":
            note["cache_left"] = sorted(os.listdir(cache))
        if special == "compile-immutable":
            note["out_exists"] = os.path.exists(os.path.normpath(os.path.join(slot.dir, c["args"][-1])))
        if special == "init-immutable":
            note["init_file"] = os.path.exists(os.path.join(slot.dir, "magefile.go"))
    finally:
        for p in locked:
            chattr("-i", p)
    if special in ("clean-stuck", "init-immutable", "compile-immutable") and not locked:
        note["not_exercised"] = "chattr +i failed"
    if special == "platforms":
        outp = os.path.normpath(os.path.join(slot.dir, c["args"][-1]))
        d, base = os.path.dirname(outp), os.path.basename(outp)
        note["outputs"] = {f: file_platform(os.path.join(d, f)) for f in sorted(os.listdir(d)) if f.startswith(base)}
    if special in ("history", "nested", "platforms"):
        # what the go tool answered, as mage reports it (every one of them means "cannot be built")
        cls = projlib.stderr_class(err)
        flag = {"list-error": "list_err", "parse-error": "parse_err", "compile-error": "compile_err", "no-magefiles": "nofiles", "dupe": "parse_err"}.get(cls)
        if flag:
            c["scen"]["build"][flag] = True
        note["stderr_class"] = cls
    if special == "garbage":
        for f in os.listdir(slot.cache_hash):
            os.remove(os.path.join(slot.cache_hash, f))
    if special == "compile-out":
        note["out_exists"] = os.path.exists(os.path.normpath(os.path.join(slot.dir, c["args"][-1])))
    if special == "no-out":
        note["out_exists"] = os.path.exists(os.path.normpath(os.path.join(slot.dir, c["args"][-1])))
    if special in ("init-fresh", "init-fresh2"):
        note["init_file"] = os.path.exists(os.path.join(slot.dir, "magefile.go"))
    if c.get("slot") == "clean" and c["args"] == ["-clean"]:
        note["cache_left"] = os.listdir(cache)
    leftovers = [f for f in os.listdir(slot.dir) if f.startswith("mage_output_file")]
    started = [l.split()[1] for l in out.splitlines() if l.startswith("CALL ") and len(l.split()) > 1]
    if c.get("echo"):
        var, val, stream = c["echo"]
        text = out if stream == "out" else err
        note["echo_missing"] = [sid for sid in started if ("ECHO-END %s\n" % sid) not in text or ("%s=%s to the service" % (var, val)) not in text]
    projects = sorted(set(t[5:] for l in out.splitlines() if l.startswith("CALL ") for t in l.split()[2:] if t.startswith("proj=")))
    # the failure tokens are looked for in ALL of stderr: with long failure texts and several failing members the order of
    # the messages is the completion order, so a token may stand far from the end (a tail-only search raised a false alarm once)
    want_tokens = ((c.get("want") or {}).get("tokens")) or []
    return {"rc": rc, "ran": len([s for s in started if s in TOP]), "started": started, "projects": projects, "stderr": err[-1500:],
            "tokens_missing": [t for t in want_tokens if t not in err],
            "stdout_tail": out[-300:], "msg": bool(err.strip()), "note": note, "leftovers": leftovers}


def judge(c, ob):
    """the oracle on one observed case: list of failed clauses"""
    w = c.get("want")
    bad = []
    if w is None:
        return bad
    if w["exit"] is None:
        pass
    elif w["exit"] == "nonzero":
        if ob["rc"] == 0:
            bad.append(("exit-status", "exit status 0 although the command failed"))
    elif ob["rc"] != w["exit"]:
        bad.append(("exit-status", "exit status %d, the property sentence says %d" % (ob["rc"], w["exit"])))
    if ob["note"].get("echo_missing"):
        bad.append(("output-complete", "the output of %s (the value of %s and the lines after it) did not arrive" % (ob["note"]["echo_missing"], c["echo"][0])))
    if w.get("projects") is not None and ob.get("projects") != w["projects"]:
        bad.append(("wrong-project-ran", "bodies of project(s) %s ran (CALL lines: %s), expected %s" % (ob.get("projects"), ob["started"], w["projects"] or "none")))
    dup = sorted(set(x for x in ob["started"] if ob["started"].count(x) > 1))
    if dup:
        bad.append(("body-started-twice", "bodies started more than once in one invocation: %s (CALL lines: %s)" % (dup, ob["started"])))
    if w.get("ran") is not None and ob["ran"] != w["ran"]:
        bad.append(("targets-run", "%d requested targets started (%s), expected %d" % (ob["ran"], ob["started"], w["ran"])))
    if w.get("platforms") is not None:
        outs = ob["note"].get("outputs") or {}
        have = set(v for v in outs.values() if v)
        if ob["rc"] == 0:
            missing = [pl for pl in w["platforms"] if pl not in have]
            if missing:
                bad.append(("compile-platforms", "-compile exited 0 but there is no executable for %s (the command line names %s; written: %s)" % (missing, w["platforms"], outs)))
        if ob["rc"] == 0 and re.search(r"unsupported GOOS/GOARCH|undefined: |error compiling magefiles|^Error:", ob["stderr"], re.M):
            bad.append(("exit-status", "a build failure is reported on stderr and the exit status is 0"))
    if (w["exit"] != 0 if w["exit"] is not None else ob["rc"] != 0) and w.get("tokens") is not None:
        missing = ob["tokens_missing"] if "tokens_missing" in ob and w["tokens"] == ((c.get("want") or {}).get("tokens") or []) else [t for t in w["tokens"] if t not in ob["stderr"]]
        if not ob["msg"]:
            bad.append(("message-on-stderr", "exit status %d and nothing on stderr" % ob["rc"]))
        elif missing:
            bad.append(("message-on-stderr", "stderr does not contain %s" % missing))
    n = ob["note"]
    if c.get("special") == "compile-out" and not n.get("out_exists"):
        bad.append(("compile-out", "-compile exited %d but the output file does not exist" % ob["rc"]))
    if c.get("special") == "compile-immutable" and n.get("out_exists"):
        bad.append(("compile-out", "-compile into an unwritable directory left an output file"))
    if c.get("special") == "clean-stuck" and ob["rc"] == 0 and "stuck" in (n.get("cache_left") or []):
        bad.append(("clean", "-clean exited 0 but the cache still holds %s" % n.get("cache_left")))
    if c.get("special") == "no-out" and n.get("out_exists"):
        bad.append(("compile-out", "-compile failed but left an output file"))
    if c.get("special") in ("init-fresh",) and not n.get("init_file"):
        bad.append(("init", "-init exited %d but magefile.go does not exist" % ob["rc"]))
    return bad


def case_public(c):
    return {k: c[k] for k in c if k not in ("slot_obj",)}


def run_cases(ctx, m, cases):
    # slots: the main project is copied once per worker; every other kind gets one directory
    nwork = min(NCPU, 16)
    slots = {}
    rr = 0
    for c in cases:
        kind = c["proj"]
        if kind == "main" and c.get("special") not in ("garbage", "compile-out") and c.get("slot") is None:
            key = ("main", rr % nwork)
            rr += 1
        else:
            key = (kind, c.get("special") if c.get("special") in ("garbage",) else (c.get("slot") or "x"))
        if key not in slots:
            slots[key] = Slot(m, kind, "%s%s" % (kind, str(key[1]).replace("-", "")))
        slots[key].cases.append(c)

    def work(slot):
        res = []
        for c in slot.cases:
            res.append((c, exec_case(slot, c)))
        return res

    done = []
    for part in pmap(work, list(slots.values()), jobs=nwork):
        done += part
    order = {id(c): i for i, c in enumerate(cases)}
    done.sort(key=lambda co: order[id(co[0])])
    return done


def run(ctx):
    ctx.coverage["immutable_files_possible"] = can_immutable(ctx.tmp)
    if not ctx.coverage["immutable_files_possible"]:
        ctx.notes.append("chattr +i is not possible on the temp file system: the -clean / -init / -compile cases with an "
                         "undeletable entry / unwritable directory are not exercised in this run")
    ctx.prove(["Props/C05.vo", "Run/eval_C05.vo"], extra_props=["Compose_C15_C05", "Compose_C04_C05", "Compose_bigstep_C05"])   # + compositions C15 <-> C05, C04 => C05 (the dispatch loop is the mention segmentation)
    import extractlib; extractlib.fn_tie(ctx, "C05")   # mg.ExitStatus, sh.ExitStatus, sh.CmdRan re-translated from the tree and proved equal to ExitChain's (DESIGN 3.5)
    ctx.trusted_base += [
        "checks/c05.py: the generated magefile (act: failure palette selected through VERIF_SCEN), the scenario generator, the mapping "
        "behaviour -> abstract body (abs_body), the Coq printer, the oracle (o_status, oracle_line, the `want` column of table_cases)",
        "lib/projlib.py Mage (builds mage from the working tree, private cache directories)",
        "the harness states per case what the go tool / the file system answered (no magefiles, parse error, compile error, binary in the "
        "hash-mode cache present or not startable): inputs of the model, not verified",
        "os/exec, the flag package, the kernel's 8-bit exit status behave as Model/ExitChain.v says (child, flagparse, kernel)",
    ]
    ctx.log("theorems checked")
    m = Mage(ctx)
    rc, out, _ = sh(["go", "env", "GOCACHE"], env=goenv())
    gocache = bool(out.strip())
    if ctx.replay and ctx.replay.get("case"):
        cases = [ctx.replay["case"]]
        lines = []
    else:
        lines = line_cases(ctx)
        cases = []
        for i, l in enumerate(lines):
            cases += line_to_cases(ctx, l, i)
        cases += table_cases(ctx)
        cases += discovery_cases(ctx, m, lines)
    for c in cases:
        c["scen"]["build"]["gocache"] = gocache
    ctx.log("running %d cases" % len(cases))
    done = run_cases(ctx, m, cases)
    ctx.log("cases run")

    items, keep = [], []
    cov = ctx.coverage
    by_route, by_fail, by_pos, codes_seen, exits = {}, {}, {}, set(), {}
    seen, nontriv = set(), 0
    nviol0 = len(ctx.violations)
    more = 0
    for c, ob in done:
        for clause, text in judge(c, ob):
            if len(ctx.violations) - nviol0 >= 6:
                more += 1           # enough replay files; the rest is only counted
                continue
            ctx.violation({"kind": "oracle", "clause": clause, "route": c["route"], "case_kind": c["kind"],
                           "shape": ("bad-flag" if c["scen"]["prog"]["flags"] == "bad" and c["scen"]["fargs"]["parse"] == "ok" else
                                     "list-unwritable" if (c.get("special") == "devfull" and c["scen"]["prog"]["list"]) else
                                     "clean-undeletable" if c.get("special") == "clean-stuck" else c.get("name") or c.get("fail")),
                           "text": text, "argv": c["args"], "env": c.get("env") or {}, "VERIF_SCEN": spec_string({k: tuple(v) for k, v in (c.get("behs") or {}).items()})},
                          case=case_public(c), extra={"observed": ob})
        if ob["leftovers"] and c["route"] != "compiled" and "-keep" not in c["args"]:
            ctx.notes.append("generated main file left behind after %s" % c["args"])
        by_route[c["route"]] = by_route.get(c["route"], 0) + 1
        f = c.get("fail") or "table"
        by_fail[f] = by_fail.get(f, 0) + 1
        exits[str(ob["rc"])] = exits.get(str(ob["rc"]), 0) + 1
        if c["kind"] == "line":
            key = "%d/%d" % (c["pos"] + 1, c["nmentions"])
            by_pos[key] = by_pos.get(key, 0) + 1
            if c["code"]:
                codes_seen.add(c["code"])
        h = case_hash([c["route"], c["args"], c.get("behs"), c.get("env"), c["proj"], c.get("special")])
        if h not in seen:
            seen.add(h)
            if ob["rc"] != 0 or ob["ran"] > 1 or c["kind"] == "table":
                nontriv += 1
        if ob["rc"] < 0 or ob["rc"] > 255:
            continue            # the compiled binary itself was killed by a signal: no exit status to compare
        items.append(case_term(c, {"exit": ob["rc"], "ran": ob["ran"], "msg": ob["msg"]}))
        keep.append((c, ob))
    header = "From Mage Require Import Base.Strs Model.Deps Model.ExitChain Run.eval_C05.\nLocal Open Scope Z_scope.\n"
    mism = ctx.coq_eval_shards("cases_C05", header, items, per_shard=max(40, (len(items) + NCPU - 1) // NCPU))
    ctx.log("model evaluated on %d cases" % len(items))
    if mism and len(ctx.violations) == nviol0:
        for idx, body in mism[:3]:
            c, ob = keep[idx]
            ctx.violation({"kind": "model-vs-implementation", "correspondence": "Run/eval_C05.mismatches", "model_says": body[:300],
                           "implementation": {"exit": ob["rc"], "ran": ob["ran"], "stderr": ob["stderr"][-300:]}, "argv": c["args"]},
                          case=case_public(c), found_input=False, extra={"observed": ob})
    elif mism:
        ctx.notes.append("model and implementation disagree on %d cases (already reported through the oracle)" % len(mism))
    cov["evaluations"] = len(done)
    cov["distinct_nontrivial"] = nontriv
    cov["rule"] = ("one evaluation = one process run of mage or of a compiled magefile with its exit status, CALL trace and stderr compared to "
                   "the Coq model and judged by the oracle; distinct by hash of (route, argv, behaviours, environment, project); "
                   "non-trivial = non-zero status, or more than one target ran, or a command-line/build table case")
    cov["lines"] = len(lines)
    cov["by_route"] = by_route
    cov["by_failure_kind"] = by_fail
    cov["failing_position/line_length"] = by_pos
    cov["codes_covered"] = len(codes_seen)
    cov["exhaustive"] = ("every code 1..255 x %s" % CODE_KINDS) if not ctx.quick else None
    cov["exit_statuses_observed"] = len(exits)
    cov["model_mismatches"] = len(mism)
    if more:
        cov["oracle_failures_not_written_as_replays"] = more
    cov["traces_validated_against_impl"] = len(items) - len(mism)
    cov["go_env_GOCACHE_nonempty"] = gocache
    for c, ob in done[:3]:
        ctx.sample({"route": c["route"], "argv": c["args"], "VERIF_SCEN": spec_string({k: tuple(v) for k, v in (c.get("behs") or {}).items()}),
                    "exit": ob["rc"], "started": ob["started"], "stderr": ob["stderr"][:120]})
