"""C06 - targets are exactly the exported functions with a valid target signature.

Theorems: coq/Props/C06.v over Model/Classify.v.  Correspondence: a declaration zoo (lib/c06gen.py)
rendered to real magefile packages; per package (a) `go build` of the package alone, (b) go/doc's
own view (harness/docview, no mage code), (c) `mage -l`, (d) `mage -h <name>` for every listed
name, (e) one run of every listed name as printed with argument words, (f) `mage` without words
when the default target takes no arguments.  The Coq model is evaluated on the same abstract
package and must reproduce go/doc's view, the listing (spelling, mark, synopsis), every help text
and the shape of every call.  Oracle: lib/c06gen.py oracle_* (a flat, per-parameter reading of the
property sentence) + the two build results."""
import json, os, re
from vlib import *
from projlib import Mage, calls, stderr_class
import c06gen as G

STUB = "//go:build mage\n\npackage main\n\nfunc main() {}\n"
# the only stream whose failures are a known finding; the import-name-clash, generic-namespace-type and
# default:* streams exercise REPAIRED defects (869bb8a, f02d247, 3720af9): a regression there is a plain violation
CLASSES = ("predeclared-shadowed",)
HASHFAST = {"MAGEFILE_HASHFAST": "1"}


def parse_listing(out):
    """`mage -l` -> (description, [(name as printed incl. mark, synopsis)], has_default_footer)"""
    lines = out.split("\n")
    if "Targets:" not in lines:
        return None
    i = lines.index("Targets:")
    desc = "\n".join(lines[:i])          # Println(desc + "\n"): the text, one empty line
    if desc.endswith("\n"):
        desc = desc[:-1]
    rows = []
    for l in lines[i + 1:]:
        if not l.startswith("  ") or not l.strip():
            break
        rows.append(l)
    names = [r.split()[0] for r in rows]
    width = max([len(n) for n in names] + [0]) + 2 + 4
    entries = [(n, r[width:]) for n, r in zip(names, rows)]
    return desc, entries, "* default target" in lines


def parse_help(out):
    """`mage -h name` -> dict(comment, key, args, aliases) or None"""
    m = re.search(r"Usage:\n\n\t(\S+) (\S+)((?: <[^>\s]*>)*)\n\n", out)
    if not m:
        return None
    comment = out[:m.start()]
    if comment.endswith("\n\n"):
        comment = comment[:-2]
    rest = out[m.end():]
    am = re.match(r"Aliases: (.*)\n\n", rest)
    return {"comment": comment, "bin": m.group(1), "key": m.group(2), "args": re.findall(r"<([^>\s]*)>", m.group(3)),
            "aliases": am.group(1).split(", ") if am else []}


def go_names(docview, names):
    """Go's own answers (token.IsExported, strings.ToLower, ...) about strings, into the generator's table"""
    names = [n for n in names if not G.is_ascii(n)]
    if not names:
        return
    rc, out, err = sh([docview], input=(json.dumps({"names": names}) + "\n").encode(), timeout=120)
    if rc != 0:
        raise BuildError("docview (names) failed: " + err[-500:])
    G.set_unicode_table(json.loads(out.splitlines()[0])["names"])


SAMPLE_MAGEFILE = """//go:build mage

package main

import (
	"context"
	"time"

	"github.com/magefile/mage/mg"
)

type NS mg.Namespace

var Default = Build

var Aliases = map[string]interface{}{"b": Build}

// Build has one parameter of every kind.
func Build(ctx context.Context, s string, n int, b bool, d time.Duration) error { return nil }

func (*NS) Deploy() {}
"""


def generated_identifiers(mage, docview):
    """every identifier the generated main file of THIS tree declares (harness/docview parses one kept
    mage_output_file.go with go/ast): [(name, package|import|local)]"""
    d = mage.project({"magefile.go": SAMPLE_MAGEFILE}, name="sample_generated", probe=False)
    r = mage.run(d, ["-keep", "-l"])
    path = os.path.join(d, "mage_output_file.go")
    if r["rc"] != 0 or not os.path.exists(path):
        raise BuildError("cannot obtain a generated main file: " + r["err"][-500:])
    rc, out, err = sh([docview], input=(json.dumps({"idents": path}) + "\n").encode(), timeout=120)
    a = json.loads(out.splitlines()[0]) if rc == 0 and out.strip() else {"err": err}
    if a.get("err"):
        raise BuildError("docview (idents) failed: " + str(a.get("err"))[-500:])
    return [(i["name"], i["where"]) for i in a["idents"]]


def make_symlinks(c):
    """turn some magefiles of the project into symbolic links (the go tool follows them)"""
    files = sorted(f for f in os.listdir(c["dir"]) if f.startswith("mf_"))
    variant = c["stream"].split(":")[1]
    pick = {"first": files[:1], "last": files[-1:], "all": files}[variant]
    os.makedirs(os.path.join(c["dir"], "linked"), exist_ok=True)
    for f in pick:
        real = os.path.join(c["dir"], "linked", f + ".src")
        os.rename(os.path.join(c["dir"], f), real)
        os.symlink(real if variant == "last" else os.path.join("linked", f + ".src"), os.path.join(c["dir"], f))


def case_env(mage, case, extra=None):
    """the environment of every command of a case: the framework's, except what a build-constraint variant
    case is about (CGO_ENABLED unset / 1, an extra tag through GOFLAGS)"""
    e = mage.env(extra)
    v = (case.get("pkg") or {}).get("variant")
    if v:
        if v["envmode"] == "cgo-unset":
            e.pop("CGO_ENABLED", None)
        elif v["envmode"] == "cgo-1":
            e["CGO_ENABLED"] = "1"
        if v["tag"] == "custom":
            e["GOFLAGS"] = e.get("GOFLAGS", "") + " -tags=custom"
    return e


def run_case(mage, case, args, extra=None, exe=None, timeout=180):
    import subprocess
    try:
        p = subprocess.run([exe or mage.bin] + list(args), cwd=case["dir"], env=case_env(mage, case, extra), input=b"", timeout=timeout,
                           stdout=subprocess.PIPE, stderr=subprocess.PIPE)
        rc, out, err = p.returncode, p.stdout, p.stderr
    except subprocess.TimeoutExpired as ex:
        rc, out, err = 124, ex.stdout or b"", (ex.stderr or b"") + b"\n[timeout]"
    return {"rc": rc, "out": out.decode("utf-8", "replace"), "err": err.decode("utf-8", "replace")}


def observe(mage, case):
    """everything that is run for one package"""
    d = case["dir"]
    ob = {}
    stub = os.path.join(case["src"], "zz_verif_stub_main.go")
    with open(stub, "w") as f:
        f.write(STUB)
    # compiles (type-checks) the package without linking; exit status 1 on any compile error
    rc, out, err = sh(["go", "list", "-tags", "mage", "-export", "-f", "{{.Export}}", "."], cwd=case["src"], env=case_env(mage, case), timeout=300)
    os.remove(stub)
    ob["alone_ok"] = rc == 0
    ob["alone_err"] = err[-600:]
    r = run_case(mage, case, ["-l"], HASHFAST)
    ob["list_rc"], ob["list_out"], ob["list_err"] = r["rc"], r["out"], r["err"][-1500:]
    ob["listing"] = parse_listing(r["out"]) if r["rc"] == 0 else None
    ob["helps"] = {}
    ob["run"] = None
    ob["default_run"] = None
    ob["fail_run"] = None
    ob["single_runs"] = []
    ob["compiled"] = None
    if not ob["listing"]:
        return ob
    listed = [n.rstrip("*") for n, _ in ob["listing"][1]]
    go_names(case["docview"], listed)
    for n in listed:
        h = run_case(mage, case, ["-h", n], HASHFAST)
        ob["helps"][n] = {"rc": h["rc"], "out": h["out"], "err": h["err"][-300:], "parsed": parse_help(h["out"]) if h["rc"] == 0 else None}
    # one run of every valid target the listing shows, by its listed spelling
    bylow = {G.go_lower(n): n for n in listed}
    words, plan = [], []
    for key, ws, expect, did in case["runs"]:
        n = bylow.get(G.go_lower(key))
        if n is None:
            continue
        words += [n] + ws
        plan.append((did, expect))
    if words:
        rr = run_case(mage, case, words, HASHFAST)
        ob["run"] = {"words": words, "plan": plan, "rc": rr["rc"], "calls": calls(rr["out"]), "err": rr["err"][-600:]}
    # every listed name as the FIRST word of a command line of its own (the front end looks at that word)
    singles = [(bylow[G.go_lower(key)], ws, expect, did) for key, ws, expect, did in case["runs"] if G.go_lower(key) in bylow]
    for n, ws, expect, did in singles:
        rr = run_case(mage, case, [n] + ws, HASHFAST)
        ob["single_runs"].append({"route": "mage", "words": [n] + ws, "want": [did, [list(x) for x in expect]], "rc": rr["rc"],
                                  "calls": [[c0, [list(x) for x in a]] for c0, a in calls(rr["out"])], "out": rr["out"][:200], "err": rr["err"][-200:]})
    if case.get("compile"):
        # the same through a -compile'd binary: listing, help and one run per name
        exe = os.path.join(d, "compiled_magefile_bin")
        cr = run_case(mage, case, ["-compile", exe])
        comp = {"rc": cr["rc"], "err": cr["err"][-400:], "listing": None, "helps": {}}
        if cr["rc"] == 0:
            lr = run_case(mage, case, ["-l"], exe=exe)
            comp["listing"] = parse_listing(lr["out"]) if lr["rc"] == 0 else None
            for n, ws, expect, did in singles:
                hr = run_case(mage, case, ["-h", n], exe=exe)
                comp["helps"][n] = {"rc": hr["rc"], "parsed": parse_help(hr["out"]) if hr["rc"] == 0 else None, "out": hr["out"][:200]}
                rr = run_case(mage, case, [n] + ws, exe=exe)
                ob["single_runs"].append({"route": "compiled", "words": [n] + ws, "want": [did, [list(x) for x in expect]], "rc": rr["rc"],
                                          "calls": [[c0, [list(x) for x in a]] for c0, a in calls(rr["out"])], "out": rr["out"][:200], "err": rr["err"][-200:]})
        ob["compiled"] = comp
    # every alias declared for a target, typed as the first word, runs THAT target
    ob["alias_runs"] = []
    for a, ws, expect, did in case["alias_runs"]:
        rr = run_case(mage, case, [a] + ws, HASHFAST)
        ob["alias_runs"].append({"alias": a, "words": [a] + ws, "want": [did, [list(x) for x in expect]], "rc": rr["rc"],
                                 "calls": [[c0, [list(x) for x in a2]] for c0, a2 in calls(rr["out"])], "err": rr["err"][-200:]})
    if case["fail_run"]:
        key, ws, did = case["fail_run"]
        n = bylow.get(G.go_lower(key))
        if n is not None:
            rr = run_case(mage, case, [n] + ws, dict(HASHFAST, VERIF_FAIL=did + ":error"))
            ob["fail_run"] = {"words": [n] + ws, "rc": rr["rc"], "calls": [c[0] for c in calls(rr["out"])], "err": rr["err"][-300:]}
    if case["default_noargs"]:
        rr = run_case(mage, case, [], HASHFAST)
        ob["default_run"] = {"rc": rr["rc"], "calls": calls(rr["out"]), "err": rr["err"][-300:]}
    return ob


def judge(ctx, case, ob):
    """the oracle: the property sentence over the abstract package and the observations"""
    pkg, stream = case["pkg"], case["stream"]
    # the known finding is about the identifiers MEASURED to fail on the unchanged tree; a package-level
    # declaration of any other identifier that stops the build is a new violation
    ident = case.get("ident")
    cls = stream if (stream in CLASSES and ident in G.PREDECL_BASELINE) else "none"
    bad = []

    def v(clause, **kw):
        w = {"kind": "oracle", "clause": clause, "class": cls, "stream": stream}
        if ident is not None:
            w["ident"] = ident
        w.update(kw)
        bad.append(w)

    if not ob["alone_ok"]:
        return None          # outside the property (and a defect of the generator, counted by the caller)
    valid = [f for f in G.oracle_funcs(pkg) if G.oracle_valid(pkg, f)]
    if ob["list_rc"] != 0 or ob["listing"] is None:
        crashed = "panic:" in ob["list_err"]
        v("mage-crashes" if crashed else "generated-program-does-not-compile",
          detail="the package compiles with the go tool (go build -tags mage) but `mage -l` exits %d" % ob["list_rc"],
          stderr=ob["list_err"][-700:])
        return bad
    desc, entries, footer = ob["listing"]
    listed = [n.rstrip("*") for n, _ in entries]
    # names are compared the way the command line is: by Go's strings.ToLower (harness/docview computes it)
    undecided = set(G.go_lower(G.oracle_key(f)) for f in pkg["funcs"] if G.oracle_ambiguous(pkg, f))
    want = sorted(G.go_lower(G.oracle_key(f)) for f in valid if G.go_lower(G.oracle_key(f)) not in undecided)
    got = sorted(G.go_lower(n) for n in listed if G.go_lower(n) not in undecided)
    if want != got:
        v("exact-set", missing=[k for k in want if k not in got], unexpected=[k for k in got if k not in want])
    marked = [n[:-1] for n, _ in entries if n.endswith("*")]
    dflt = G.oracle_default(pkg)
    dv = case.get("dv")
    if dflt is not None and dv is not None and not G.package_level_in_godoc(dv, "Default"):
        dflt = None         # go/doc files the declaration under a named type: not among the package's variables (the reference)
    skip_default = G.default_undecided(pkg)
    wantmark = [G.go_lower(G.oracle_key(dflt))] if dflt else []
    if not skip_default and (sorted(G.go_lower(m) for m in marked) != wantmark or footer != bool(wantmark)):
        v("default-mark", marked=marked, declared=wantmark)
    bylow = {G.go_lower(n): n for n in listed}
    for f in valid:
        n = bylow.get(G.go_lower(G.oracle_key(f)))
        if n is None:
            continue
        h = ob["helps"].get(n)
        p = h and h["parsed"]
        if not p:
            v("help-fails", target=n, rc=h and h["rc"], out=(h and h["out"] or "")[:300])
            continue
        if p["comment"].split() != G.comment_words(f["doc"]):
            v("help-comment", target=n, shown=p["comment"][:300], doc_comment=" ".join(G.comment_words(f["doc"]))[:300])
        names = [x for x, t in zip(G.flat_param_names(f), G.flat_param_types(f)) if t != "ctx"]
        ok = len(names) == len(p["args"]) and all(a == b if b is not None else a != "" for a, b in zip(p["args"], names))
        if not ok:
            v("help-args", target=n, shown=p["args"], declared=names)
        want_al = G.oracle_aliases(pkg, f) if (dv is None or G.package_level_in_godoc(dv, "Aliases")) else []
        if sorted(p["aliases"]) != want_al:
            v("help-aliases", target=n, shown=p["aliases"], declared=want_al)
    r = ob["run"]
    if r is not None:
        want_calls = [(did, [list(x) for x in expect]) for did, expect in r["plan"]]
        got_calls = [(did, [list(x) for x in args]) for did, args in r["calls"]]
        if r["rc"] != 0 or want_calls != got_calls:
            v("runnable", words=r["words"], rc=r["rc"], expected_calls=want_calls, calls=got_calls, stderr=r["err"][-300:])
    for sr in ob["single_runs"]:
        if sr["rc"] != 0 or sr["calls"] != [sr["want"]]:
            v("runnable-as-first-word", route=sr["route"], words=sr["words"], rc=sr["rc"], expected_call=sr["want"], calls=sr["calls"],
              stdout=sr["out"], stderr=sr["err"])
    for ar in ob.get("alias_runs", []):
        if ar["rc"] != 0 or ar["calls"] != [ar["want"]]:
            v("alias-runs-its-target", alias=ar["alias"], words=ar["words"], rc=ar["rc"], expected_call=ar["want"], calls=ar["calls"], stderr=ar["err"])
    comp = ob["compiled"]
    if comp is not None:
        if comp["rc"] != 0 or comp["listing"] is None:
            v("generated-program-does-not-compile", route="compiled", detail="mage -compile fails although the package compiles", stderr=comp["err"])
        else:
            if sorted(n for n, _ in comp["listing"][1]) != sorted(n for n, _ in entries):
                v("exact-set", route="compiled", listed_by_binary=[n for n, _ in comp["listing"][1]], listed_by_mage=[n for n, _ in entries])
            for n, h in comp["helps"].items():
                mp = ob["helps"].get(n, {}).get("parsed")
                p = h["parsed"]
                if not p or (mp and (p["comment"], p["args"], sorted(p["aliases"])) != (mp["comment"], mp["args"], sorted(mp["aliases"]))):
                    v("help-fails", route="compiled", target=n, rc=h["rc"], out=h["out"])
    fr = ob["fail_run"]
    if fr is not None and (fr["rc"] != 1 or fr["calls"] != [case["fail_run"][2]] or "FAIL-" + case["fail_run"][2] not in fr["err"]):
        v("error-result-returned", words=fr["words"], rc=fr["rc"], calls=fr["calls"], stderr=fr["err"],
          detail="the target's body returned an error: the run must report it and exit 1")
    dr = ob["default_run"]
    if dr is not None and dflt is not None:
        if dr["rc"] != 0 or [c[0] for c in dr["calls"]] != [G.def_id(dflt)]:
            v("default-runs", rc=dr["rc"], calls=dr["calls"], declared=G.def_id(dflt))
    return bad


ATY = {"string": "AString", "int": "AInt", "bool": "ABool", "time.Duration": "ADur"}


def coq_case(case, ob, dv):
    pkg = case["pkg"]
    docs = {}
    for f in dv["funcs"]:
        docs[f["name"]] = (f["doc"], f["syn"])
    for t in dv["types"]:
        for m in t["methods"]:
            docs[t["name"] + "." + m["name"]] = (m["doc"], m["syn"])
    term = G.coq_pkg(pkg, docs, dv["pkgdoc"], hidden_vars=[n for n in ("Default", "Aliases") if not G.package_level_in_godoc(dv, n)])
    # helper functions are declarations too
    hf = ["{| fname := %s; recv := None; tparams := false; params := []; res := [{| rnames := 0; rkind_ := RKOther |}]; fdoc := \"\"; fsyn := \"\" |}" % coq_str(h["name"])
          for h in pkg["helpers"] if h["kind"] == "func"]
    if hf:
        term = term.replace("{| decls := [", "{| decls := [" + "; ".join(hf) + ("; " if pkg["funcs"] else ""), 1)
    ok = ob["list_rc"] == 0 and ob["listing"] is not None
    desc, entries = (ob["listing"][0], ob["listing"][1]) if ok else ("", [])
    helps = []
    for n, h in sorted(ob["helps"].items()):
        p = h["parsed"]
        if p:
            helps.append("{| ho_key := %s; ho_comment := %s; ho_args := %s; ho_aliases := %s |}" % (
                coq_str(p["key"]), coq_str(p["comment"]), coq_list([coq_str(a) for a in p["args"]]), coq_list([coq_str(a) for a in p["aliases"]])))
        else:
            helps.append("{| ho_key := %s; ho_comment := \"<-h failed>\"; ho_args := []; ho_aliases := [] |}" % coq_str(n))
    cs = []
    for did, args in (ob["run"]["calls"] if ob["run"] else []):
        recv, _, name = did.split("@")[-1].rpartition(".")
        cs.append("{| co_recv := %s; co_name := %s; co_types := %s |}" % (coq_str(recv), coq_str(name), coq_list([ATY.get(t, "AString") for t, _ in args])))
    o = ("{| o_docfuncs := %s; o_doctypes := %s; o_docvars := %s; o_ok := %s; o_desc := %s; o_listing := %s; o_helps := %s; o_calls := %s |}" % (
        coq_list([coq_str(f["name"]) for f in dv["funcs"]]),
        coq_list(["(%s, %s)" % (coq_str(t["name"]), coq_list([coq_str(m["name"]) for m in t["methods"]])) for t in dv["types"]]),
        coq_list([coq_list([coq_str(n) for n in v["names"]]) for v in dv["vars"]]),
        coq_bool(ok), coq_str(desc), coq_list(["(%s, %s)" % (coq_str(n), coq_str(s)) for n, s in entries]),
        coq_list(helps), coq_list(cs)))
    return "{| c_pkg := %s; c_compiles := %s; c_obs := %s |}" % (term, coq_bool(ob["alone_ok"]), o)


def plan_runs(rng, pkg):
    runs = []
    for f in G.oracle_funcs(pkg):
        # (undecided declarations are run too when mage lists them: whatever is listed must be runnable)
        if G.oracle_valid(pkg, f) or G.oracle_would_be_valid(pkg, f):
            ws, expect = G.words_for(rng, f)
            runs.append((G.oracle_key(f), ws, expect, G.def_id(f)))
    rng.shuffle(runs)
    return runs


def run(ctx):
    ctx.prove(["Props/C06.vo", "Run/eval_C06.vo"], extra_props=["Compose_C06_C04"])   # + composition C06 => C04 (template data built from declarations)
    import extractlib; extractlib.tables_tie(ctx, ['parse.argTypes'])   # literal data of the source re-proved equal to the models' (DESIGN 3.5)
    extractlib.fn_tie(ctx, ['toOneLine'])   # pure functions translated from the current source, re-proved equal to the models' (tools/notes/Translator.md)
    ctx.trusted_base += [
        "checks/c06.py + lib/c06gen.py (declaration generator, renderer to Go files, printer to Coq terms, output parsers, oracle)",
        "lib/projlib.py (project layout, probe package, CALL parser), harness/docview (go/parser + go/doc only)",
        "go/doc (doc.New mode 0, Synopsis, CommentGroup.Text) is modelled for the generated declaration shapes and compared with the real go/doc on every package; its doc texts and synopses are fed to the model",
        "the go tool: 'the package compiles' = `go build -tags mage` of the magefiles + an empty main; Coq has no Go type checker: 'mage's program compiles too' is checked per package, not proved",
        "identifiers are ASCII in the model (strings.ToLower, ast.IsExported, [[:upper:]], strings.EqualFold restricted to ASCII)"]
    rng = ctx.rng
    ctx.log("theorems checked")
    mage = Mage(ctx)
    docview = go_build_harness(ctx, "docview", tags=None)
    go_names(docview, G.all_pool_names())          # Go's unicode tables for the non-ASCII identifier pools
    # ---- cases
    cases = []
    if ctx.replay and ctx.replay.get("case"):
        c = ctx.replay["case"]
        cases.append({"stream": c["stream"], "pkg": c["pkg"], "ident": c.get("ident"), "compile": True})
    else:
        nmain = 28 if ctx.quick else 900
        k = 1 if ctx.quick else 12
        for _ in range(nmain):
            cases.append({"stream": "main", "pkg": G.gen_package(rng)})
        for shape in ["wrong-spec", "panic-multi", "ok-unexported-first", "ok-first", "no-own-value", "typed-no-value"] * k:
            cases.append({"stream": "default:" + shape, "pkg": G.gen_default_shape(rng, shape)})
        for _ in range(3 * k):
            cases.append({"stream": "magefiles-dir", "pkg": G.gen_package(rng)})
        # ... with tagged and UNTAGGED files mixed (in a magefiles directory every go file counts), reached plainly and
        # through a symbolic link called magefiles that points to a directory with another name
        for v in ["plain", "link", "link-abs"] * k:
            cases.append({"stream": "magefiles-dir:mixed-" + v, "pkg": G.gen_package(rng, nfiles=rng.choice([2, 3]))})
        for j in range(6 * k):
            cases.append({"stream": "unicode", "pkg": G.gen_unicode(rng, safe=(j % 2 == 0))})
        for j in range(6 * k):
            cases.append({"stream": "cli-words", "compile": True,
                          "pkg": G.gen_cli_words(rng, force=["Help", "Version", "Init", "L", "H", "Main"][j % 6])})
        for v in G.MG_VARIANTS * k:
            cases.append({"stream": "mg-import:" + v, "pkg": G.gen_mg_imports(rng, v)})
        for v in G.MAGIC_VARIANTS * k:
            cases.append({"stream": "magic-lookalike:" + v, "pkg": G.gen_magic_lookalike(rng, v)})
        # ---- names against everything the generated main of this tree declares, derived from the file itself
        gen_ids = generated_identifiers(mage, docview)
        ctx.coverage["generated_main_identifiers"] = len(gen_ids)
        exported_ids = sorted(set(n for n, w in gen_ids if "A" <= n[:1] <= "Z"))
        ctx.coverage["generated_main_exported_identifiers"] = exported_ids
        for pkg in G.pack_names(rng, exported_ids + G.ENGLISH_NAMES, per=10):
            cases.append({"stream": "names", "pkg": pkg})
        # the lower-case locals of the generated main as package-level identifiers of the magefile (the local
        # names of its imports excepted: a file cannot import under a name the package declares)
        lows = sorted(set(n for n, w in gen_ids if w != "import" and not ("A" <= n[:1] <= "Z")
                          and n not in G.PREDECLARED and n not in G.GO_KEYWORDS and n not in ("main", "init")))
        for i in range(0, len(lows), 45):
            cases.append({"stream": "names", "pkg": G.gen_named(rng, ["Build", "Test"], [], helper_names=lows[i:i + 45])})
        for _ in range(5 * k):
            cases.append({"stream": "mage-import", "pkg": G.gen_with_imports(rng)})
        for tag, where, envmode in G.variant_plan(rng, sh(["go", "env", "GOVERSION"], env=goenv())[1].strip()) * k:
            cases.append({"stream": "variants:%s:%s:%s" % (tag, where, envmode), "compile": True, "pkg": G.gen_variants(rng, tag, where, envmode)})
        for form in G.DECL_FORMS * k:
            cases.append({"stream": "decl-form:" + form, "pkg": G.gen_decl_form(rng, form)})
        for v in ["first", "last", "all"] * k:
            cases.append({"stream": "symlink:" + v, "pkg": G.gen_package(rng, nfiles=rng.choice([2, 3]), unicode=False, cli=False)})
        for c in cases[:6]:
            c["compile"] = True
        for cls, n in (("import-name-clash", 3), ("generic-namespace-type", 1), ("lookalike", 5)):
            for _ in range(n * k):
                cases.append({"stream": cls, "pkg": G.gen_clash(rng, cls)})
        # EVERY predeclared identifier, on every run (a random declaration kind each), and some ordinary names
        # (the 14 measured identifiers one per package - the known finding is per identifier -, the others six to a package)
        for ident in G.PREDECL_BASELINE * (1 if ctx.quick else 4):
            cases.append({"stream": "predeclared-shadowed", "ident": ident, "pkg": G.gen_clash(rng, "predeclared-shadowed", ident=ident)})
        rest = [n for n in G.PREDECLARED if n not in G.PREDECL_BASELINE] * (1 if ctx.quick else 4) + rng.sample(G.ORDINARY, 4)
        rng.shuffle(rest)
        for i in range(0, len(rest), 6):
            chunk = sorted(set(rest[i:i + 6]))
            pkg = G.gen_clash(rng, "predeclared-shadowed", ident=chunk[0])
            for n in chunk[1:]:
                pkg["helpers"].append({"kind": rng.choice(["func", "var", "const", "type"]), "name": n, "file": 0, "bare": True})
            cases.append({"stream": "predeclared-shadowed", "ident": "+".join(chunk), "pkg": pkg})
    for c in cases:
        pkg = c["pkg"]
        pname = "p%04d" % (mage.n + 1)
        G.variant_reset(pkg)
        files = G.render_package(pkg, pname)
        files.update(G.variant_files(pkg, pname))
        if c["stream"].startswith("magefiles-dir"):
            # the magefiles live in ./magefiles next to files the go tool EXCLUDES from the package on this
            # platform: their exported functions are not part of the magefile package
            sub = "magefiles/" if c["stream"] in ("magefiles-dir", "magefiles-dir:mixed-plain") else "tools/mage/"
            files = {(sub + k if k.startswith("mf_") else k): v for k, v in files.items()}
            if ":mixed-" in c["stream"]:
                # only the first file keeps its build constraint (the generator's own choice, not mage's)
                for j, k2 in enumerate(sorted(k2 for k2 in files if k2.startswith(sub + "mf_"))):
                    if j > 0:
                        files[k2] = files[k2].replace("//go:build mage\n\n", "", 1)
            files[sub + "other_windows.go"] = "package main\n\n// OnlyWindows exists on another platform only.\nfunc OnlyWindows() {}\n"
            files[sub + "gen_tool.go"] = "//go:build ignore\n\npackage main\n\n// Generate belongs to a go:generate tool.\nfunc Generate(n int) error { return nil }\n\nfunc main() {}\n"
        c["dir"] = mage.project(files, name=pname)
        c["src"] = c["dir"]
        if c["stream"].startswith("magefiles-dir"):
            c["src"] = os.path.join(c["dir"], "magefiles")
            if ":mixed-link" in c["stream"]:
                c["src"] = os.path.join(c["dir"], "tools", "mage")
                os.symlink(c["src"] if c["stream"].endswith("-abs") else os.path.join("tools", "mage"), os.path.join(c["dir"], "magefiles"))
        if c["stream"].startswith("symlink:"):
            make_symlinks(c)
        c["files"] = sorted(f for f in os.listdir(c["src"]) if f.startswith("mf_"))
        if pkg.get("variant"):
            # the go tool's own view (under the environment of the case) decides which variant file belongs to the package
            v = pkg["variant"]
            rel = "." if v["where"] == "own" else "./imp/varlib"
            rc, out, err = sh(["go", "list", "-tags", "mage,custom" if v["tag"] == "custom" else "mage", "-f", "{{range .GoFiles}}{{.}} {{end}}", rel], cwd=c["dir"], env=case_env(mage, c), timeout=300)
            chosen = [w for w in ("on", "off") if ("var_%s.go" % w) in out.split()]
            if rc != 0 or len(chosen) != 1:
                raise BuildError("go list does not select exactly one variant file: %r %s" % (out, err[-300:]))
            G.variant_select(pkg, chosen[0])
            if v["where"] == "own":
                c["files"].append("var_%s.go" % chosen[0])
        c["runs"] = plan_runs(rng, pkg)
        c["alias_runs"] = []
        for f in G.oracle_funcs(pkg):
            if G.oracle_valid(pkg, f):
                for a in G.oracle_aliases(pkg, f):
                    ws, expect = G.words_for(rng, f)
                    c["alias_runs"].append((a, ws, expect, G.def_id(f)))
        c["docview"] = docview
        # the ASCII model (lower, is_upper, equal_fold of Model/Classify.v) is Go's behaviour only on "safe" spellings
        c["in_fragment"] = all(G.model_safe(n) for n in G.package_identifiers(pkg))
        errs = [r for r, f in [(r, next(f for f in G.oracle_funcs(pkg) if G.def_id(f) == r[3])) for r in c["runs"]]
                if len(f["res"]) == 1 and f["res"][0]["kind"] == "error"]
        c["fail_run"] = (errs[0][0], errs[0][1], errs[0][3]) if errs else None
        d = G.oracle_default(pkg)
        c["default_noargs"] = bool(d) and not [t for t in G.flat_param_types(d) if t != "ctx"]
    ctx.log("%d packages written" % len(cases))
    # ---- go/doc's own view (no mage code involved)
    inp = "".join(json.dumps({"dir": c["src"], "files": c["files"]}) + "\n" for c in cases)
    rc, out, err = sh([docview], input=inp.encode(), timeout=600)
    dvs = [json.loads(l) for l in out.splitlines() if l.strip()]
    for c, dv in zip(cases, dvs):
        c["dv"] = dv
        if not dv.get("err"):
            if not G.package_level_in_godoc(dv, "Aliases"):
                c["alias_runs"] = []
            if not G.package_level_in_godoc(dv, "Default") or G.default_undecided(c["pkg"]):
                c["default_noargs"] = False
    if rc != 0 or len(dvs) != len(cases):
        raise BuildError("docview failed: " + err[-2000:])
    # ---- the implementation
    obs = pmap(lambda c: observe(mage, c), cases)
    ctx.log("implementation runs done")
    # ---- oracle
    noncompiling = 0
    items, item_case = [], []
    stats = {"packages": len(cases), "declarations": 0, "valid_targets": 0, "non_targets": 0, "listed": 0, "help_texts": 0,
             "target_runs": 0, "default_runs": 0, "by_stream": {}, "by_defect": {}, "files": {}, "with_default": 0, "with_aliases": 0}
    seen, nontriv = set(), 0
    for c, ob, dv in zip(cases, obs, dvs):
        pkg = c["pkg"]
        st = c["stream"].split(":")[0]
        stats["by_stream"][st] = stats["by_stream"].get(st, 0) + 1
        stats["files"][pkg["nfiles"]] = stats["files"].get(pkg["nfiles"], 0) + 1
        stats["declarations"] += len(pkg["funcs"])
        nv = len([f for f in pkg["funcs"] if G.oracle_valid(pkg, f)])
        stats["valid_targets"] += nv
        stats["non_targets"] += len(pkg["funcs"]) - nv
        for f in pkg["funcs"]:
            k = f.get("defect") or ("no-defect-method" if f["recv"] else "no-defect-function")
            stats["by_defect"][k] = stats["by_defect"].get(k, 0) + 1
        stats["with_default"] += any("Default" in s["names"] for v in pkg["vars"] for s in v["specs"])
        stats["with_aliases"] += any("Aliases" in s["names"] for v in pkg["vars"] for s in v["specs"])
        if ob["listing"]:
            stats["listed"] += len(ob["listing"][1])
        stats["help_texts"] += len(ob["helps"])
        stats["target_runs"] += len(ob["run"]["plan"]) if ob["run"] else 0
        stats["default_runs"] += 1 if ob["default_run"] else 0
        stats["alias_runs"] = stats.get("alias_runs", 0) + len(ob.get("alias_runs", []))
        stats["first_word_runs"] = stats.get("first_word_runs", 0) + len(ob["single_runs"])
        stats["compiled_binaries"] = stats.get("compiled_binaries", 0) + (1 if ob["compiled"] else 0)
        stats["failing_runs"] = stats.get("failing_runs", 0) + (1 if ob["fail_run"] else 0)
        if dv.get("err"):
            raise BuildError("docview: %s on %s" % (dv["err"], c["dir"]))
        if not ob["alone_ok"]:
            noncompiling += 1
            ctx.log("generated package does not compile (generator defect, case skipped):", ob["alone_err"][-300:])
        bad = judge(ctx, c, ob)
        c["flagged"] = bool(bad)
        for w in (bad or [])[:3]:
            ctx.violation(w, case={"stream": c["stream"], "pkg": pkg, "ident": c.get("ident")}, extra={"files": G.render_package(pkg, os.path.basename(c["dir"]))})
        h = case_hash(pkg)
        if h not in seen:
            seen.add(h)
            if nv >= 1 and nv < len(pkg["funcs"]) and ob["alone_ok"]:
                nontriv += 1
        uni = "ascii" if all(G.is_ascii(n) for n in G.package_identifiers(pkg)) else ("unicode-in-model-fragment" if c["in_fragment"] else "unicode-oracle-only")
        stats.setdefault("spelling", {})[uni] = stats.setdefault("spelling", {}).get(uni, 0) + 1
        if c["stream"] not in CLASSES and c["in_fragment"] and not pkg.get("imports"):     # (the model has no mage:import)
            items.append(coq_case(c, ob, dv))
            item_case.append((c, ob))
    if noncompiling > max(1, len(cases) // 10):
        raise BuildError("%d of %d generated packages do not compile on their own: the generator is broken" % (noncompiling, len(cases)))
    # ---- model vs implementation
    header = "From Mage Require Import Base.Strs Model.Classify Run.eval_C06.\n"
    mism = ctx.coq_eval_shards("cases_C06", header, items, per_shard=max(4, (len(items) + NCPU - 1) // NCPU))
    unexplained = [(i, b) for i, b in mism if not item_case[i][0]["flagged"]]
    if unexplained and not ctx.violations:
        for idx, body in unexplained[:3]:
            c, ob = item_case[idx]
            if os.environ.get("C06_DEBUG"):
                ctx.log("MISMATCH", idx, body[:3000], "\nOBSERVED", json.dumps({k: ob[k] for k in ("listing", "helps", "run")}, default=str)[:3000])
            ctx.violation({"kind": "model-vs-implementation", "correspondence": "Run/eval_C06.mismatches", "model_says": body[:1500],
                           "listing": ob["listing"], "list_rc": ob["list_rc"], "list_err": ob["list_err"][-300:]},
                          case={"stream": c["stream"], "pkg": c["pkg"], "ident": c.get("ident")}, found_input=False)
    if len(mism) > len(unexplained):
        ctx.notes.append("model/implementation disagreements on %d packages (reported through the oracle's violations / known findings)" % len(mism))
    ctx.log("model evaluated, %d mismatches" % len(mism))
    cov = ctx.coverage
    cov["evaluations"] = len(cases)
    cov["distinct_nontrivial"] = nontriv
    cov["rule"] = ("a case = one generated magefile package (1-3 files): functions and methods with grouped / unnamed / blank parameters, "
                   "named results, 19 unsupported parameter types, contexts in wrong places, generic functions, methods on namespace / "
                   "unexported namespace / non-namespace / look-alike (alt.Namespace) types with value and pointer receivers, doc comments "
                   "with quotes, back-quotes, backslashes, CRs, block comments, Default and Aliases declarations, harmless helper identifiers; "
                   "dedicated streams for the repaired defects (Default in multi-name var specs / without a value of its own, identifiers named "
                   "like the generated file's imports, generic namespace type: oracle + model) and for the known one (identifiers shadowing "
                   "predeclared names the generated file uses: oracle only); distinct by hash; non-trivial = compiles, has at least one target and one non-target")
    cov.update(stats)
    cov["generated_packages_not_compiling"] = noncompiling
    cov["model_evaluated_on"] = len(items)
    cov["model_mismatches"] = len(mism)
    cov["traces_validated_against_impl"] = len(items) - len(mism)
    for c, ob in list(zip(cases, obs))[:2]:
        ctx.sample({"stream": c["stream"], "files": {k: v[:1500] for k, v in G.render_package(c["pkg"], "pX").items()},
                    "listing": ob["listing"], "run": ob["run"] and {"words": ob["run"]["words"], "calls": ob["run"]["calls"]}}, limit=2)
