"""C07 - ambiguous target names are rejected, never silently resolved.

Theorems: coq/Props/C07.v over Model/Dupes.v (checkDupeTargets, checkDupes, PrimaryPackage's order,
the alias switch and the target switch of the generated main).
Correspondence: a collision matrix of generated magefile projects (lib/c07gen.py) - every way two
runnable names can be equal ignoring case, each as a real collision and as a near-miss, in random
spellings - is given to the mage binary built from the working tree: exit status and diagnosis of
`mage -l`, the definitions the message names, and - when accepted - the body that runs for every
runnable name typed in a random letter case.  The Coq model evaluated on the same abstract package
must predict all of it.
Oracle: the property sentence in Python: the lower-cased multiset of all runnable names; reject
(exit 1, duplicate diagnosis naming real colliders) iff some name occurs twice; otherwise every
name runs its own definition."""
import json, os, re, time
from vlib import *
import projlib
import c07gen


# ---------------------------------------------------------------- observing one project
def parse_msg(err):
    """the groups a duplicate diagnosis names: list of dict(kind, key, ids)"""
    groups = []
    m = re.search(r"following targets conflict:\n((?:  [^\n]*\n?)+)", err)
    if m:
        for line in m.group(1).splitlines():
            if line.strip():
                groups.append({"kind": "case", "key": None, "ids": [x.strip() for x in line.strip().split(",")]})
    for m in re.finditer(r'alias ("(?:[^"\\]|\\.)*") duplicates existing target\(s\): ([^\n]*)', err):
        groups.append({"kind": "alias", "key": json.loads(m.group(1)), "ids": [x.strip() for x in m.group(2).split(",") if x.strip()]})
    for m in re.finditer(r'("(?:[^"\\]|\\.)*") target has multiple definitions: ([^\n]*)', err):
        groups.append({"kind": "multi", "key": json.loads(m.group(1)), "ids": [x.strip() for x in m.group(2).split(",") if x.strip()]})
    return groups


F = c07gen.fold          # Go's strings.ToLower (ASCII by rule, other characters as harness/docview reports them)
ANSI = re.compile(r"\x1b\[[0-9;?]*[A-Za-z]")


def clean(err):
    """stderr without ANSI escape sequences and without mage's DEBUG lines"""
    return "\n".join(l for l in ANSI.sub("", err).splitlines() if not l.startswith("DEBUG: "))


def bare(i):
    return i.rsplit(".", 1)[-1]


def _runs(mage, d, words, exe=None, flags=(), env=None):
    flags = list(flags)
    r2 = mage.run(d, flags + words, exe=exe, env=env)
    cl = projlib.calls(r2["out"])
    if r2["rc"] == 0 and len(cl) == len(words):
        return [[w, c[0]] for w, c in zip(words, cl)]
    out = []
    for w in words:
        r3 = mage.run(d, flags + [w], exe=exe, env=env)
        cl = projlib.calls(r3["out"])
        out.append([w, cl[0][0] if len(cl) == 1 and r3["rc"] == 0 else ("" if not cl else "+".join(c[0] for c in cl))])
    return out


def observe_state(mage, d, spec):
    """one state of a project directory: `mage -l`, every runnable name when accepted; for the states of a
    history also `mage -h <target>`, `mage <name>` when rejected, and `mage -compile`"""
    flags, env = c07gen.MODES[spec.get("mode", "plain")]
    r = mage.run(d, flags + ["-l"], env=env)
    err = clean(r["err"])
    o = {"rc": r["rc"], "class": projlib.stderr_class(err), "groups": parse_msg(err), "stderr": err[-1500:], "runs": [], "mode": spec.get("mode", "plain")}
    cmds = spec.get("cmds", [])
    if r["rc"] == 0 and spec["words"]:
        o["runs"] = _runs(mage, d, spec["words"], flags=flags, env=env)
    if r["rc"] == 0:
        for w in spec.get("nonwords", []):        # must not be runnable: run one at a time
            r3 = mage.run(d, flags + [w], env=env)
            o["runs"].append([w, "+".join(c[0] for c in projlib.calls(r3["out"]))])
    if spec.get("gate_by_tags"):
        # the verdict is about the files the go tool compiles under the same GOFLAGS: ask it
        genv = mage.env(env)
        for i in spec["imports"]:
            for fn_, g in i.get("files", {}).items():
                rc_, out_, _ = sh(["go", "list", "-f", "{{join .GoFiles \" \"}}", "./imp/" + i["pkg"]], cwd=d, env=genv, timeout=120)
                if rc_ != 0 or ((fn_ in out_.split()) != (g["state"] == "on")):
                    o["golist_disagrees"] = "%s: go list says %r, the generator assumed %s" % (fn_, out_.strip(), g["state"])
    defs = c07gen.all_defs(spec)
    tnames = [c07gen.runnable(defs[i], a) for i, a in c07gen.exposures(spec)]
    if "h" in cmds and tnames:
        rh = mage.run(d, flags + ["-h", F(tnames[0])], env=env)
        o["help"] = {"word": F(tnames[0]), "rc": rh["rc"], "class": projlib.stderr_class(clean(rh["err"])), "stderr": clean(rh["err"])[-400:]}
    if "run" in cmds and r["rc"] != 0 and spec["words"]:
        rr = mage.run(d, flags + spec["words"][:1], env=env)
        o["run1"] = {"word": spec["words"][0], "rc": rr["rc"], "class": projlib.stderr_class(clean(rr["err"])), "calls": [c[0] for c in projlib.calls(rr["out"])], "stderr": rr["err"][-400:]}
    if "compiled" in cmds:
        exe = os.path.join(d, "compiled_magefile")
        if os.path.exists(exe):
            os.remove(exe)
        rc = mage.run(d, ["-compile", exe])
        o["compiled"] = {"rc": rc["rc"], "class": projlib.stderr_class(rc["err"]), "stderr": rc["err"][-400:], "runs": []}
        if rc["rc"] == 0 and os.path.exists(exe) and spec["words"]:
            o["compiled"]["runs"] = _runs(mage, d, spec["words"], exe=exe)
        if os.path.exists(exe):
            os.remove(exe)
    return o


def rewrite(d, files, keep_file_times=False):
    """edit the sources of a project directory IN PLACE (go.mod and the probe package stay): a file that is kept is
    overwritten, not re-created (same-length //go:build spellings keep its size), and the mtime of every directory
    whose entries did not change is put back.  The mtime of a REWRITTEN file is never put back: with equal size
    and mtime the go command's own package index (modindex, keyed by name/size/mtime) answers from before the edit -
    observed: `go list` keeps reporting the old GoFiles - which is outside mage"""
    dirs_before = {}
    for root, dirs, fs in os.walk(d):
        st = os.stat(root)
        dirs_before[root] = (sorted(dirs + fs), st.st_atime_ns, st.st_mtime_ns)
    for root, dirs, fs in os.walk(d):
        if os.path.relpath(root, d).split(os.sep)[0] == "probe":
            continue
        for f in fs:
            p = os.path.join(root, f)
            if f.endswith(".go") and os.path.relpath(p, d) not in files:
                os.remove(p)
    for rel, text in files.items():
        p = os.path.join(d, rel)
        os.makedirs(os.path.dirname(p), exist_ok=True)
        if not os.path.exists(p):
            with open(p, "w") as f:
                f.write(text)
            continue
        if open(p).read() == text:
            continue
        with open(p, "r+") as f:
            f.write(text)
            f.truncate()
    for root, (entries, at, mt) in dirs_before.items():
        if os.path.isdir(root):
            now = sorted(os.listdir(root))
            if now == entries:
                os.utime(root, ns=(at, mt))


def _keep_times(spec):
    return any(g.get("keep_times") for h in [spec] + spec["imports"] for g in h.get("files", {}).values())


class OneCache:
    """mage with a cache directory of its own (one per project directory; removed with it to bound disk use)"""
    def __init__(self, mage, cache):
        self.mage, self.cache = mage, cache

    # the Go build cache is shared by everything on the machine: an entry trimmed away by another process, or a
    # full disk, is not behaviour of mage - the command is repeated
    INFRA = re.compile(r"\.cache/go-build/\S+: no such file or directory|No space left on device|cannot open file /\S*go-build")

    def run(self, cwd, args, **kw):
        kw.setdefault("cache", self.cache)
        for attempt in range(4):
            r = self.mage.run(cwd, args, **kw)
            if r["rc"] == 0 or not self.INFRA.search(r["err"]):
                return r
            time.sleep(1 + attempt)
        raise BuildError("the Go build cache / disk kept failing under `mage %s`: %s" % (" ".join(args), r["err"][-400:]))

    def env(self, extra=None):
        return self.mage.env(extra, self.cache)


def observe_history(mage, states):
    """the states of one project directory, in order, all with the same cache"""
    d, out = None, []
    cache = os.path.join(mage.ctx.tmp, "hcache", states[0]["name"])
    os.makedirs(cache, exist_ok=True)
    m = OneCache(mage, cache)
    try:
        for spec in states:
            files = c07gen.render(spec)
            if d is None:
                d = mage.project(files, name=spec["name"])
            else:
                rewrite(d, files, keep_file_times=_keep_times(spec))
            out.append(observe_state(m, d, spec))
    finally:
        import shutil
        shutil.rmtree(cache, ignore_errors=True)
        if d:
            shutil.rmtree(d, ignore_errors=True)
    return out


# ---------------------------------------------------------------- the oracle (the property sentence)
def oracle(spec, o):
    """returns None or the clause that failed"""
    defs = c07gen.all_defs(spec)                      # id -> dict(path, recv, name, pkg)
    names = [(F(c07gen.runnable(defs[i], a)), ("def", i)) for i, a in c07gen.exposures(spec)]
    names += [(F(a["key"]), ("alias", a["key"])) for a in spec["aliases"]]
    by = {}
    for n, what in names:
        by.setdefault(n, []).append(what)
    # two runnable names collide when a name stands for two different things; one definition that is
    # reachable under one name twice (the same package as a bare-tag import twice) is not decided by the sentence
    dup = {n: l for n, l in by.items() if len(set(l)) > 1}
    selfdup = {n: l for n, l in by.items() if len(l) > 1 and len(set(l)) == 1}
    rep = dict(dup)
    rep.update(selfdup)                               # every repeated name, with what it stands for
    ident = {i: c07gen.ident(d) for i, d in defs.items()}

    def group_ok(g):
        """does a reported group name real repeated definitions? returns None or the complaint"""
        if g["kind"] == "multi":
            ok_ids = [ident[w[1]] for w in rep.get(g["key"], []) if w[0] == "def"]
            if g["key"] not in rep or len(g["ids"]) < 2 or any(i not in ok_ids for i in g["ids"]):
                return "the message says %r has multiple definitions %s; the definitions with that name are %s" % (g["key"], g["ids"], ok_ids)
        elif g["kind"] == "alias":
            ok_ids = [ident[w[1]] for w in dup.get(g["key"], []) if w[0] == "def"]
            ok_ids += [ident[a["ref"]] for a in spec["aliases"] if F(a["key"]) == g["key"]]
            if g["key"] not in dup or not any(w[0] == "alias" for w in dup[g["key"]]) or not g["ids"] or any(i not in ok_ids for i in g["ids"]):
                return "the message says alias %r duplicates %s; colliding with that name are %s" % (g["key"], g["ids"], ok_ids)
        else:
            # names only: some package must hold exactly these names under one lower-cased receiver:name
            pkgs = {}
            for i, d in defs.items():
                pkgs.setdefault(d["pkg"], {}).setdefault(F(((d["recv"] + ":") if d["recv"] else "") + d["name"]), []).append(d["name"])
            if not any(len(ns) > 1 and sorted(ns) == sorted(g["ids"]) for p in pkgs.values() for ns in p.values()):
                return "the message lists %s as conflicting; no package defines exactly these under one name" % g["ids"]
        return None

    if not dup and selfdup and o["rc"] != 0:
        # undecided by the sentence: a rejection is tolerated if it names exactly such definitions
        if o["rc"] != 1 or o["class"] != "dupe" or not o["groups"]:
            return "exit %d (%s) for a package whose only repeated names are one definition imported twice: %s" % (o["rc"], o["class"], o["stderr"][-300:].strip())
        for g in o["groups"]:
            bad = group_ok(g)
            if bad:
                return bad
        return None
    if not dup:
        if o["rc"] != 0:
            return "no two runnable names are equal ignoring case, yet `mage -l` exited %d (%s): %s" % (o["rc"], o["class"], o["stderr"][-300:].strip())
        own = {}
        for i, a in c07gen.exposures(spec):
            own[F(c07gen.runnable(defs[i], a))] = i
        for a in spec["aliases"]:
            own[F(a["key"])] = a["ref"]
        for w, ran in o["runs"]:
            if ran != own.get(F(w), ""):
                return "`mage %s` ran %s, its own definition is %s" % (w, ran or "nothing", own.get(F(w)) or "none")
        if len(o["runs"]) != len(spec["words"]) + len(spec.get("nonwords", [])):
            return "not every word was run"
        return None
    some = sorted(dup)[0]
    if o["rc"] == 0:
        shadow = [(w, ran) for w, ran in o["runs"]]
        return "runnable name %r is defined %d times (%s) but the magefile was accepted%s" % (
            some, len(dup[some]), ", ".join("%s %s" % x for x in dup[some]), (": " + ", ".join("%s ran %s" % x for x in shadow)) if shadow else "")
    if o["rc"] != 1 or o["class"] != "dupe":
        return "runnable name %r is defined %d times; expected exit 1 with a duplicate diagnosis, got exit %d (%s): %s" % (
            some, len(dup[some]), o["rc"], o["class"], o["stderr"][-300:].strip())
    if not o["groups"]:
        return "rejected, but the message names no definitions: %s" % o["stderr"][-300:].strip()
    for g in o["groups"]:
        bad = group_ok(g)
        if bad:
            return bad
    # ... and names ALL of them that the failing stage sees: every name defined by two or more targets in the
    # "multiple definitions" message; every clashing name of the package in the per-package message
    if any(g["kind"] == "multi" for g in o["groups"]):
        want = sorted(n for n, l in by.items() if sum(1 for w in l if w[0] == "def") > 1)
        got = sorted(g["key"] for g in o["groups"] if g["kind"] == "multi")
        if got != want:
            return "the message names the definitions of %s; names with several definitions are %s" % (got, want)
    if any(g["kind"] == "case" for g in o["groups"]):
        pkgs = {}
        for i, d in defs.items():
            pkgs.setdefault(d["pkg"], {}).setdefault(F(((d["recv"] + ":") if d["recv"] else "") + d["name"]), []).append(d["name"])
        listed = sorted(sorted(g["ids"]) for g in o["groups"] if g["kind"] == "case")
        clash = {p: sorted(sorted(ns) for ns in ks.values() if len(ns) > 1) for p, ks in pkgs.items()}
        if not any(c == listed for c in clash.values() if c):
            return "the message lists the conflicts %s; the packages' conflicts are %s" % (listed, [c for c in clash.values() if c])
    if not any(g["kind"] != "multi" or g["key"] in dup for g in o["groups"]):
        return "rejected, but no group of the message is one of the real collisions %s: %s" % (sorted(dup), o["groups"])
    return None


def oracle_commands(spec, o):
    """-h, a run and -compile in a state are judged like -l: refused with the diagnosis iff two names collide"""
    defs = c07gen.all_defs(spec)
    names = [(F(c07gen.runnable(defs[i], a)), ("def", i)) for i, a in c07gen.exposures(spec)]
    names += [(F(a["key"]), ("alias", a["key"])) for a in spec["aliases"]]
    by = {}
    for n, what in names:
        by.setdefault(n, set()).add(what)
    collide = any(len(v) > 1 for v in by.values())
    if not collide and len(names) != len(by):
        return None                                   # only one definition imported twice: undecided
    for what, key in (("mage -h %s", "help"), ("mage %s", "run1"), ("mage -compile", "compiled")):
        r = o.get(key)
        if r is None:
            continue
        cmd = what % r["word"] if "%s" in what else what
        if collide and (r["rc"] != 1 or r["class"] != "dupe"):
            return "two runnable names collide, yet `%s` exited %d (%s) instead of refusing with the duplicate diagnosis: %s" % (cmd, r["rc"], r["class"], r["stderr"][-200:].strip())
        if not collide and r["rc"] != 0:
            return "no two runnable names are equal ignoring case, yet `%s` exited %d (%s): %s" % (cmd, r["rc"], r["class"], r["stderr"][-200:].strip())
    if not collide and "compiled" in o:
        own = {}
        for i, a in c07gen.exposures(spec):
            own[F(c07gen.runnable(defs[i], a))] = i
        for a in spec["aliases"]:
            own[F(a["key"])] = a["ref"]
        for w, ran in o["compiled"]["runs"]:
            if ran != own.get(F(w), ""):
                return "the compiled binary ran %s for %s, its own definition is %s" % (ran or "nothing", w, own.get(F(w)) or "none")
        if len(o["compiled"]["runs"]) != len(spec["words"]):
            return "the compiled binary did not run every word"
    return None


# ---------------------------------------------------------------- Coq terms
def pkg_term(spec):
    defs = c07gen.all_defs(spec)
    def tg(t):
        return "tg %s %s" % (coq_str(t["recv"]), coq_str(t["name"]))
    loc = coq_list([tg(t) for t in spec["locals"]])
    imps = coq_list(["im %s %s %s" % (coq_str(i["alias"]), coq_str(c07gen.ipath(spec, i)), coq_list([tg(t) for t in i["tgts"]])) for i in spec["imports"]])
    def fn(ref):
        d = defs[ref]
        return "fn %s %s %s %s" % (coq_str(c07gen.alias_of_ref(spec, ref)), coq_str(d["path"]), coq_str(d["recv"]), coq_str(d["name"]))
    al = coq_list(["(%s, %s)" % (coq_str(a["key"]), fn(a["ref"])) for a in spec["aliases"]])
    return "(pk_ %s %s %s)" % (loc, imps, al)


def obs_term(spec, o):
    defs = c07gen.all_defs(spec)
    if o["rc"] == 0:
        return "(OAcc %s)" % coq_list(["(%s, %s)" % (coq_str(w), coq_str(c07gen.ident(defs[r]) if r in defs else ("" if not r else "?" + r))) for w, r in o["runs"]])
    gs = []
    if o["class"] == "dupe":
        for g in o["groups"]:
            gs.append("(%s, %s)" % (coq_opt(coq_str(g["key"])) if g["kind"] == "alias" else "None", coq_list([coq_str(bare(i)) for i in g["ids"]])))
    return "(ORej %s)" % coq_list(gs)


# ---------------------------------------------------------------- the check
def run(ctx):
    ctx.prove(["Props/C07.vo", "Run/eval_C07.vo"], extra_props=["Compose_C07_C19"])   # + acceptance discharges no_collision for data built from declarations + tagged imports; end-to-end C07+C19+C06+C04
    import extractlib; extractlib.fn_tie(ctx, ['checkDupeTargets'])   # pure functions translated from the current source, re-proved equal to the models' (tools/notes/Translator.md)
    ctx.trusted_base += [
        "lib/c07gen.py (abstract package -> Go files; the definition id printed by each body; the Coq printer) and lib/projlib.py (runner, CALL/stderr projection)",
        "checks/c07.py: oracle = lower-cased multiset of runnable names; message parser (three fixed diagnoses of parse.go)",
        "the Go toolchain compiling the generated main; Go's strings.ToLower agrees with Model/Dupes.lower on ASCII (only ASCII names are generated)",
        "getFunction (which Function an alias value denotes) and the import-tag scanner are inputs of the model, not modelled here (C06/C19)",
    ]
    mage = projlib.Mage(ctx)
    rng = ctx.rng
    if ctx.replay and ctx.replay.get("case"):
        c = ctx.replay["case"]
        hists = [c["history"]] if "history" in c else [[c["spec"]]]
        for st in hists[0]:
            st["name"] = "replay"
    else:
        hists = c07gen.generate(rng, reps=3 if ctx.quick else 40, soups=32 if ctx.quick else 700, hists=2 if ctx.quick else 25)
    # Go's own ToLower for every non-ASCII character used (harness/docview, no mage code)
    chars = sorted(set(c for h in hists for st in h for x in c07gen.strings_of(st) for c in x if not c.isascii()) |
                   set(c for pr in c07gen.UNI_SAME + c07gen.UNI_NEAR for x in pr for c in x if not c.isascii()))
    if chars:
        docview = go_build_harness(ctx, "docview")
        rc_, out_, err_ = sh([docview], input=(json.dumps({"names": chars}) + "\n").encode(), timeout=120)
        if rc_ != 0:
            raise BuildError("docview (names) failed: " + err_[-500:])
        ans = json.loads(out_.splitlines()[0])
        for n in next(v for v in ans.values() if isinstance(v, list) and v and isinstance(v[0], dict) and "lower" in v[0]):
            c07gen.GO_LOWER[n["name"]] = n["lower"]
        for c in chars:
            if c not in c07gen.GO_LOWER:
                raise BuildError("docview did not answer for %r: %s" % (c, out_[:300]))
    ctx.log("projects:", len(hists), "states:", sum(len(h) for h in hists))
    hobs = pmap(lambda h: observe_history(mage, h), hists)
    specs = [st for h in hists for st in h]
    obs = [o for ho in hobs for o in ho]
    prefix = [h[:k + 1] for h in hists for k in range(len(h))]          # the history up to each state (the replay)
    items, item_state, seen = [], [], set()
    outside, disagree = 0, 0
    nontriv = 0
    matrix, outcome, msgs = {}, {"accepted": 0, "rejected": 0, "other": 0}, {"case": 0, "alias": 0, "multi": 0}
    words_run = 0
    modes = {}
    for si, (spec, o) in enumerate(zip(specs, obs)):
        if o.get("golist_disagrees"):
            disagree += 1
            ctx.notes.append("state skipped, " + o["golist_disagrees"])
            continue
        modes[spec.get("mode", "plain")] = modes.get(spec.get("mode", "plain"), 0) + 1
        kind = "%s/%s" % (spec["kind"], "undecided" if spec["collide"] is None and spec["kind"] != "soup" else ("collision" if spec["collide"] else "near-miss"))
        matrix.setdefault(kind, {"n": 0, "rejected": 0})
        matrix[kind]["n"] += 1
        if o["rc"] == 0:
            outcome["accepted"] += 1
        elif o["class"] == "dupe":
            outcome["rejected"] += 1
            matrix[kind]["rejected"] += 1
            for k in set(g["kind"] for g in o["groups"]):
                msgs[k] += 1
        else:
            outcome["other"] += 1
        words_run += len(o["runs"])
        bad = oracle(spec, o) or oracle_commands(spec, o)
        if bad:
            hist = prefix[si]
            if spec.get("mode", "plain") != "plain":
                bad = "[invoked with %s] %s" % (spec["mode"], bad)
            if len(hist) > 1:
                bad = "state %d of a project directory edited in place (same cache): %s" % (len(hist) - 1, bad)
            ctx.violation({"kind": "oracle", "clause": bad, "collision_kind": kind}, case={"history": hist, "spec": spec, "observed": o})
        h = case_hash([spec["locals"], spec["imports"], spec["aliases"], spec["words"], spec.get("decoys"), spec.get("step")])
        if h not in seen:
            seen.add(h)
            if len(c07gen.exposures(spec)) + len(spec["aliases"]) >= 2 and (o["rc"] != 0 or o["runs"]):
                nontriv += 1
        if c07gen.inside_model(c07gen.strings_of(spec)):
            items.append("{| c_pkg := %s; c_obs := %s |}" % (pkg_term(spec), obs_term(spec, o)))
            item_state.append(si)
        else:
            outside += 1              # upper-case letters outside ASCII: judged by the oracle (Go's ToLower), not fed to the ASCII model
    header = "From Mage Require Import Base.Strs Model.Dupes Run.eval_C07.\n"
    ctx.log("observed; evaluating the model")
    per = max(20, (len(items) + NCPU - 1) // NCPU)
    mism = sorted(set(ctx.coq_eval_shards("cases_C07", header, items, per_shard=per)))
    alt = [(i, b) for i, b in mism if re.search(r"\(%d,\s*OAlt\)" % (i % per), b)]
    mism = [(i, b) for i, b in mism if (i, b) not in alt]
    alt = [(item_state[i], b) for i, b in alt]
    mism = [(item_state[i], b) for i, b in mism]
    if alt:
        ctx.notes.append("%d rejected case(s) named other (real) colliders than the model predicts, e.g. case %s: %s" % (
            len(alt), specs[alt[0][0]]["name"], obs[alt[0][0]]["groups"]))
    if mism and not ctx.violations:
        for idx, body in mism[:3]:
            ctx.violation({"kind": "model-vs-implementation", "correspondence": "Run/eval_C07.mismatches", "model_says": body[:400],
                           "implementation": {k: obs[idx][k] for k in ("rc", "class", "groups", "runs")}},
                          case={"history": prefix[idx], "spec": specs[idx], "observed": obs[idx]}, found_input=False)
    cov = ctx.coverage
    cov["evaluations"] = len(specs)
    cov["distinct_nontrivial"] = nontriv
    cov["rule"] = ("one generated Go project (or one state of a project directory edited in place) per case, own module, imported packages inside it; "
                   "distinct by hash of the abstract package + words + look-alike non-targets; "
                   "non-trivial = at least two runnable names and (rejected, or at least one name run)")
    cov["histories"] = sum(1 for h in hists if len(h) > 1)
    cov["history_states"] = sum(len(h) for h in hists if len(h) > 1)
    cov["decoys_rendered"] = sum(len(sp.get("decoys", [])) + sum(len(i.get("decoys", [])) for i in sp["imports"]) for sp in specs)
    cov["invocation_modes"] = modes
    cov["imports_with_own_aliases"] = sum(1 for sp in specs for i in sp["imports"] if i.get("own_aliases"))
    cov["matrix"] = matrix
    cov["outcomes"] = outcome
    cov["messages_seen"] = msgs
    cov["names_run_in_accepted_projects"] = words_run
    cov["model_mismatches"] = len(mism)
    cov["states_outside_the_ascii_model"] = outside
    cov["states_skipped_go_list_disagrees"] = disagree
    cov["alternative_reports"] = len(alt)
    cov["traces_validated_against_impl"] = len(items) - len(mism)
    for spec, o in list(zip(specs, obs))[:3]:
        ctx.sample({"kind": spec["kind"], "collide": spec["collide"], "locals": spec["locals"], "imports": spec["imports"], "aliases": spec["aliases"],
                    "rc": o["rc"], "groups": o["groups"], "runs": o["runs"][:6]})
