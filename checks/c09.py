"""C09 - mage leaves the magefile directory as it found it.

Theorems: coq/Props/C09.v over Model/Lifecycle.v (Invoke as the ordered list of its external steps,
one fault oracle per step, explicit deferred removal, crash = the same program cut after n steps).

Correspondence: fault enumeration against the REAL binary built from the working tree.  A small
generated project (2 magefiles, an ordinary .go file, data files, sub-directories, symbolic links,
one mage:import'ed package) is copied once per scenario; the scenario says how the run is made to
fail (broken magefiles, failing/panicking targets, a fake go tool failing at a given sub-command or
at its n-th call, a corrupted binary, a full file system, SIGKILL while go build runs), which flags
are used (-keep, -f, -compile, -debug, hash mode) and what is left lying around beforehand
(mage_output_file.go = any prefix of the really generated file, foreign bytes, other Go files; in
"." or in magefiles/).  Before and after each run the directory is hashed recursively.
The Coq model is evaluated on (fault assignment, flags, abstract directory) and must predict the
directory afterwards, the exit status, the class of the diagnostic and the sequence of go commands.
Oracle (independent): hash before == hash after (modulo the kept file / the removed leftover), and a
leftover changes neither exit status nor stdout nor the final directory.  -init and -clean likewise."""
import os, sys, json, base64, hashlib, shutil, signal, subprocess, time, re

if __name__ == "__main__":
    sys.path.insert(0, os.path.join(os.path.dirname(os.path.dirname(os.path.abspath(__file__))), "lib"))
from vlib import *
import projlib
from projlib import tree_hash

MAIN = "mage_output_file.go"
MOD = "example.test/c09p"

GO_MOD = """module %s

go 1.21

require github.com/magefile/mage v0.0.0

replace github.com/magefile/mage => %s
""" % (MOD, REPO)

# Which Invoke the model is asked to be (Model/Lifecycle.v, world field w_cleanup): since commit 1372a21
# GenerateMainfile removes the file on its Execute / Close / Chtimes error paths (True).  False is the
# code before that commit (kept in the model for C09_clean_before_repair_refuted).
CLEANUP_AFTER_FAILED_GENERATION = True

# With HOME and MAGEFILE_CACHE unset (and the go tool still usable) mage used to put its binary cache into ./.magefile, i.e. into
# the magefile directory (found by this check; repaired by commit 293a481: fallback to os.TempDir()/.magefile).  The scenario
# env-home-unset-gocache is an ordinary oracle + model case (a successful run that leaves the directory unchanged).
JUDGE_HOME_UNSET_CACHE = True

STEPS = ["RemoveStale", "ListMage", "ListNonMage", "CheckFiles", "HashFiles", "GoVersion", "GoEnvGocache", "StatExe",
         "Parse", "GoListDir", "GoListFiles", "Dupes", "CreateMain", "WriteMain", "CloseMain", "Chtimes", "RegisterDefer",
         "DbgVersion", "DbgEnv", "GoBuild", "RemoveMain", "CompileExit", "ExecBinary", "TargetOutcome"]


# ------------------------------------------------------------------------------------------------
# project
def magefile_build(with_import, extra=""):
    imp = ('\n\t// mage:import tools\n\t_ "%s/imp/tools"\n' % MOD) if with_import else ""
    return '''//go:build mage

// Package main is a generated magefile (verif C09).
package main

import (
	"fmt"
	"os"
%s)

// Build builds; VERIF_FAIL makes it fail.
func Build() error {
	fmt.Println("CALL Build")
	switch os.Getenv("VERIF_FAIL") {
	case "error":
		return fmt.Errorf("FAIL-Build")
	case "panic":
		panic("FAIL-Build")
	case "osexit":
		os.Exit(7)
	}
	return nil
}
%s''' % (imp, extra)


MAGEFILE_SAY = '''//go:build mage

package main

import "fmt"

// Say prints its argument.
func Say(s string) { fmt.Println("CALL Say", s) }

// Count takes a number.
func Count(n int) { fmt.Println("CALL Count", n) }
'''

TOOLS = '''package tools

import "fmt"

// Lint lints.
func Lint() { fmt.Println("CALL tools.Lint") }
'''

HELPER = '''package main

func helperNotAMagefile() int { return 1 }
'''


def canaries(rng, prefix, cache_base="cache", with_magefiles_dir=False, small=False):
    """Things NAMED like mage's own artefacts, holding sentinel content: whatever a command does, they are the user's."""
    hexname = "%040x" % rng.getrandbits(160)
    if small:       # the projects of the run scenarios: every entry is printed twice into every Coq case
        return {prefix + ".magefile/" + hexname: b"\x7fELF not mage's to remove " + bytes(rng.randrange(256) for _ in range(20)),
                prefix + ".magefile/sentinel.txt": "sentinel %d\n" % rng.randrange(10**6),
                prefix + "mage_output_file.go.bak": b"package main // kept copy\n"}
    f = {prefix + ".magefile/" + hexname: b"\x7fELF not mage's to remove " + bytes(rng.randrange(256) for _ in range(20)),
         prefix + ".magefile/sentinel.txt": "sentinel %d\n" % rng.randrange(10**6),
         prefix + ".magefile/deeper/" + hexname: b"deeper\n",
         prefix + cache_base + ".d/" + hexname: b"a directory named like the cache\n",
         prefix + hexname: b"a file named like a cached binary\n",
         prefix + "magefile.go.bak": b"package main // backup\n",
         prefix + "mage_output_file.go.bak": b"package main // kept copy\n",
         prefix + "mage_output_file.go~": b"editor backup\n",
         prefix + "notes.magefile": b"x\n"}
    if with_magefiles_dir:
        f[prefix + "magefiles/sentinel.txt"] = b"a directory called magefiles\n"
        f[prefix + "magefiles/" + hexname] = b"hex in magefiles\n"
    return f


MODULE_STATES = ["tidy", "replace-without-require", "extra-unused-require", "go-older", "go-too-new", "go-work",
                 "vendor-consistent", "vendor-inconsistent"]
GOFLAGS_VARIANTS = ["-mod=mod", "", "-mod=readonly", "-mod=vendor"]


def module_files(state):
    """go.mod (and what goes with it) of a project whose magefile imports github.com/magefile/mage/mg"""
    req = "require github.com/magefile/mage v0.0.0\n\n"
    rep = "replace github.com/magefile/mage => %s\n" % REPO
    gov = {"go-older": "1.12", "go-too-new": "1.99"}.get(state, "1.21")
    f = {}
    if state == "replace-without-require":
        f["go.mod"] = "module %s\n\ngo %s\n\n%s" % (MOD, gov, rep)
    elif state == "extra-unused-require":
        f["go.mod"] = "module %s\n\ngo %s\n\nrequire (\n\texample.test/extra v0.0.0\n\tgithub.com/magefile/mage v0.0.0\n)\n\n%sreplace example.test/extra => ./extra\n" % (MOD, gov, rep)
        f["extra/go.mod"] = "module example.test/extra\n\ngo 1.21\n"
        f["extra/extra.go"] = "package extra\n\n// X is not used by anybody.\nfunc X() {}\n"
    else:
        f["go.mod"] = "module %s\n\ngo %s\n\n%s%s" % (MOD, gov, req, rep)
    if state == "go-work":
        f["go.work"] = "go 1.21\n\nuse .\n"
    return f


def gen_project(rng, layout="flat", with_import=True, mutation=None, module=None):
    """{relative path: bytes or ('link', target)} of one project"""
    n1, n2 = rng.sample(["mf_build.go", "magefile.go", "targets.go", "a_mage.go", "zz_tasks.go", "Build.go"], 2)
    f = {}
    pre = "magefiles/" if layout in ("mfdir", "both", "named") else ""
    extra = ""
    if mutation == "syntax-body":
        extra = "\nfunc Broken() { this is not go }\n"
    elif mutation == "dupe-case":
        extra = "\n// BUILD collides.\nfunc BUILD() {}\n"
    elif mutation == "dupe-import":
        extra = "\ntype Tools mg_ns\n"   # replaced below
    elif mutation == "type-error":
        extra = "\n// Typo does not compile.\nfunc Typo() { var x int = \"s\"; _ = x }\n"
    build = magefile_build(with_import, extra)
    if mutation == "dupe-import":
        # a target named like the imported one: tools:lint twice (alias tools + namespace Tools)
        build = magefile_build(with_import, "").replace('"os"\n', '"os"\n\n\t"github.com/magefile/mage/mg"\n')
        build += "\n// Tools is a namespace.\ntype Tools mg.Namespace\n\n// Lint collides with the imported tools:lint.\nfunc (Tools) Lint() {}\n"
    if mutation == "bad-import":
        build = build.replace(MOD + "/imp/tools", MOD + "/imp/nonexistent")
    if mutation != "no-magefiles":
        f[pre + n1] = build
        f[pre + n2] = MAGEFILE_SAY
    if mutation == "syntax-package":
        f[pre + "broken_pkg.go"] = "//go:build mage\n\npakage main\n"
    if mutation == "nonmage-broken":
        f[pre + "broken_nonmage.go"] = "//go:build !mage\n\npakage main\n"
    if layout == "both":
        f["top_mage.go"] = "//go:build mage\n\npackage main\n\nimport \"fmt\"\n\n// Top is a magefile next to the magefiles directory.\nfunc Top() { fmt.Println(\"CALL Top\") }\n"
    f[pre + "helper.go"] = HELPER
    f["go.mod"] = GO_MOD
    if module:
        # the magefile really uses the mage module, so the module files matter
        for k in list(f):
            if isinstance(f[k], str) and "func Build() error {" in f[k]:
                f[k] = f[k].replace('"os"\n', '"os"\n\n\t"github.com/magefile/mage/mg"\n', 1).replace(
                    'fmt.Println("CALL Build")', 'fmt.Println("CALL Build")\n\t_ = mg.Verbose()', 1)
        f.update(module_files(module))
    f["imp/tools/tools.go"] = TOOLS
    f["data.bin"] = bytes(rng.randrange(256) for _ in range(rng.choice([0, 1, 17, 300])))
    f["notes.txt"] = "notes %d\n" % rng.randrange(10**6)
    f["sub/x.txt"] = "x%d\n" % rng.randrange(1000)
    f["sub/deep/y.bin"] = bytes(rng.randrange(256) for _ in range(40))
    f["lnk"] = ("link", "data.bin")
    f["dlnk"] = ("link", "sub")
    f.update(canaries(rng, "", small=True))
    f.update(canaries(rng, "sub/", small=True))
    f["sub/magefiles/sentinel.txt"] = b"a directory called magefiles, not in the magefile directory\n"
    if pre:
        f.update(canaries(rng, pre, small=True))
    return f


def write_tree(d, files):
    os.makedirs(d, exist_ok=True)
    for rel, v in files.items():
        p = os.path.join(d, rel)
        os.makedirs(os.path.dirname(p), exist_ok=True)
        if isinstance(v, tuple):
            if v[0] == "link":
                os.symlink(v[1], p)
            elif v[0] == "dir":
                os.makedirs(p, exist_ok=True)
        else:
            with open(p, "wb") as fh:
                fh.write(v if isinstance(v, bytes) else v.encode())


def files_to_json(files):
    return {k: (list(v) if isinstance(v, tuple) else base64.b64encode(v if isinstance(v, bytes) else v.encode()).decode()) for k, v in files.items()}


def files_from_json(j):
    return {k: (tuple(v) if isinstance(v, list) else base64.b64decode(v)) for k, v in j.items()}


def tok(b):
    return "" if len(b) == 0 else hashlib.sha1(b).hexdigest()[:10]


def snap(d):
    """nested snapshot {name: ('f', token) | ('l', target) | ('d', {...})}"""
    res = {}
    for n in sorted(os.listdir(d)):
        p = os.path.join(d, n)
        if os.path.islink(p):
            res[n] = ("l", os.readlink(p))
        elif os.path.isdir(p):
            res[n] = ("d", snap(p))
        else:
            res[n] = ("f", tok(open(p, "rb").read()))
    return res


def fs_term(s):
    items = []
    for n in sorted(s):
        v = s[n]
        if v[0] == "f":
            e = "File %s" % coq_str(v[1])
        elif v[0] == "l":
            e = "Link %s" % coq_str(v[1])
        else:
            e = "Dir %s" % fs_term(v[1])
        items.append("(%s, %s)" % (coq_str(n), e))
    return coq_list(items)


# ------------------------------------------------------------------------------------------------
# scenarios
def scenario(id, **kw):
    sc = {"id": id, "layout": "flat", "with_import": True, "mutation": None, "args": ["build"], "fail": None, "plan": "",
          "keep": False, "hashfast": False, "prewarm": False, "force": False, "compile": False, "debug": False,
          "leftover": None, "leftover_where": "top", "crash": None, "enospc": None, "envfault": None, "out": None, "wflag": None, "must_succeed": False, "module": None, "goflags": None, "knob": None, "ref": None, "special": False}
    sc.update(kw)
    return sc


def leftover_variants(rng, gen, quick):
    """(label, bytes) of leftover regular files"""
    n = len(gen)
    lens = list(range(0, 16)) + [n] + [rng.randrange(16, n) for _ in range(6 if quick else 200)]
    if quick:
        lens = list(range(0, 16)) + [n] + lens[-6:-3]
    out = [("prefix:%d" % k, gen[:k]) for k in lens]
    out.append(("foreign-bytes", bytes(rng.randrange(256) for _ in range(rng.choice([1, 50, 2000])))))
    out.append(("package-other", b"package other\n\nfunc X() {}\n"))
    out.append(("valid-unrelated-go", b"package main\n\nimport \"fmt\"\n\nfunc init() { fmt.Println(\"LEFTOVER RAN\") }\n"))
    out.append(("valid-magefile", b"//go:build mage\n\npackage main\n\nimport \"fmt\"\n\n// Extra is a target only the leftover defines.\nfunc Extra() { fmt.Println(\"CALL Extra\") }\n"))
    out.append(("nul-bytes", b"\x00" * 100))
    if not quick:
        out.append(("gen-with-flipped-byte", gen[:200] + b"#" + gen[201:]))
        out.append(("gen-without-tag", gen.replace(b"//go:build ignore\n// +build ignore\n", b"", 1)))
    return out


def build_scenarios(rng, gen, quick):
    S = []
    A = S.append
    # A: plain runs
    A(scenario("ok-build"))
    A(scenario("ok-say", args=["say", "hello"]))
    for m in ("error", "panic", "osexit"):
        A(scenario("target-" + m, fail=m))
    A(scenario("unknown-target", args=["nosuchtarget"]))
    A(scenario("missing-arg", args=["say"]))
    A(scenario("list", args=["-l"]))
    A(scenario("help-target", args=["-h", "build"]))
    A(scenario("imported-target", args=["tools:lint"]))
    A(scenario("no-import-project", with_import=False))
    A(scenario("workdir-sub", wflag="sub"))
    # B: broken magefiles
    for m in ("syntax-package", "nonmage-broken", "no-magefiles", "syntax-body", "dupe-case", "dupe-import", "bad-import", "type-error"):
        A(scenario("mut-" + m, mutation=m))
    # C: the go tool fails
    for p in ("fail:version", "fail:env", "fail:list", "fail:build", "corrupt:build"):
        A(scenario("go-" + p, plan=p))
    # a go tool that fails LATE / is slow: whatever Invoke does concurrently has time to happen
    for sub in ("version", "env", "list", "build"):
        for ms in ((300, 1000) if (not quick or sub in ("version", "env")) else (300,)):
            A(scenario("go-failafter:%s:%d" % (sub, ms), plan="failafter:%s:%d" % (sub, ms)))
    for sub in ("version", "env"):
        A(scenario("go-delay:%s:300" % sub, plan="delay:%s:300" % sub))
    A(scenario("keep-go-failafter:version:300", plan="failafter:version:300", keep=True))
    A(scenario("named-go-failafter:env:300", plan="failafter:env:300", layout="named"))
    if not quick:
        for sub in ("version", "env", "list"):
            A(scenario("debug-go-failafter:%s:300" % sub, plan="failafter:%s:300" % sub, debug=True))
            A(scenario("compile-go-failafter:%s:300" % sub, plan="failafter:%s:300" % sub, compile=True, args=[]))
            A(scenario("left-prefix:0@go-failafter:%s:300" % sub, plan="failafter:%s:300" % sub,
                       leftover={"kind": "file", "b64": "", "label": "prefix:0"}, ref="go-failafter:%s:300" % sub))
    for n in range(1, 7):
        A(scenario("go-failnth:%d" % n, plan="failnth:%d" % n))
    for n in range(1, 6):
        A(scenario("hash-failnth:%d" % n, plan="failnth:%d" % n, hashfast=True))
    dbg = range(1, 9) if not quick else sorted(rng.sample(range(1, 5), 1) + [5, 6, 7])
    for n in dbg:
        A(scenario("debug-failnth:%d" % n, plan="failnth:%d" % n, debug=True))
    if not quick:
        for n in range(1, 6):
            A(scenario("compile-failnth:%d" % n, plan="failnth:%d" % n, compile=True, args=[]))
        for p in ("fail:version", "fail:env", "fail:list", "fail:build", "corrupt:build"):
            A(scenario("hash-go-" + p, plan=p, hashfast=True))
            A(scenario("keep-go-" + p, plan=p, keep=True))
    # D: -keep
    A(scenario("keep-ok", keep=True))
    A(scenario("keep-ok-again", keep=True))
    A(scenario("keep-target-error", keep=True, fail="error"))
    A(scenario("keep-type-error", keep=True, mutation="type-error"))
    A(scenario("keep-syntax-body", keep=True, mutation="syntax-body"))
    A(scenario("keep-go-fail:list", keep=True, plan="fail:list"))
    # D2: -keep x every kind of failing command line x cached / rebuilding route: the generated file is there exactly when
    # generation was reached, and stdout / exit status are those of the compiled magefile itself for these words
    cmdlines = [("unknown-first", ["nosuchtarget"], None), ("unknown-after-valid", ["build", "nosuchtarget"], None),
                ("unknown-after-args", ["say", "hi", "nosuchtarget", "build"], None), ("missing-arg", ["build", "say"], None),
                ("surplus-arg", ["say", "a", "b"], None), ("unconvertible-arg", ["build", "count", "abc"], None),
                ("valid-args", ["count", "3", "say", "x"], None), ("failing-target", ["say", "x", "build"], "error"),
                ("panicking-target", ["build"], "panic"), ("exiting-target", ["build", "say", "never"], "osexit"),
                ("help-unknown", ["-h", "nosuchtarget"], None), ("list", ["-l"], None)]
    for cname, cargs, cfail in cmdlines:
        for route, kw in (("default", {}), ("hash-first", {"hashfast": True}), ("hash-cached", {"hashfast": True, "prewarm": True})):
            if quick and route == "hash-first" and cname not in ("unknown-first", "unknown-after-valid", "failing-target"):
                continue
            A(scenario("keep-cl-%s-%s" % (cname, route), keep=True, args=cargs, fail=cfail, **kw))
        A(scenario("cl-%s" % cname, args=cargs, fail=cfail))
    # M: the project's MODULE STATE x the go tool's module flags: go.mod, go.sum, go.work, vendor/ are files of the directory like
    # any other - byte for byte the same afterwards, whether the run builds or fails (under -mod=mod the go tool itself may
    # update go.mod/go.sum: that is what GOFLAGS asks it to do, recorded, not judged)
    for st in MODULE_STATES:
        for gf in GOFLAGS_VARIANTS:
            if quick and st in ("extra-unused-require", "go-older") and gf in ("-mod=readonly", "-mod=vendor"):
                continue
            A(scenario("module-%s/GOFLAGS=%s" % (st, gf or "unset"), module=st, goflags=gf, with_import=False))
    for st in ("replace-without-require", "vendor-inconsistent", "tidy"):
        A(scenario("keep-module-%s/GOFLAGS=unset" % st, module=st, goflags="", with_import=False, keep=True))
        if not quick:
            A(scenario("hash-module-%s/GOFLAGS=unset" % st, module=st, goflags="", with_import=False, hashfast=True))
            A(scenario("import-module-%s/GOFLAGS=-mod=readonly" % st, module=st, goflags="-mod=readonly", with_import=False, args=["-l"]))
    # E: hash mode, -f, -compile
    A(scenario("hash-first", hashfast=True))
    A(scenario("hash-cached", hashfast=True, prewarm=True))
    A(scenario("hash-cached-fail", hashfast=True, prewarm=True, fail="error"))
    A(scenario("hash-cached-force", hashfast=True, prewarm=True, force=True))
    A(scenario("hash-cached-keep", hashfast=True, prewarm=True, keep=True))
    A(scenario("compile", compile=True, args=[]))
    A(scenario("compile-hash", compile=True, hashfast=True, args=[]))
    A(scenario("compile-type-error", compile=True, mutation="type-error", args=[]))
    A(scenario("debug-ok", debug=True))
    # H: magefiles directory
    A(scenario("mfdir-ok", layout="mfdir"))
    A(scenario("mfdir-fail-build", layout="mfdir", plan="fail:build"))
    A(scenario("both-ok", layout="both", args=["top"]))
    # a directory that is itself called magefiles, given with -d: no "files without the mage tag" listing pass there
    A(scenario("named-ok", layout="named"))
    A(scenario("named-list", layout="named", args=["-l"]))
    A(scenario("named-fail-build", layout="named", plan="fail:build"))
    A(scenario("named-nonmage-broken", layout="named", mutation="nonmage-broken"))
    A(scenario("mfdir-nonmage-broken", layout="mfdir", mutation="nonmage-broken"))
    A(scenario("named-syntax-package", layout="named", mutation="syntax-package"))
    base_ids = [s["id"] for s in S]
    # F: leftovers
    lv = leftover_variants(rng, gen, quick)
    for label, b in lv:
        A(scenario("left-%s" % label, leftover={"kind": "file", "b64": base64.b64encode(b).decode(), "label": label}, ref="ok-build"))
    on = ["go-fail:build", "keep-ok", "target-error", "mut-syntax-body", "hash-cached", "go-fail:version", "compile", "mut-type-error"]
    if not quick:
        on = [i for i in base_ids if not i.startswith(("mfdir", "both", "named"))]
    for bid in on:
        base = next(s for s in S if s["id"] == bid)
        for label, b in ([lv[0], lv[rng.randrange(len(lv))]] if quick else rng.sample(lv, 9) + [lv[0]]):
            sc = dict(base)
            sc.update(id="left-%s@%s" % (label, bid), leftover={"kind": "file", "b64": base64.b64encode(b).decode(), "label": label}, ref=bid)
            A(sc)
    for where in ("top", "mfdir"):
        for label, b in ([lv[0], lv[-2]] if quick else lv[:6] + lv[-5:]):
            A(scenario("left-%s@mfdir-ok/%s" % (label, where), layout="mfdir", leftover={"kind": "file", "b64": base64.b64encode(b).decode(), "label": label},
                       leftover_where=where, ref="mfdir-ok"))
    A(scenario("left-prefix:0@both-ok/top", layout="both", args=["top"], leftover={"kind": "file", "b64": "", "label": "prefix:0"}, leftover_where="top", ref="both-ok"))
    # tagged magefiles in "." AND a magefiles/ directory holding a generated file (another mage may be running in there):
    # the run works in ".", succeeds, and leaves magefiles/ byte-identical
    for label, b in (("prefix:0", b""), ("generated", gen), ("foreign", b"package main // somebody else's\n")):
        A(scenario("unchosen-magefiles-dir-keeps-%s" % label, layout="both", args=["top"], must_succeed=True,
                   leftover={"kind": "file", "b64": base64.b64encode(b).decode(), "label": label}, leftover_where="mfdir"))
    A(scenario("unchosen-magefiles-dir-keeps-both", layout="both", args=["top"], must_succeed=True,
               leftover={"kind": "file", "b64": "", "label": "prefix:0"}, leftover_where="both"))
    A(scenario("left-prefix:0@named-ok/mfdir", layout="named", leftover={"kind": "file", "b64": "", "label": "prefix:0"}, leftover_where="mfdir", ref="named-ok"))
    # with -d magefiles the START directory is not the magefile directory: a file of that name there is the user's and stays
    A(scenario("userfile-in-start-dir@named-ok", layout="named", leftover={"kind": "file", "b64": base64.b64encode(b"package main // mine\n").decode(), "label": "user file"},
               leftover_where="top"))
    # G: something else of that name (not "a generated file left behind": observed, modelled, kept out of the oracle)
    A(scenario("special-dir", leftover={"kind": "dir"}, special=True))
    A(scenario("special-link-helper", leftover={"kind": "link", "target": "helper.go"}, special=True))
    A(scenario("special-link-data", leftover={"kind": "link", "target": "notes.txt"}, special=True))
    A(scenario("special-link-dangling", leftover={"kind": "link", "target": "nowhere.go"}, special=True))
    # I: SIGKILL
    A(scenario("crash-build", crash="build"))
    if not quick:
        for sub in ("version", "env", "list"):
            A(scenario("crash-" + sub, crash=sub))
        A(scenario("crash-build-keep", crash="build", keep=True))
        for i in range(24):
            A(scenario("crash-random-%d" % i, crash="random:%.3f" % (rng.random() * 0.25)))
    # J: the file system is full when the generated file is written
    A(scenario("enospc-0", enospc=0))
    A(scenario("enospc-4096", enospc=4096))
    A(scenario("enospc-4096-keep", enospc=4096, keep=True))
    if not quick:
        A(scenario("enospc-0-keep", enospc=0, keep=True))
        A(scenario("enospc-8192-hash", enospc=8192, hashfast=True))
    # K: the ENVIRONMENT makes the run fail (nothing is injected into mage or the go tool): the cache directory cannot be
    # created or written, the place of the executable is taken, the working directory is missing, the magefile directory is
    # read-only, HOME is unset.  In the code that exists each of them surfaces at one of the modelled steps (ENVFAULT_STEP).
    for ef in ("cache-parent-file", "cache-is-file", "cache-full", "cache-parent-ro", "workdir-missing", "exe-is-dir", "proj-ro", "home-unset"):
        A(scenario("env-" + ef, envfault=ef, prewarm=(ef == "exe-is-dir")))
    A(scenario("env-cache-parent-file-hash", envfault="cache-parent-file", hashfast=True))
    A(scenario("env-cache-is-file-hash", envfault="cache-is-file", hashfast=True))
    A(scenario("env-exe-is-dir-hash", envfault="exe-is-dir", hashfast=True, prewarm=True))
    A(scenario("env-cache-parent-file-keep", envfault="cache-parent-file", keep=True))
    A(scenario("env-cache-parent-file-list", envfault="cache-parent-file", args=["-l"]))
    A(scenario("env-home-unset-gocache", envfault="home-unset-gocache"))
    if not quick:
        A(scenario("env-cache-full-hash", envfault="cache-full", hashfast=True))
        A(scenario("env-cache-parent-ro-hash", envfault="cache-parent-ro", hashfast=True))
        A(scenario("env-workdir-missing-hash-cached", envfault="workdir-missing", hashfast=True, prewarm=True))
        A(scenario("env-proj-ro-keep", envfault="proj-ro", keep=True))
        A(scenario("env-cache-is-file-mfdir", envfault="cache-is-file", layout="mfdir"))
        A(scenario("env-cache-parent-file-debug", envfault="cache-parent-file", debug=True))
        for ef in ("cache-parent-file", "cache-is-file", "workdir-missing"):
            A(scenario("left-prefix:0@env-" + ef, envfault=ef, leftover={"kind": "file", "b64": "", "label": "prefix:0"}, ref="env-" + ef))
    # L: -compile <out> as a command of the fault scenarios: what is at the output path beforehand x where that path is x where the
    # run fails.  "start": -d magefiles with a relative path - the go tool resolves it against the -d directory, a file of that
    # name in the start directory is somebody else's.
    shapes = ["absent", "old-binary", "user-file", "directory", "symlink"]
    wheres = [("inside", "flat"), ("start", "named"), ("abs", "flat")]
    cfaults = [("ok", {}), ("type-error", {"mutation": "type-error"}), ("go-fail-build", {"plan": "fail:build"}),
               ("syntax-package", {"mutation": "syntax-package"}), ("syntax-body", {"mutation": "syntax-body"}),
               ("create-fails", {"leftover": {"kind": "dir"}, "special": True})]
    for where, layout in wheres:
        for shape in shapes:
            for fname, kw in cfaults:
                if quick and fname not in ("ok", "type-error") and shape != "user-file":
                    continue
                A(scenario("compile-%s-%s-%s" % (where, shape, fname), compile=True, args=[], layout=layout,
                           out={"where": where, "shape": shape}, leftover_where="mfdir" if layout == "named" else "top", **kw))
                if (not quick or (where == "inside" and shape == "user-file")) and fname in ("ok", "type-error"):
                    A(scenario("compile-%s-%s-%s-keep" % (where, shape, fname), compile=True, args=[], layout=layout, keep=True,
                               out={"where": where, "shape": shape}, **kw))
    seen, out = set(), []
    for s in S:                      # the random picks may name the same scenario twice
        if s["id"] not in seen:
            seen.add(s["id"])
            out.append(s)
    return out


# the flags of `mage -h` at /repo HEAD: anything else the tree under test offers is a knob no model knows
KNOWN_FLAGS = {"clean", "compile", "h", "init", "l", "version", "d", "debug", "f", "goarch", "gocmd", "goos", "ldflags", "keep", "t", "v", "w"}
KNOB_VALUES = ["1", "true", "1s", "@FILE", "vp-knob.out", "out/vp-knob.out"]


def discover_flags(mage, cwd):
    r = mage.run(cwd, ["-h"])
    found = set(re.findall(r"^\s+-([A-Za-z][A-Za-z0-9_-]*)", r["out"] + "\n" + r["err"], re.M))
    return sorted(found - KNOWN_FLAGS)


def knob_scenarios(S, env_knobs, flag_knobs, quick):
    """a representative slice of the life-cycle scenarios under every environment variable / flag that the tree under test
    knows and no model does: the magefile directory afterwards must be the one of the same run without the knob"""
    byid = {s["id"]: s for s in S}
    out = []
    bases = ["ok-build", "target-error", "keep-ok", "named-ok", "named-w", "mfdir-ok", "compile"]
    for kind, names in (("env", env_knobs), ("flag", flag_knobs)):
        for name in names:
            for val in KNOB_VALUES:
                for b in bases:
                    if b == "named-w":
                        base = dict(byid["named-ok"], wflag=".", id="named-w")
                        refid = None
                    else:
                        base, refid = byid[b], b
                    sc = dict(base, id="knob-%s:%s=%s@%s" % (kind, name, val, b), knob={"kind": kind, "name": name, "value": val}, ref=refid)
                    out.append(sc)
    return out


def place_leftover(d, sc):
    lo = sc["leftover"]
    if not lo:
        return
    dirs = {"top": [d], "mfdir": [os.path.join(d, "magefiles")], "both": [d, os.path.join(d, "magefiles")]}[sc["leftover_where"]]
    for dd in dirs:
        p = os.path.join(dd, MAIN)
        if lo["kind"] == "file":
            with open(p, "wb") as fh:
                fh.write(base64.b64decode(lo["b64"]))
        elif lo["kind"] == "dir":
            os.makedirs(p)
            with open(os.path.join(p, "inner.txt"), "w") as fh:
                fh.write("inner\n")
        elif lo["kind"] == "link":
            os.symlink(lo["target"], p)


OUT = "out.bin"


def out_real(sc):
    """where `go build -o` really writes: (tree, relative path). A relative path is resolved by the go tool, which runs in inv.Dir."""
    o = sc["out"]
    if o["where"] == "abs":
        return ("outdir", OUT)
    return ("proj", ("magefiles/" + OUT) if sc["layout"] == "named" else OUT)


def place_output(d, workdir, sc):
    o = sc.get("out")
    if not o:
        return
    outdir = os.path.join(workdir, "outdir")
    os.makedirs(outdir, exist_ok=True)
    with open(os.path.join(outdir, "other.txt"), "w") as fh:
        fh.write("something else in the output directory\n")
    dirs = {"inside": [d], "start": [d, os.path.join(d, "magefiles")], "abs": [outdir]}[o["where"]]
    for dd in dirs:
        p = os.path.join(dd, OUT)
        if o["shape"] == "old-binary":
            with open(p, "wb") as fh:
                fh.write(b"\x7fELF an earlier good build " + hashlib.sha1(dd.encode()).digest() * 20)
            os.chmod(p, 0o755)
        elif o["shape"] == "user-file":
            with open(p, "wb") as fh:
                fh.write(b"precious user data\n")
        elif o["shape"] == "directory":
            os.makedirs(p)
            with open(os.path.join(p, "inner.txt"), "w") as fh:
                fh.write("inner\n")
        elif o["shape"] == "symlink":
            with open(os.path.join(dd, "linked-user-file.txt"), "w") as fh:
                fh.write("the link's target\n")
            os.symlink("linked-user-file.txt", p)


def knob_concrete(sc, workdir):
    v = sc["knob"]["value"]
    if v == "@FILE":                                 # an absolute writable path outside the project
        os.makedirs(os.path.join(workdir, "knobout"), exist_ok=True)
        return os.path.join(workdir, "knobout", "knob.out")
    return v


def mage_args(sc, outbin):
    a = ["-d", "magefiles"] if sc["layout"] == "named" else []      # Invoke is GIVEN a directory called magefiles
    if sc.get("knob") and sc["knob"]["kind"] == "flag":
        a.append("-%s=%s" % (sc["knob"]["name"], knob_concrete(sc, os.path.dirname(outbin))))
    if sc["keep"]:
        a.append("-keep")
    if sc["force"]:
        a.append("-f")
    if sc["debug"]:
        a.append("-debug")
    if sc["compile"]:
        o = sc.get("out")
        a += ["-compile", outbin if not o else (os.path.join(os.path.dirname(outbin), "outdir", OUT) if o["where"] == "abs" else OUT)]
    if sc.get("wflag"):
        a += ["-w", sc["wflag"]]
    if sc.get("envfault") == "workdir-missing":
        a += ["-w", os.path.join(os.path.dirname(outbin), "no-such-workdir")]
    return a + list(sc["args"])


def run_env(sc, tools, log, plan=None):
    e = {"MAGEFILE_GOCMD": tools["fakego"], "VERIF_FAKEGO_REAL": tools["realgo"], "VERIF_FAKEGO_LOG": log,
         "VERIF_FAKEGO_PLAN": sc["plan"] if plan is None else plan}
    if sc["hashfast"]:
        e["MAGEFILE_HASHFAST"] = "1"
    if sc["fail"]:
        e["VERIF_FAIL"] = sc["fail"]
    if sc.get("goflags") is not None:
        e["GOFLAGS"] = sc["goflags"]                 # the go tool's module mode as the user's environment sets it
    if sc.get("knob") and sc["knob"]["kind"] == "env":
        e[sc["knob"]["name"]] = knob_concrete(sc, os.path.dirname(log))
    # the fake go tool looks whether the generated file exists while each go command runs
    d = os.path.join(os.path.dirname(log), "proj")
    e["VERIF_FAKEGO_WATCH"] = os.path.join(d, "magefiles", MAIN) if sc["layout"] in ("mfdir", "named") else os.path.join(d, MAIN)
    return e


def read_seen(log):
    """per go command of the run: did mage_output_file.go exist when it started or when it ended (as far as the wrapper sees)"""
    p = log + ".stat"
    if not os.path.exists(p):
        return None
    res = []
    for l in open(p).read().splitlines():
        w = l.split()
        if len(w) >= 3:
            res.append(w[-2] == "1" or w[-1] == "1")
    return res


def read_log(log):
    if not os.path.exists(log):
        return []
    return [l.strip() for l in open(log).read().splitlines() if l.strip()]


def cache_has_files(c):
    return os.path.isdir(c) and any(os.path.isfile(os.path.join(c, n)) for n in os.listdir(c))


def prepare_module(mage, tools, sc, d, workdir):
    """vendor/ directories are made by the real `go mod vendor`; then what the go tool ITSELF does with this module under these
    GOFLAGS is measured on a copy (go env GOCACHE, go build of the magefiles + a stub main): the model is told which step fails"""
    if sc["module"].startswith("vendor"):
        r = subprocess.run([tools["realgo"], "mod", "vendor"], cwd=d, env=mage.env({"GOFLAGS": "-mod=mod"}), stdout=subprocess.PIPE, stderr=subprocess.PIPE, timeout=120)
        mt = os.path.join(d, "vendor", "modules.txt")
        if r.returncode != 0 or not os.path.exists(mt):
            raise BuildError("go mod vendor failed: " + r.stderr.decode("utf-8", "replace")[-300:])
        if sc["module"] == "vendor-inconsistent":
            s = open(mt).read().replace("## explicit", "## explicit; go 1.3", 1).replace("v0.0.0", "v0.0.1", 1)
            open(mt, "w").write(s)
    ref = os.path.join(workdir, "modref")
    shutil.copytree(d, ref, symlinks=True)
    with open(os.path.join(ref, "zz_stub_main.go"), "w") as fh:
        fh.write("//go:build mage\n\npackage main\n\nfunc main() {}\n")
    env = mage.env({"GOFLAGS": sc["goflags"]} if sc.get("goflags") is not None else None)
    gofiles = sorted(n for n in os.listdir(ref) if n.endswith(".go") and n != "helper.go")
    res = {}
    for name, cmd in (("env", ["env", "GOCACHE"]), ("build", ["build", "-o", os.path.join(workdir, "modref.bin")] + gofiles)):
        p = subprocess.run([tools["realgo"]] + cmd, cwd=ref, env=env, stdout=subprocess.PIPE, stderr=subprocess.PIPE, timeout=180)
        res[name] = p.returncode
        res[name + "_err"] = p.stderr.decode("utf-8", "replace")[-200:]
    sc["_modref"] = res
    shutil.rmtree(ref, ignore_errors=True)


def run_scenario(mage, tools, sc, files, workdir):
    """Runs one scenario in its own copy of the project. Returns the observation dict."""
    d = os.path.join(workdir, "proj")
    cache = os.path.join(workdir, "cache")
    os.makedirs(cache)
    log = os.path.join(workdir, "go.log")
    outbin = os.path.join(workdir, "out.bin")
    ef = sc.get("envfault")
    if sc["enospc"] is not None or ef in ("cache-full", "cache-parent-ro", "proj-ro"):
        return run_enospc(mage, tools, sc, files, workdir)
    write_tree(d, files)
    if sc["prewarm"]:
        pre = dict(sc, plan="", fail=None, keep=False, force=False, leftover=None, envfault=None)
        r0 = mage.run(d, ["build"], env=run_env(pre, tools, os.path.join(workdir, "pre.log")), cache=cache)
        if r0["rc"] != 0:
            raise BuildError("prewarm run failed: " + r0["err"][-500:])
    if ef == "cache-parent-file":
        with open(os.path.join(workdir, "blocker"), "w") as fh:
            fh.write("a regular file where a directory is expected\n")
        cache = os.path.join(workdir, "blocker", "cache")
    elif ef == "cache-is-file":
        cache = os.path.join(workdir, "cachefile")
        with open(cache, "w") as fh:
            fh.write("a regular file where the cache directory is expected\n")
    elif ef == "exe-is-dir":
        for n in os.listdir(cache):                 # the place of the executable is taken by a directory
            p = os.path.join(cache, n)
            if os.path.isfile(p):
                os.remove(p)
                os.makedirs(p)
                with open(os.path.join(p, "inner.txt"), "w") as fh:
                    fh.write("x\n")
    if sc.get("module"):
        prepare_module(mage, tools, sc, d, workdir)
    place_leftover(d, sc)
    place_output(d, workdir, sc)
    outdir = os.path.join(workdir, "outdir")
    ob = {"before": snap(d), "before_h": tree_hash(d), "exe_cached": cache_has_files(cache) or (ef == "exe-is-dir" and sc["hashfast"])}
    if sc.get("out"):
        ob["out_before_h"] = tree_hash(outdir)
    args = mage_args(sc, outbin)
    if ef in ("home-unset", "home-unset-gocache"):
        e = mage.env(run_env(sc, tools, log), cache)
        e.pop("HOME", None)
        e.pop("MAGEFILE_CACHE", None)
        e.pop("XDG_CACHE_HOME", None)
        e["TMPDIR"] = os.path.join(workdir, "tmp")  # since 293a481 the cache falls back to os.TempDir()/.magefile: keep it private
        os.makedirs(e["TMPDIR"], exist_ok=True)
        if ef == "home-unset-gocache":
            e.update(tools["goenv"])                # the go tool itself keeps working (GOCACHE, GOPATH, GOMODCACHE given)
        p = subprocess.run([mage.bin] + args, cwd=d, env=e, stdin=subprocess.DEVNULL, stdout=subprocess.PIPE, stderr=subprocess.PIPE, timeout=180)
        ob.update(rc=p.returncode, out=p.stdout.decode("utf-8", "replace"), err=p.stderr.decode("utf-8", "replace"), log=read_log(log), seen=read_seen(log),
                  after=snap(d), after_h=tree_hash(d))
        return ob
    if sc["crash"]:
        gate = os.path.join(workdir, "gate")
        plan = ("block:%s:%s" % (sc["crash"], gate)) if not sc["crash"].startswith("random") else ""
        p = subprocess.Popen([mage.bin] + args, cwd=d, env=mage.env(run_env(sc, tools, log, plan=plan), cache), stdin=subprocess.DEVNULL,
                             stdout=subprocess.PIPE, stderr=subprocess.PIPE, start_new_session=True)
        if sc["crash"].startswith("random"):
            time.sleep(float(sc["crash"].split(":")[1]))
            reached = True
        else:
            t0 = time.time()
            reached = False
            while time.time() - t0 < 60 and p.poll() is None:
                if os.path.exists(gate + ".reached"):
                    reached = True
                    break
                time.sleep(0.01)
        try:
            os.killpg(p.pid, signal.SIGKILL)
        except ProcessLookupError:
            pass
        p.wait()
        p.stdout.close(); p.stderr.close()
        time.sleep(0.05)
        ob.update(rc=None, out="", err="", log=read_log(log), reached=reached, after=snap(d), after_h=tree_hash(d), killed_rc=p.returncode)
        mp = os.path.join(d, MAIN)
        if os.path.isfile(mp) and not os.path.islink(mp):
            ob["crash_main_b64"] = base64.b64encode(open(mp, "rb").read()).decode()
        # the next, complete run
        log2 = os.path.join(workdir, "go2.log")
        ob2_before, ob2_before_h = snap(d), tree_hash(d)
        sc2 = dict(sc, keep=False)
        r = mage.run(d, mage_args(sc2, outbin), env=run_env(sc2, tools, log2, plan=""), cache=cache)
        ob["next"] = {"before": ob2_before, "before_h": ob2_before_h, "rc": r["rc"], "out": r["out"], "err": r["err"], "log": read_log(log2),
                      "after": snap(d), "after_h": tree_hash(d), "exe_cached": False}
        return ob
    r = mage.run(d, args, env=run_env(sc, tools, log), cache=cache)
    ob.update(rc=r["rc"], out=r["out"], err=r["err"], log=read_log(log), seen=read_seen(log), after=snap(d), after_h=tree_hash(d))
    if sc.get("out"):
        ob["out_after_h"] = tree_hash(outdir)
    if sc["keep"]:
        for dd in (d, os.path.join(d, "magefiles")):
            p = os.path.join(dd, MAIN)
            if os.path.isfile(p) and not os.path.islink(p):
                ob["kept_b64"] = base64.b64encode(open(p, "rb").read()).decode()
    return ob


def run_enospc(mage, tools, sc, files, workdir):
    """the project on a tmpfs with exactly sc['enospc'] free bytes, inside a private mount namespace"""
    ef = sc.get("envfault")
    cache = os.path.join(workdir, "rodir", "cache") if ef == "cache-parent-ro" else os.path.join(workdir, "cache")
    req = {"files": files_to_json(files), "workdir": workdir, "free": sc["enospc"] if sc["enospc"] is not None else 0, "mode": ef or "proj-full",
           "mage": mage.bin, "env": mage.env(run_env(sc, tools, os.path.join(workdir, "go.log")), cache),
           "args": mage_args(sc, os.path.join(workdir, "out.bin"))}
    rq = os.path.join(workdir, "req.json")
    with open(rq, "w") as fh:
        json.dump(req, fh)
    try:
        p = subprocess.run(["unshare", "-m", sys.executable, os.path.abspath(__file__), "--enospc-helper", rq],
                           stdout=subprocess.PIPE, stderr=subprocess.PIPE, timeout=180)
    except (OSError, subprocess.TimeoutExpired) as ex:
        return {"skipped": "unshare: %s" % ex}
    if p.returncode != 0:
        return {"skipped": "enospc helper failed (no mount privilege?): " + p.stderr.decode("utf-8", "replace")[-300:]}
    ob = json.loads(p.stdout.decode())
    ob["log"] = read_log(os.path.join(workdir, "go.log"))
    ob["seen"] = read_seen(os.path.join(workdir, "go.log"))
    ob["exe_cached"] = False
    return ob


def enospc_helper(rq):
    req = json.load(open(rq))
    mode = req.get("mode", "proj-full")
    d = os.path.join(req["workdir"], "proj")
    os.makedirs(d)
    subprocess.run(["mount", "--make-rprivate", "/"], stderr=subprocess.DEVNULL)

    def must(cmd):
        r = subprocess.run(cmd, stderr=subprocess.PIPE)
        if r.returncode != 0:
            sys.stderr.write(r.stderr.decode())
            sys.exit(3)

    def fill(mp, free):
        # fill the file system until exactly `free` bytes are left
        with open(os.path.join(mp, "filler.bin"), "wb") as fh:
            while True:
                st = os.statvfs(mp)
                avail = st.f_bavail * st.f_frsize
                if avail <= free:
                    break
                fh.write(b"\0" * min(4096, avail - free))
                fh.flush()
    if mode == "proj-full":                          # the magefile directory is on a full file system
        must(["mount", "-t", "tmpfs", "-o", "size=512k", "tmpfs", d])
        write_tree(d, files_from_json(req["files"]))
        fill(d, req["free"])
    else:
        write_tree(d, files_from_json(req["files"]))
        if mode == "cache-full":                     # the cache directory is on a full file system
            c = os.path.join(req["workdir"], "cache")
            os.makedirs(c, exist_ok=True)
            must(["mount", "-t", "tmpfs", "-o", "size=512k", "tmpfs", c])
            fill(c, 0)
        elif mode == "cache-parent-ro":              # the cache directory does not exist and its parent is read-only
            ro = os.path.join(req["workdir"], "rodir")
            os.makedirs(ro, exist_ok=True)
            must(["mount", "--bind", ro, ro])
            must(["mount", "-o", "remount,ro,bind", ro])
        elif mode == "proj-ro":                      # the magefile directory itself is read-only
            must(["mount", "--bind", d, d])
            must(["mount", "-o", "remount,ro,bind", d])
    st = os.statvfs(d)
    ob = {"free_before": st.f_bavail * st.f_frsize, "before": snap(d), "before_h": tree_hash(d)}
    p = subprocess.run([req["mage"]] + req["args"], cwd=d, env=req["env"], stdin=subprocess.DEVNULL, stdout=subprocess.PIPE, stderr=subprocess.PIPE, timeout=120)
    ob.update(rc=p.returncode, out=p.stdout.decode("utf-8", "replace"), err=p.stderr.decode("utf-8", "replace"), after=snap(d), after_h=tree_hash(d))
    mp = os.path.join(d, MAIN)
    if os.path.isfile(mp):
        ob["left_b64"] = base64.b64encode(open(mp, "rb").read()).decode()
    sys.stdout.write(json.dumps(ob))


# ------------------------------------------------------------------------------------------------
# expectations fed to the model (which step fails) and projections of the observation
def step_of_log(entries, compile_mode):
    """the model step each go command of a run belongs to"""
    steps = []
    seen_version = compile_mode
    lists = 0
    for e in entries:
        if e == "version":
            steps.append("DbgVersion" if seen_version else "GoVersion")
            seen_version = True
        elif e == "env GOCACHE":
            steps.append("GoEnvGocache")
        elif e.startswith("env"):
            steps.append("DbgEnv")
        elif e == "list":
            steps.append("GoListDir" if lists % 2 == 0 else "GoListFiles")
            lists += 1
        elif e == "build":
            steps.append("GoBuild")
        else:
            steps.append("?" + e)
    return steps


# where an environment fault surfaces in the code that exists (the oracle does not use this: it only hashes the directory)
ENVFAULT_STEP = {
    "cache-parent-file": "GoBuild",      # go build -o <file>/cache/<hash>: mkdir ... not a directory
    "cache-is-file": "GoBuild",          # go build -o <file>/<hash>
    "cache-full": "GoBuild",             # go build cannot write the executable (ENOSPC)
    "cache-parent-ro": "GoBuild",        # go build cannot create the cache directory (EROFS)
    "home-unset": "GoBuild",             # cache = ./.magefile; the go tool has no build cache: go build fails (go env GOCACHE prints "off")
    "workdir-missing": "ExecBinary",     # exec: chdir to the -w directory fails
    "exe-is-dir": "ExecBinary",          # exec of a directory: permission denied (reused in hash mode, written into by go build otherwise)
    "proj-ro": "CreateMain",             # os.Create in a read-only directory (EROFS)
}


def expected_faults(sc, reflog, tcode):
    f = []
    m = sc["mutation"]
    f += {"syntax-package": ["ListMage"], "nonmage-broken": ["ListNonMage"], "no-magefiles": ["CheckFiles"], "syntax-body": ["Parse"],
          "dupe-case": ["Parse"], "dupe-import": ["Dupes"], "bad-import": ["GoListDir"], "type-error": ["GoBuild"]}.get(m, [])
    for d in sc["plan"].split(";"):
        p = d.split(":")
        if p[0] in ("fail", "failafter"):
            f += {"version": ["GoVersion", "DbgVersion"], "env": ["GoEnvGocache", "DbgEnv"], "list": ["GoListDir", "GoListFiles"], "build": ["GoBuild"]}[p[1]]
        elif p[0] == "failnth":
            st = step_of_log(reflog, sc["compile"])
            n = int(p[1])
            if n <= len(st):
                f.append(st[n - 1])
        elif p[0] == "corrupt":
            f.append("ExecBinary")
    if sc["enospc"] is not None:
        f.append("WriteMain")
    if sc.get("_modref"):
        if sc["_modref"]["env"] != 0:
            f.append("GoEnvGocache")
        elif sc["_modref"]["build"] != 0:
            f.append("GoBuild")
    if sc.get("envfault") in ENVFAULT_STEP:
        f.append(ENVFAULT_STEP[sc["envfault"]])
    if tcode:
        f.append("TargetOutcome")
    return f


STAGE_RX = [("SList", r"Error determining list of magefiles"), ("SNoFiles", r"No \.go files marked with the mage build tag"),
            ("SExeName", r"Error getting exe name"), ("SGoEnv", r"failed to run .* env GOCACHE"), ("SParse", r"Error parsing magefiles"),
            ("SCreate", r"error creating generated mainfile"),
            ("SWrite", r"can't execute mainfile template|error closing generated mainfile|error setting old modtime"),
            ("SBuild", r"error compiling magefiles"), ("SExec", r"failed to run compiled magefile")]


def stage_of(ob):
    err = "\n".join(l for l in ob["err"].splitlines() if not l.startswith("DEBUG:"))
    for name, rx in STAGE_RX:
        if re.search(rx, err):
            return name
    if ob["rc"] == 0 or "CALL " in ob["out"] or re.search(r"Unknown target specified|not enough arguments for target", err):
        return "SDone"
    return "SAny"


CALLS = {"version": "GVersion", "env GOCACHE": "GEnvGocache", "env": "GEnv", "list": "GList", "build": "GBuild"}


def world_term(ob, imports, tcode, gen_tok, partial_tok, lists=(True, True, True)):
    return ("{| w_fixed := true; w_cleanup := " + coq_bool(CLEANUP_AFTER_FAILED_GENERATION) + "; w_gen := %s; w_partial := %s; w_lists_ok := lists_fn %s %s %s; w_gocache := true; "
            "w_exe_cached := %s; w_imports := %d; w_tcode := %d |}") % (
        coq_str(gen_tok), coq_str(partial_tok), coq_bool(lists[0]), coq_bool(lists[1]), coq_bool(lists[2]),
        coq_bool(ob.get("exe_cached", False)), imports, tcode)


def flags_term(sc):
    return "{| f_keep := %s; f_force := %s; f_hashfast := %s; f_compile := %s; f_debug := %s; f_mfdir := false |}" % (
        coq_bool(sc["keep"]), coq_bool(sc["force"] or sc["compile"]), coq_bool(sc["hashfast"]), coq_bool(sc["compile"]), coq_bool(sc["debug"]))


def invoke_case(sc, ob, faults, imports, tcode, gen_tok, partial_tok, lists, crash=None):
    if sc.get("module") and (sc.get("goflags") is None or "-mod=mod" in sc["goflags"]):
        # under -mod=mod the go tool may update go.mod / go.sum (asked for by GOFLAGS, recorded in the evidence): not mage's, not the model's
        a2 = dict(ob["after"])
        for k in ("go.mod", "go.sum"):
            if k in ob["before"]:
                a2[k] = ob["before"][k]
            else:
                a2.pop(k, None)
        ob = dict(ob, after=a2)
    if sc["layout"] == "named":      # the directory Invoke is given is the sub-directory
        ob = dict(ob, before=ob["before"]["magefiles"][1], after=ob["after"]["magefiles"][1])
    if crash is None:
        seen = ob.get("seen")
        seen_t = "None" if (seen is None or len(seen) != len(ob["log"])) else "(Some %s)" % coq_list([coq_bool(b) for b in seen])
        obs = "{| ob_fs := %s; ob_exit := Some %d; ob_stage := %s; ob_calls := Some %s; ob_mainseen := %s |}" % (
            fs_term(ob["after"]), ob["rc"], stage_of(ob), coq_list([CALLS.get(e, "GVersion") for e in ob["log"]]), seen_t)
        cr = "None"
    else:
        obs = "{| ob_fs := %s; ob_exit := None; ob_stage := SAny; ob_calls := None; ob_mainseen := None |}" % fs_term(ob["after"])
        cr = "(Some %d)" % crash
    cout = "None"
    if sc.get("out") and sc["out"]["where"] != "abs":
        binb, inner = "bin", "inner"
        a = ob["after"].get(OUT)
        if a and a[0] == "f":
            binb = a[1]
        elif a and a[0] == "d":
            b0 = (ob["before"].get(OUT) or ("d", {}))[1]
            for n2, v2 in a[1].items():
                if v2[0] == "f" and b0.get(n2) != v2:
                    inner, binb = n2, v2[1]
        cout = "(Some (%s, %s, %s))" % (coq_str(OUT), coq_str(binb), coq_str(inner))
    return ("CInvoke {| c_world := %s; c_faults := %s; c_flags := %s; c_topnamed := %s; c_ohf := %s; c_crash := %s; c_out := " + cout + "; c_fs := %s; c_obs := %s |}") % (
        world_term(ob, imports, tcode, gen_tok, partial_tok, lists), coq_list(faults), flags_term(sc), coq_bool(sc["layout"] == "named"),
        coq_bool(sc["layout"] == "both"),
        cr, fs_term(ob["before"]), obs)


# ------------------------------------------------------------------------------------------------
# the property sentence, directly
def main_paths(sc):
    # "both": "." has magefiles of its own and is used; magefiles/ is not, and since 62b109f not touched either
    return {"flat": [MAIN], "mfdir": [MAIN, "magefiles/" + MAIN], "both": [MAIN],
            "named": ["magefiles/" + MAIN]}[sc["layout"]]   # with -d magefiles the start directory is not the magefile directory


def oracle_run(sc, ob, gen_hashes, ref_ob, binref=None):
    """list of violated clauses (strings) for one complete run"""
    bad = []
    if binref is not None and binref[1] is not None and (ob["rc"], ob["out"]) != binref:
        bad.append("mage %s: exit %s stdout %r, but the compiled magefile itself gives exit %s stdout %r for these words "
                   "(the targets in front of a failure run, the status is the program's)" % (
                       " ".join(sc["args"]), ob["rc"], ob["out"][:100], binref[0], (binref[1] or "")[:100]))
    expect = dict(ob["before_h"])
    lo = sc["leftover"]
    if lo and lo["kind"] == "file":
        for p in main_paths(sc):
            expect.pop(p, None)                       # a leftover generated file may (must) disappear
    after = dict(ob["after_h"])
    if sc.get("module") and (sc.get("goflags") is None or "-mod=mod" in sc["goflags"]):
        # GOFLAGS=-mod=mod: "update go.mod/go.sum as needed" is what the user asked the go tool for - not mage's doing
        for k in ("go.mod", "go.sum"):
            if expect.get(k) != after.get(k):
                ob.setdefault("modfiles_rewritten_under_mod_mod", []).append(k)
            expect.pop(k, None)
            after.pop(k, None)
    if sc.get("out"):
        # -compile <out>: on success exactly the output is (re)written; on any failure nothing that existed changes
        tree, real = out_real(sc)
        trees = {"proj": (expect, after), "outdir": (dict(ob["out_before_h"]), dict(ob["out_after_h"]))}
        ok = ob["rc"] == 0
        for tn, (e_, a_) in trees.items():
            if ok and tn == tree:
                under = [k for k in set(e_) | set(a_) if k == real or k.startswith(real + "/")]
                newf = [k for k in under if a_.get(k) not in (None, "dir") and not str(a_.get(k)).startswith("link:") and a_.get(k) != e_.get(k)]
                if not newf:
                    bad.append("mage -compile %s exited 0 but no new file is at (or in) the output path %s" % (sc["out"], real))
                for k in under:
                    e_.pop(k, None)
                    a_.pop(k, None)
            if tn == "outdir" and e_ != a_:
                diff = sorted(k for k in set(e_) | set(a_) if e_.get(k) != a_.get(k))
                bad.append("mage -compile (exit %s) changed the output directory beyond the output file: %s" % (ob["rc"], diff[:6]))
    kept = [p for p in main_paths(sc) if p in after and p not in expect]
    if sc["keep"]:
        for p in kept:
            if gen_hashes and after[p] not in gen_hashes:
                bad.append("with -keep the file left is not the generated file (differs from the one another run generates): %s" % p)
            after.pop(p)
        # with -keep the generated file stays whatever the outcome of the run, once generation was reached: i.e. whenever the
        # compiled magefile got to run (or to be started) and was not simply taken from the cache
        ran = "CALL " in ob["out"] or stage_of(ob) in ("SDone", "SExec")
        if ran and not kept and not (sc["hashfast"] and sc["prewarm"] and not sc["force"]):
            bad.append("with -keep, after a run that got as far as the compiled magefile (exit %s), no generated file is in the directory" % ob["rc"])
    if after != expect:
        diff = sorted(k for k in set(after) | set(expect) if after.get(k) != expect.get(k))
        if sc["enospc"] is not None and all(k in main_paths(sc) for k in diff):
            bad.append("after a failed write of the generated file (file system full) it remains in the magefile directory: %s" % diff)
        elif all(k in main_paths(sc) for k in diff) and all(k in after for k in diff):
            bad.append("a generated file remains in the magefile directory: %s" % diff)
        elif sc.get("out") and ob["rc"] != 0:
            bad.append("a failing mage -compile (exit %s) changed files that were there before: %s" % (ob["rc"], diff[:6]))
        else:
            bad.append("the directory was changed: %s" % diff[:6])
    # the failure points version / env GOCACHE / list lie BEFORE generation: while these go commands run no generated file exists
    # (judged on what the go-tool wrapper saw, independent of who wins a race)
    if ob.get("seen") and ob.get("log") and len(ob["seen"]) == len(ob["log"]) and not sc["special"]:
        first_build = ob["log"].index("build") if "build" in ob["log"] else len(ob["log"])
        pre = [e for e, s_ in list(zip(ob["log"], ob["seen"]))[:first_build] if s_ and (e in ("env GOCACHE", "list") or (e == "version" and not sc["debug"]))]
        if pre:
            bad.append("mage_output_file.go existed while `go %s` was running: generation has started before a step that can still fail without clean-up" % pre[0])
    if sc.get("must_succeed") and ob["rc"] != 0:
        bad.append("the run must succeed (what lies in a directory that is not used does not matter): exit %s %s" % (ob["rc"], ob["err"][-120:]))
    if ref_ob is not None:
        if ob["rc"] != ref_ob["rc"] or ob["out"] != ref_ob["out"]:
            bad.append("a leftover %s changed the result: exit %s stdout %r instead of exit %s stdout %r" % (
                (lo or {}).get("label", "generated file of a killed run"), ob["rc"], ob["out"][:80], ref_ob["rc"], ref_ob["out"][:80]))
        if ob["after_h"] != ref_ob["after_h"]:
            bad.append("after a run with a leftover the directory differs from the one after the same run without")
    return bad


# ------------------------------------------------------------------------------------------------
# -init and -clean
def init_clean_cases(ctx, mage, rng, quick):
    items, info = [], []
    root = os.path.join(ctx.tmp, "ic")
    os.makedirs(root)
    # the template -init writes: from a run in an empty directory
    ref = os.path.join(root, "ref")
    os.makedirs(ref)
    r = mage.run(ref, ["-init"])
    tpl = open(os.path.join(ref, "magefile.go"), "rb").read() if os.path.exists(os.path.join(ref, "magefile.go")) else b""
    n = 0

    def rand_files():
        f = {}
        for i in range(rng.choice([0, 1, 3])):
            f[rng.choice(["a.txt", "main.go", "sub/z.txt", "Makefile", "magefile.go.bak", "mage_output_file.go"]) if i else "other.go"] = \
                bytes(rng.randrange(256) for _ in range(rng.choice([0, 5, 100])))
        return f

    kinds = ["absent", "absent", "existing", "existing-empty", "existing-dir", "existing-dangling-link", "existing-link"]
    for k in kinds * (1 if quick else 6):
        n += 1
        d = os.path.join(root, "i%03d" % n)
        f = rand_files()
        if k == "existing":
            f["magefile.go"] = bytes(rng.randrange(256) for _ in range(rng.choice([1, 30, 500])))
        elif k == "existing-empty":
            f["magefile.go"] = b""
        elif k == "existing-dir":
            f["magefile.go"] = ("dir",)
        elif k == "existing-dangling-link":
            f["magefile.go"] = ("link", "nowhere.go")
        elif k == "existing-link":
            f["other2.go"] = b"package main\n"
            f["magefile.go"] = ("link", "other2.go")
        write_tree(d, f)
        b, bh = snap(d), tree_hash(d)
        r = mage.run(d, ["-init"])
        a, ah = snap(d), tree_hash(d)
        case = {"kind": "init", "state": k, "files": files_to_json(f)}
        if k == "absent":
            exp = dict(bh)
            exp["magefile.go"] = hashlib.sha1(tpl).hexdigest()
            if r["rc"] != 0 or ah != exp:
                ctx.violation({"kind": "oracle", "clause": "-init in a directory without magefile.go must create exactly magefile.go (exit 0)",
                               "rc": r["rc"], "diff": sorted(k2 for k2 in set(ah) | set(exp) if ah.get(k2) != exp.get(k2))[:6]}, case=case)
        else:
            if r["rc"] != 1 or ah != bh:
                ctx.violation({"kind": "oracle", "clause": "-init with an existing magefile.go must fail and leave everything unchanged",
                               "rc": r["rc"], "diff": sorted(k2 for k2 in set(ah) | set(bh) if ah.get(k2) != bh.get(k2))[:6]}, case=case)
        items.append("CInit false false %s %s %s %s %d" % (coq_str(tok(tpl)), coq_str("partial"), fs_term(b), fs_term(a), r["rc"] if r["rc"] >= 0 else 255))
        info.append(case)
    # -clean
    states = ["full", "full", "empty", "missing", "is-file"] * (1 if quick else 5)
    for k in states:
        n += 1
        top = os.path.join(root, "c%03d" % n)
        f = {"outside.txt": "sentinel %d\n" % rng.randrange(10**6), "outdir/keep.bin": bytes(rng.randrange(256) for _ in range(20)),
             "outdir/alsolink": ("link", "keep.bin")}
        if k == "full":
            for i in range(rng.choice([1, 3, 6])):
                f["cache/%040x" % rng.getrandbits(160)] = bytes(rng.randrange(256) for _ in range(rng.choice([0, 10, 1000])))
            f["cache/notes.txt"] = "x"
            f["cache/subdir/inner.bin"] = b"inner"
            f["cache/subdir/deeper/d.txt"] = b"d"
            f["cache/emptydir"] = ("dir",)
            f["cache/link-to-file"] = ("link", "notes.txt")
            f["cache/link-to-dir"] = ("link", "subdir")
            f["cache/link-outside"] = ("link", "../outside.txt")
            f["cache/link-dangling"] = ("link", "nothing")
        elif k == "empty":
            f["cache"] = ("dir",)
        elif k == "is-file":
            f["cache"] = b"not a directory"
        write_tree(top, f)
        b, bh = snap(top), tree_hash(top)
        r = mage.run(top, ["-clean"], cache=os.path.join(top, "cache"))
        a, ah = snap(top), tree_hash(top)
        exp = {p: v for p, v in bh.items() if not (p.startswith("cache/") and p.count("/") == 1 and v != "dir")}
        exp_rc = 1 if k == "is-file" else 0
        case = {"kind": "clean", "state": k, "files": files_to_json(f)}
        if ah != exp or r["rc"] != exp_rc:
            diff = sorted(k2 for k2 in set(ah) | set(exp) if ah.get(k2) != exp.get(k2))
            ctx.violation({"kind": "oracle", "clause": "-clean must remove exactly the non-directory entries directly inside the cache directory",
                           "rc": r["rc"], "diff": diff[:8]}, case=case)
        items.append("CClean %s %s %s %d" % (coq_str("cache"), fs_term(b), fs_term(a), r["rc"] if r["rc"] >= 0 else 255))
        info.append(case)
    return items, info


# ------------------------------------------------------------------------------------------------
# every COMMAND that is not a run x everything that can lie around under the generated file's name
LEFT_SHAPES = ["none", "regular-junk", "kept-generated", "directory", "link-to-file", "link-dangling"]
COMMANDS = ["init-absent", "init-existing", "clean", "version", "help", "bad-flag", "clean-with-words"]


def command_cases(ctx, mage, rng, quick, gen):
    """-init / -clean / -version / -h / rejected command lines, in the start directory or with -d sub, with a regular file,
    a file kept by -keep, a directory or a symbolic link named mage_output_file.go lying in the start directory, in sub and in
    the cache directory.  Everything (start directory, sub, cache, a sentinel outside) is snapshotted.
    The model: init_cmd / clean_cmd say what may change; for the rest nothing may (CNoop)."""
    items, info = [], []
    root = os.path.join(ctx.tmp, "cmd")
    os.makedirs(root)
    n = 0
    combos = [(c, s, dflag) for c in COMMANDS for s in LEFT_SHAPES for dflag in (False, True)]
    if quick:
        combos = [x for x in combos if x[1] != "none" or x[0] in ("init-absent", "clean")]
    for cmd, shape, dflag in combos:
        n += 1
        top = os.path.join(root, "k%03d" % n)

        def shape_files(prefix):
            if shape == "none":
                return {}
            if shape == "regular-junk":
                return {prefix + MAIN: bytes(rng.randrange(256) for _ in range(rng.choice([0, 7, 300])))}
            if shape == "kept-generated":
                return {prefix + MAIN: gen}
            if shape == "directory":
                return {prefix + MAIN + "/inner.txt": b"inner\n"}
            if shape == "link-to-file":
                return {prefix + MAIN: ("link", "other.go")}
            return {prefix + MAIN: ("link", "nowhere.go")}
        f = {"outside.txt": "sentinel %d\n" % rng.randrange(10**6),
             "proj/other.go": b"package main\n", "proj/data.bin": bytes(rng.randrange(256) for _ in range(30)),
             "proj/sub/other.go": b"package sub\n", "proj/sub/notes.txt": b"n\n",
             "cache/%040x" % rng.getrandbits(160): b"binary", "cache/keepdir/x": b"x"}
        # canaries in every directory the command can see: start directory, -d directory, -w directory, their parent, HOME, TMPDIR
        for pfx, mfd in (("", True), ("proj/", False), ("proj/sub/", True), ("proj/work/", True), ("home/", True), ("tmp/", True)):
            f.update(canaries(rng, pfx, with_magefiles_dir=mfd))
        f.update(shape_files("proj/"))
        f.update(shape_files("proj/sub/"))
        f.update(shape_files("cache/"))
        target = "proj/sub/" if dflag else "proj/"
        if cmd == "init-existing":
            f[target + "magefile.go"] = bytes(rng.randrange(256) for _ in range(rng.choice([0, 20, 200])))
        write_tree(top, f)
        args = {"init-absent": ["-init"], "init-existing": ["-init"], "clean": ["-clean"], "version": ["-version"], "help": ["-h"],
                "bad-flag": ["-nosuchflag"], "clean-with-words": ["-clean", "build"]}[cmd]
        if dflag:
            args = ["-d", "sub"] + (["-w", "work"] if n % 2 else []) + args
        b, bh = snap(top), tree_hash(top)
        r = mage.run(os.path.join(top, "proj"), args, cache=os.path.join(top, "cache"),
                     env={"HOME": os.path.join(top, "home"), "TMPDIR": os.path.join(top, "tmp")})
        a, ah = snap(top), tree_hash(top)
        case = {"kind": "cmd", "command": cmd, "shape": shape, "dflag": dflag, "args": args}
        exp = dict(bh)
        exp_rc = 0
        if cmd == "init-absent":
            exp[target + "magefile.go"] = ah.get(target + "magefile.go", "missing")
        elif cmd == "init-existing":
            exp_rc = 1
        elif cmd == "clean":
            exp = {p2: v for p2, v in bh.items() if not (p2.startswith("cache/") and p2.count("/") == 1 and v != "dir")}
        elif cmd in ("bad-flag", "clean-with-words"):
            exp_rc = 2
        if ah != exp or r["rc"] != exp_rc:
            diff = sorted(k2 for k2 in set(ah) | set(exp) if ah.get(k2) != exp.get(k2))
            ctx.violation({"kind": "oracle", "clause": "mage %s (exit %s, expected %s) may only %s; changed: %s" % (
                " ".join(args), r["rc"], exp_rc,
                {"init-absent": "create magefile.go", "init-existing": "fail and change nothing",
                 "clean": "remove the non-directory entries directly inside the cache directory"}.get(cmd, "change nothing"), diff[:6]),
                "command": cmd, "leftover": shape}, case=case)
        # the model
        if cmd == "clean":
            items.append("CClean %s %s %s %d" % (coq_str("cache"), fs_term(b), fs_term(a), r["rc"] & 255))
        elif cmd.startswith("init"):
            def sub_of(s, path):
                for c in [x for x in path.split("/") if x]:
                    s = s[c][1]
                return s
            tb, ta = sub_of(b, target), sub_of(a, target)
            tplb = b""
            mp = os.path.join(top, target, "magefile.go")
            if cmd == "init-absent" and os.path.isfile(mp):
                tplb = open(mp, "rb").read()
            items.append("CInit false false %s %s %s %s %d" % (coq_str(tok(tplb)), coq_str("partial"), fs_term(tb), fs_term(ta), r["rc"] & 255))
            info.append(case)

            def drop(s, path):
                s = json.loads(json.dumps(s))
                cur = s
                for c in [x for x in path.split("/") if x]:
                    cur = cur[c][1]
                cur.pop("magefile.go", None)
                return s
            rb, ra = drop(b, target), drop(a, target)
            items.append("CNoop %s %s" % (fs_term(rb), fs_term(ra)))
        else:
            items.append("CNoop %s %s" % (fs_term(b), fs_term(a)))
        info.append(case)
    return items, info


# ------------------------------------------------------------------------------------------------
def unitrun_list(binp, req):
    rc, out, err = sh([binp], input=(json.dumps({"op": "listprefix", "raw": req}) + "\n").encode(), timeout=1200)
    if rc != 0 or not out.strip():
        raise BuildError("unitrun listprefix failed: " + err[-1000:])
    return json.loads(out.splitlines()[0])


MAX_REPORTED = 6


def run(ctx):
    ctx.prove(["Props/C09.vo", "Run/eval_C09.vo"], extra_props=["Compose_C09_C20"])   # + composition C09 <-> C20 (a solo invocation of Procs is Lifecycle's run: same steps, effect, status)
    import extractlib; extractlib.fn_tie(ctx, "C09")   # Invocation.UsesMagefiles re-translated from the tree and proved equal to the flag the models take (DESIGN 3.5)
    import extractlib; extractlib.tables_tie(ctx, ['mainfile', 'initFile', 'MagefilesDirName'])   # literal data of the source re-proved equal to the models' (DESIGN 3.5)
    real_violation = ctx.violation
    suppressed = [0]

    def capped(what, case=None, found_input=True, extra=None):
        # the first few failing inputs are enough; the rest is counted
        if what.get("kind") == "oracle" and ctx.match_known(what) is None and len(ctx.violations) >= MAX_REPORTED:
            suppressed[0] += 1
            ctx.coverage["further_violations_not_reported"] = suppressed[0]
            return None
        return real_violation(what, case=case, found_input=found_input, extra=extra)
    ctx.violation = capped
    ctx.trusted_base += ["harness/fakego (wrapper around the real go tool: log, injected failures, gate)",
                         "harness/unitrun op listprefix (in-process mage.Magefiles on a directory with a given mage_output_file.go)",
                         "checks/c09.py + lib/projlib.py (project generator, scenario runner, snapshots, Coq printer, oracle)",
                         "the mapping scenario -> failing step of the model (expected_faults) and stderr -> diagnostic class (stage_of)",
                         "tmpfs/unshare for the full-disk scenario; SIGKILL delivered to the process group",
                         "extractlib / harness/extract: Invocation.UsesMagefiles and the names mainfile, initFile, MagefilesDirName are re-translated "
                         "from the tree and proved equal to what the models take (fn_tie, tables_tie)",
                         "lib/depslib.discover_knobs (which environment variables the tree reads) and the parsing of `mage -h` (which flags it has)"]
    rng = ctx.rng
    quick = ctx.quick
    mage = projlib.Mage(ctx)
    tools = {"fakego": go_build_harness(ctx, "fakego", tags=None), "realgo": shutil.which("go")}
    rc_, o_, _ = sh(["go", "env", "GOCACHE", "GOPATH", "GOMODCACHE"], env=goenv(), timeout=60)
    tools["goenv"] = dict(zip(["GOCACHE", "GOPATH", "GOMODCACHE"], o_.splitlines())) if rc_ == 0 else {}
    unitrun = go_build_harness(ctx, "unitrun")
    cov = ctx.coverage
    work = os.path.join(ctx.tmp, "sc")
    os.makedirs(work)

    # ---- the really generated file and the binary's own exit codes: from a reference project
    proj_seed = rng.getrandbits(64)
    if ctx.replay and ctx.replay.get("case") and ctx.replay["case"].get("proj_seed") is not None:
        proj_seed = ctx.replay["case"]["proj_seed"]

    def files_for(sc):
        import random
        return gen_project(random.Random("%d/%s/%s/%s" % (proj_seed, sc["layout"], sc["with_import"], sc["mutation"])),
                           sc["layout"], sc["with_import"], sc["mutation"], sc.get("module"))

    refsc = scenario("reference", keep=True)
    wd = os.path.join(work, "reference")
    os.makedirs(wd)
    ob = run_scenario(mage, tools, refsc, files_for(refsc), wd)
    if ob["rc"] != 0:
        raise BuildError("reference run (-keep build) failed: rc=%s %s" % (ob["rc"], ob["err"][-800:]))
    if "kept_b64" not in ob:
        # -keep did not leave mage_output_file.go: judge this run, then go on with whatever file appeared
        for c in oracle_run(refsc, ob, None, None):
            ctx.violation({"kind": "oracle", "clause": c, "scenario": "reference (-keep build)"}, case={"scenario": dict(refsc, id="keep-ok"), "proj_seed": proj_seed})
        new = sorted(p for p in ob["after_h"] if p not in ob["before_h"] and ob["after_h"][p] not in ("dir",) and not ob["after_h"][p].startswith("link:"))
        ob["kept_b64"] = base64.b64encode(open(os.path.join(wd, "proj", new[0]), "rb").read() if new else b"//go:build ignore\n\npackage main\n\nfunc main() {}\n" * 20).decode()
    gen = base64.b64decode(ob["kept_b64"])
    ref_kept = ob["kept_b64"]
    gen_tok = tok(gen)
    gen_hashes = {hashlib.sha1(gen).hexdigest()}
    reflogs = {}

    # exit status of the compiled binary itself (not through mage): the value of w_tcode
    tcache = {}

    def tcode_of(sc):
        if sc["mutation"] in ("syntax-package", "nonmage-broken", "no-magefiles", "syntax-body", "dupe-case", "dupe-import", "bad-import", "type-error") or sc["compile"]:
            return 0
        lay = "mfdir" if sc["layout"] == "named" else sc["layout"]      # the same package, reached by -d
        key = (lay, sc["with_import"], tuple(sc["args"]), sc["fail"])
        if key in tcache:
            return tcache[key]
        bkey = (lay, sc["with_import"])
        if bkey not in tcache:
            wd = os.path.join(work, "bin-%s-%s" % bkey)
            os.makedirs(wd)
            d = os.path.join(wd, "proj")
            write_tree(d, files_for(scenario("x", layout=lay, with_import=sc["with_import"])))
            outb = os.path.join(wd, "static.bin")
            r = mage.run(d, ["-compile", outb], cache=os.path.join(wd, "cache"))
            if r["rc"] != 0:
                raise BuildError("mage -compile of the reference project failed: " + r["err"][-800:])
            tcache[bkey] = (outb, d)
        outb, d = tcache[bkey]
        env = {"VERIF_FAIL": sc["fail"]} if sc["fail"] else {}
        r = mage.run(d, list(sc["args"]), env=env, exe=outb)
        tcache[key] = r["rc"]
        tcache[("out",) + key] = r["out"]
        return r["rc"]

    def bin_ref(sc):
        """(exit status, stdout) of the compiled magefile itself for this command line, or None where it does not get to run"""
        if (sc["mutation"] or sc["plan"] or sc["compile"] or sc.get("envfault") or sc["enospc"] is not None or sc["crash"] or sc["special"]
                or any(a.startswith("-") for a in sc["args"])
                or (sc.get("_modref") and (sc["_modref"]["env"] != 0 or sc["_modref"]["build"] != 0))):
            return None
        rc = tcode_of(sc)
        lay = "mfdir" if sc["layout"] == "named" else sc["layout"]
        return (rc, tcache.get(("out", lay, sc["with_import"], tuple(sc["args"]), sc["fail"])))

    # ---- scenarios
    if ctx.replay and ctx.replay.get("case") and ctx.replay["case"].get("scenario"):
        scs = [ctx.replay["case"]["scenario"]]
        if ctx.replay["case"].get("ref_scenario"):
            scs.insert(0, ctx.replay["case"]["ref_scenario"])
    elif ctx.replay and ctx.replay.get("case") and ctx.replay["case"].get("kind") in ("init", "clean", "cmd"):
        scs = []
    else:
        scs = build_scenarios(rng, gen, quick)
        # knob discovery: environment variables and flags of the tree under test that no model knows (none at HEAD)
        import depslib
        env_knobs = depslib.discover_knobs()
        flag_knobs = discover_flags(mage, ctx.tmp)
        cov["knobs_discovered"] = {"env": env_knobs, "flags": flag_knobs}
        scs += knob_scenarios(scs, env_knobs, flag_knobs, quick)
    byid = {s["id"]: s for s in scs}
    for s in scs:
        tcode_of(s)                                   # sequential: builds the static binaries once

    def do(sc):
        wd = os.path.join(work, re.sub(r"[^A-Za-z0-9_.-]", "_", sc["id"]))
        os.makedirs(wd)
        try:
            return run_scenario(mage, tools, sc, files_for(sc), wd)
        except BuildError:
            raise
    t0 = time.time()
    obs = dict(zip([s["id"] for s in scs], pmap(do, scs)))
    ctx.log("%d scenarios run in %.1fs" % (len(scs), time.time() - t0))

    # reference go-call logs per configuration (for failnth)
    def cfg(sc):
        return (sc["layout"], sc["with_import"], sc["hashfast"], sc["compile"], sc["debug"])
    for s in scs:
        o = obs[s["id"]]
        if not s["plan"] and not s["mutation"] and not s["leftover"] and not s["crash"] and s["enospc"] is None and not s["prewarm"] and not s.get("envfault") and o.get("rc") == 0:
            reflogs.setdefault(cfg(s), o["log"])
    missing = [s for s in scs if "failnth" in s["plan"] and cfg(s) not in reflogs]
    for s in missing:
        if cfg(s) in reflogs:
            continue
        base = scenario("reflog", layout=s["layout"], with_import=s["with_import"], hashfast=s["hashfast"], compile=s["compile"], debug=s["debug"],
                        args=[] if s["compile"] else ["build"])
        wd = os.path.join(work, "reflog-%d" % len(reflogs))
        os.makedirs(wd)
        reflogs[cfg(s)] = run_scenario(mage, tools, base, files_for(base), wd)["log"]

    # go/build's verdict on a non-regular mage_output_file.go (the model's w_lists_ok for Dir / Link)
    def lists_for(sc):
        if not sc["special"]:
            return (True, True, True)
        wd = os.path.join(work, "lists-" + re.sub(r"[^A-Za-z0-9_.-]", "_", sc["id"]))
        d = os.path.join(wd, "proj")
        write_tree(d, files_for(sc))
        place_leftover(d, sc)
        r = unitrun_list(unitrun, {"dir": d, "asis": True})
        ok = r["ok"] == "1"
        return (True, ok, ok)

    items, meta = [], []
    dist = {"stage": {}, "exit": {}, "leftover": {}, "faults": {}}
    notes = []
    enospc_done = 0
    for sc in scs:
        ob = obs[sc["id"]]
        if ob.get("skipped"):
            ctx.notes.append("scenario %s skipped: %s" % (sc["id"], ob["skipped"]))
            cov["enospc"] = "skipped: " + ob["skipped"][:200]
            continue
        imports = 1 if sc["with_import"] and sc["mutation"] != "no-magefiles" and sc["layout"] != "both" else 0
        case = {"scenario": sc, "proj_seed": proj_seed, "ref_scenario": byid.get(sc["ref"]) if sc["ref"] else None}
        if sc["crash"]:
            nx = ob["next"]
            if sc["crash"].startswith("random"):
                k = None
            else:
                k = STEPS.index({"version": "GoVersion", "env": "GoEnvGocache", "list": "GoListDir", "build": "GoBuild"}[sc["crash"]])
                if not ob["reached"]:
                    ctx.notes.append("crash scenario %s: the gate was not reached" % sc["id"])
                    continue
            # oracle: user files untouched by the killed run; the next run behaves like a clean run
            ub = {p: v for p, v in ob["before_h"].items() if p not in main_paths(sc)}
            ua = {p: v for p, v in ob["after_h"].items() if p not in main_paths(sc)}
            if ub != ua:
                ctx.violation({"kind": "oracle", "clause": "a killed run changed files other than the generated one",
                               "diff": sorted(x for x in set(ua) | set(ub) if ua.get(x) != ub.get(x))[:6]}, case=case)
            refob = obs.get("ok-build")
            sc_next = dict(sc, keep=False, leftover={"kind": "file", "label": "generated file of a killed run"} if MAIN in nx["before_h"] else None)
            nxo = dict(nx)
            for c in oracle_run(sc_next, nxo, gen_hashes, refob):
                ctx.violation({"kind": "oracle", "clause": c, "after": "SIGKILL at " + sc["crash"]}, case=case)
            if k is not None:
                items.append(invoke_case(sc, ob, [], imports, 0, gen_tok, "partial", (True, True, True), crash=k))
                meta.append((sc, "crash"))
            else:
                # any crash point: the directory must be one the model can be in after some number of steps.  The template is
                # written in many small writes: a kill in the MIDDLE of the WriteMain step leaves a proper prefix of the
                # generated file - for the model that is the state between CreateMain and the end of WriteMain (File "")
                left = base64.b64decode(ob.get("crash_main_b64", ""))
                if 0 < len(left) < len(gen) and gen.startswith(left):
                    cov["kills_in_the_middle_of_the_write"] = cov.get("kills_in_the_middle_of_the_write", 0) + 1
                    ob = dict(ob, after=dict(ob["after"], **{MAIN: ("f", "")}))
                    nx = dict(nx, before=dict(nx["before"], **{MAIN: ("f", "")}))
                cands = [invoke_case(sc, ob, [], imports, 0, gen_tok, "partial", (True, True, True), crash=kk) for kk in range(0, 25)]
                items.append(("ANY", cands))
                meta.append((sc, "crash-any"))
            items.append(invoke_case(dict(sc, keep=False), nx, [], imports, 0, gen_tok, "partial", (True, True, True)))
            meta.append((sc, "after-crash"))
            dist["leftover"]["after-kill"] = dist["leftover"].get("after-kill", 0) + 1
            continue
        if sc.get("knob"):
            # the same run without the knob is the reference: same exit status, same magefile directory.  A file at a RELATIVE knob
            # value in the START directory is the knob's own output when the start directory is not the magefile directory
            kb = sc["knob"]
            refo = obs.get(sc["ref"]) if sc["ref"] else obs.get("named-ok")
            allowed = set()
            if sc["layout"] in ("named", "mfdir") and not kb["value"].startswith("@") and "/" != kb["value"][:1]:
                parts = kb["value"].split("/")
                allowed = {"/".join(parts[:i + 1]) for i in range(len(parts))}
            a_ = {k: v for k, v in ob["after_h"].items() if k not in allowed}
            r_ = {k: v for k, v in (refo or {"after_h": ob["before_h"]})["after_h"].items() if k not in allowed}
            if sc["keep"]:
                for k in main_paths(sc):
                    a_.pop(k, None); r_.pop(k, None)
            diff = sorted(k for k in set(a_) | set(r_) if a_.get(k) != r_.get(k))
            if diff:
                ctx.violation({"kind": "oracle", "clause": "with %s %s=%s the directory afterwards differs from the same run without it: %s" % (
                    "the environment variable" if kb["kind"] == "env" else "the flag -", kb["name"], kb["value"], diff[:6]), "scenario": sc["id"]}, case=case)
            elif refo is not None and kb["kind"] == "env" and ob["rc"] != refo["rc"]:
                ctx.violation({"kind": "oracle", "clause": "with the environment variable %s=%s the exit status is %s instead of %s" % (
                    kb["name"], kb["value"], ob["rc"], refo["rc"]), "scenario": sc["id"]}, case=case)
            continue
        if sc.get("envfault") == "home-unset-gocache" and not JUDGE_HOME_UNSET_CACHE:
            ch = sorted(p for p in set(ob["before_h"]) | set(ob["after_h"]) if ob["before_h"].get(p) != ob["after_h"].get(p))
            notes.append({"scenario": sc["id"], "exit": ob["rc"], "changed_paths": ch[:4]})
            continue
        tcode = tcode_of(sc)
        faults = expected_faults(sc, reflogs.get(cfg(sc), []), tcode)
        partial_tok = "partial"
        if sc["enospc"] is not None:
            left = base64.b64decode(ob.get("left_b64", "")) if "left_b64" in ob else None
            enospc_done += 1
            if left is not None:
                partial_tok = tok(left)
                if not gen.startswith(left):
                    ctx.notes.append("enospc: the file left is not a prefix of the generated file")
        ref_ob = obs.get(sc["ref"]) if sc["ref"] else None
        if sc["special"]:
            # not a generated file left behind: observed and modelled, not judged
            ch = sorted(p for p in set(ob["before_h"]) | set(ob["after_h"]) if ob["before_h"].get(p) != ob["after_h"].get(p))
            notes.append({"scenario": sc["id"], "exit": ob["rc"], "stage": stage_of(ob), "changed_paths": ch})
            if sc["leftover"]["kind"] == "dir":
                # a directory of that name and what is in it are the user's: they must stay (mage cannot run there, exit 1)
                for c in oracle_run(dict(sc, leftover=None), ob, None, None):
                    ctx.violation({"kind": "oracle", "clause": c, "scenario": sc["id"]}, case=case)
        else:
            comparable = sc["layout"] == "flat" and sc["with_import"] and not sc["mutation"] and not sc["compile"]   # -compile: the binary's name is in the text
            for c in oracle_run(sc, ob, gen_hashes if comparable else None, ref_ob, bin_ref(sc)):
                ctx.violation({"kind": "oracle", "clause": c, "scenario": sc["id"]}, case=case)
        lists = lists_for(sc)
        # the bytes the template writes for THIS package (their content is C18's subject, not C09's)
        my_gen = tok(base64.b64decode(ob["kept_b64"])) if ob.get("kept_b64") else gen_tok
        items.append(invoke_case(sc, ob, faults, imports, tcode, my_gen, partial_tok, lists))
        meta.append((sc, "run"))
        st = stage_of(ob)
        dist["stage"][st] = dist["stage"].get(st, 0) + 1
        dist["exit"][str(ob["rc"])] = dist["exit"].get(str(ob["rc"]), 0) + 1
        for f in faults or ["none"]:
            dist["faults"][f] = dist["faults"].get(f, 0) + 1
        if sc["leftover"]:
            lab = sc["leftover"].get("label", sc["leftover"]["kind"]).split(":")[0]
            dist["leftover"][lab] = dist["leftover"].get(lab, 0) + 1
    # -keep: byte-identical across runs
    keeps = {o["kept_b64"] for o in obs.values() if o.get("kept_b64")}
    flat_keeps = {obs[s["id"]]["kept_b64"] for s in scs if s["keep"] and s["layout"] == "flat" and s["with_import"] and not s["mutation"] and not s["compile"] and obs[s["id"]].get("kept_b64")}
    if len(flat_keeps | {ref_kept}) > 1:
        ctx.violation({"kind": "oracle", "clause": "the file kept by -keep differs between runs on the same magefiles"}, case={"scenario": byid.get("keep-ok"), "proj_seed": proj_seed})

    # ---- what go/build says about every state of an interrupted write (the model's lists_ok), and the ignore tag
    sweep_dir = os.path.join(work, "sweep")
    sw = scenario("sweep")
    swf = {k: v for k, v in files_for(sw).items() if k.endswith(".go") and "/" not in k}
    n = len(gen)
    if quick:
        lens = sorted(set(list(range(0, 40)) + [n] + [rng.randrange(40, n) for _ in range(160)]))
        chunks = [lens]
    else:
        allk = list(range(0, n + 1))
        chunks = [allk[i::NCPU] for i in range(NCPU)]
    others = [b for _, b in leftover_variants(rng, gen, True)[-5:]]

    def sweep(i):
        d = os.path.join(sweep_dir, "d%d" % i)
        write_tree(d, swf)
        return unitrun_list(unitrun, {"dir": d, "base": base64.b64encode(gen).decode(), "lens": chunks[i],
                                      "others": [base64.b64encode(o).decode() for o in others] if i == 0 else []})
    t0 = time.time()
    sres = pmap(sweep, range(len(chunks)))
    nfail, listed_any, full_listed = 0, 0, None
    breaking = []
    for i, r in enumerate(sres):
        for j, k in enumerate(chunks[i]):
            if r["ok"][j] == "0":
                nfail += 1
                breaking.append(k)
            if r["listed"][j] == "1":
                listed_any += 1
            if k == n:
                full_listed = (r["listed"][j] == "1") if r["ok"][j] == "1" else None
    cov["prefix_sweep"] = {"prefix_lengths_examined": sum(len(c) for c in chunks), "of": n + 1, "exhaustive": not quick,
                           "listing_fails_for": nfail, "breaking_lengths": sorted(breaking)[:40], "listed_as_magefile": listed_any,
                           "seconds": round(time.time() - t0, 1)}
    # in a magefiles directory every .go file that go/build accepts is a magefile: only the ignore constraint keeps the generated file out
    dmf = os.path.join(sweep_dir, "magefiles")
    write_tree(dmf, swf)
    rmf = unitrun_list(unitrun, {"dir": dmf, "base": base64.b64encode(gen).decode(), "lens": [n], "magedir": True})
    listed_mfdir = rmf["ok"] == "1" and rmf["listed"] == "1"
    cov["prefix_sweep"]["generated_file_listed_in_magefiles_directory"] = listed_mfdir
    full_listed = bool(full_listed) or listed_mfdir
    items.append("CListGen %s" % coq_bool(bool(full_listed)))
    meta.append((None, "listgen"))
    if full_listed:
        ctx.violation({"kind": "oracle", "clause": "the generated main file is picked up as a magefile by mage.Magefiles (ignore constraint lost): "
                       "a file kept with -keep or left behind is no longer invisible to go/build"},
                      case={"kind": "listgen", "proj_seed": proj_seed})

    # ---- -init / -clean
    if not ctx.replay or ctx.replay.get("case", {}).get("kind") in ("init", "clean"):
        ic_items, ic_info = init_clean_cases(ctx, mage, rng, quick)
        for it, inf in zip(ic_items, ic_info):
            items.append(it)
            meta.append((inf, "initclean"))
    # ---- every other command x everything lying around under the generated file's name
    if not ctx.replay or ctx.replay.get("case", {}).get("kind") == "cmd":
        cm_items, cm_info = command_cases(ctx, mage, rng, quick, gen)
        for it, inf in zip(cm_items, cm_info):
            items.append(it)
            meta.append((inf, "initclean"))
        cov["command_matrix"] = {"commands": COMMANDS, "leftover_shapes": LEFT_SHAPES, "runs": len(cm_info)}

    ctx.log("oracle done; %d cases for the model" % len(items))
    # ---- the model on the same cases
    header = "From Mage Require Import Base.Strs Model.Lifecycle Run.eval_C09.\n"
    flat, owner = [], []
    for idx, it in enumerate(items):
        if isinstance(it, tuple):
            for c in it[1]:
                flat.append(c)
                owner.append(idx)
        else:
            flat.append(it)
            owner.append(idx)
    mism = ctx.coq_eval_shards("cases_C09", header, flat, per_shard=max(4, (len(flat) + NCPU - 1) // NCPU))
    ctx.log("model evaluated")
    bad_flat = {}
    for gi, body in mism:
        bad_flat[gi] = body
    bad_items = []
    for idx, it in enumerate(items):
        mine = [g for g, o in enumerate(owner) if o == idx]
        if isinstance(it, tuple):
            if all(g in bad_flat for g in mine):       # no crash point of the model explains the directory
                bad_items.append((idx, bad_flat[mine[0]]))
        elif mine[0] in bad_flat:
            bad_items.append((idx, bad_flat[mine[0]]))
    if bad_items and not ctx.violations:
        for idx, body in bad_items[:3]:
            sc, kind = meta[idx]
            o = obs.get(sc["id"]) if kind in ("run", "crash", "after-crash", "crash-any") and sc else None
            impl = None
            if o:
                oo = o["next"] if kind == "after-crash" else o
                impl = {"exit": oo.get("rc"), "stage": stage_of(oo) if oo.get("rc") is not None else None, "go_calls": oo.get("log"),
                        "changed": sorted(p for p in set(oo["before_h"]) | set(oo["after_h"]) if oo["before_h"].get(p) != oo["after_h"].get(p))[:6],
                        "stderr": oo.get("err", "")[-300:]}
            ctx.violation({"kind": "model-vs-implementation", "correspondence": "Run/eval_C09.mismatches", "what": kind,
                           "scenario": sc["id"] if (sc and "id" in sc) else sc, "model_says": body[:600], "implementation": impl},
                          case=({"scenario": sc, "proj_seed": proj_seed, "ref_scenario": byid.get(sc["ref"]) if sc.get("ref") else None} if (sc and "id" in sc) else sc),
                          found_input=False)

    cov["evaluations"] = len(items)
    seen = set()
    nontriv = 0
    for (sc, kind) in meta:
        h = case_hash([sc, kind])
        if h in seen:
            continue
        seen.add(h)
        if kind == "initclean" or kind == "listgen" or (sc and (sc["leftover"] or sc["plan"] or sc["mutation"] or sc["fail"] or sc["crash"] or sc["keep"] or sc["enospc"] is not None or sc.get("envfault") or sc["hashfast"] or sc["compile"])):
            nontriv += 1
    cov["distinct_nontrivial"] = nontriv
    cov["rule"] = ("one case = one run of the real mage binary (or -init/-clean, or the go/build verdict on the generated file) with the directory hashed before and "
                   "after; distinct by scenario; non-trivial = something fails, something is left lying around, a flag changes the life cycle, or the process is killed")
    watched = [(e, s_) for o in obs.values() if o.get("seen") and o.get("log") and len(o["seen"]) == len(o["log"]) for e, s_ in zip(o["log"], o["seen"])]
    cov["go_commands_watched"] = {"total": len(watched), "ran_while_generated_file_existed": {k: sum(1 for e, s_ in watched if e == k and s_) for k in sorted(set(e for e, _ in watched))}}
    cov["module_state_x_goflags"] = {s["id"]: {"exit": obs[s["id"]].get("rc"), "go_tool_alone": {k: v for k, v in (s.get("_modref") or {}).items() if not k.endswith("_err")},
                                               "go_tool_rewrote_under_mod_mod": obs[s["id"]].get("modfiles_rewritten_under_mod_mod", [])}
                                     for s in scs if s.get("module")}
    cov["scenarios"] = len(scs)
    cov["distribution"] = dist
    cov["model_mismatches"] = len(bad_items)
    cov["traces_validated_against_impl"] = len(items) - len(bad_items)
    cov["generated_file_bytes"] = n
    cov["special_leftovers_observed_not_judged"] = notes
    cov.setdefault("enospc", "%d runs on a full tmpfs" % enospc_done)
    cov["not_injected"] = ["HashFiles", "CloseMain", "Chtimes", "os.Remove failing"]
    cov["environment_faults"] = {s["id"]: [obs[s["id"]].get("rc"), stage_of(obs[s["id"]]) if obs[s["id"]].get("rc") is not None else obs[s["id"]].get("skipped", "?")[:80]]
                                 for s in scs if s.get("envfault")}
    for sc in scs[:3]:
        o = obs[sc["id"]]
        ctx.sample({"scenario": sc["id"], "exit": o.get("rc"), "go_calls": o.get("log"), "stage": stage_of(o) if o.get("rc") is not None else None})


if __name__ == "__main__":
    if len(sys.argv) == 3 and sys.argv[1] == "--enospc-helper":
        enospc_helper(sys.argv[2])
