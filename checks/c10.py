"""C10 - only files that require the mage build tag are compiled as magefiles.

Theorems: coq/Props/C10.v over Model/Constraints.v (mage.Magefiles, listGoFiles, EnvWithGOOS, the
magefiles-directory detection, and the part of go/build they call).
Correspondence: random directories of Go files (boolean constraint expressions, legacy +build
lines, platform file-name suffixes, hidden/test files, mixed packages, a malformed stream) x
-goos/-goarch values x start-up environments (GOOS/GOARCH/CGO_ENABLED unset, host, foreign,
garbage, empty).  mage.Magefiles is called in-process by harness/unitrun (op "magefiles"), one
FRESH PROCESS per start-up environment because go/build computes build.Default once at start;
the Coq model is evaluated on the same directories with the actual start-up values.
Oracle: a direct Python reading of the property sentence (independent of go/build and of the Coq
model); in the thorough tier `go list -tags mage` as a third opinion.
End-to-end sample with the real binary: `mage -l`, the magefiles-subdirectory layout with
os.Getwd(), and the executable format of `-compile -goos/-goarch` output."""
import json, os, re, shutil, time
from vlib import *
import projlib

OSES = ["linux", "windows", "darwin", "android", "ios", "illumos", "plan9"]
ARCHS = ["amd64", "arm64", "386", "wasm",
         # names that are prefixes of one another must stay apart: arm/arm64, mips/mips64/mips64le/mipsle, ppc64/ppc64le
         "arm", "mips", "mips64", "mips64le", "mipsle", "ppc64", "ppc64le", "riscv64", "s390x", "loong64"]
GO_LIST_ARCHS = ["amd64", "arm64", "386", "wasm"]

# ---------------------------------------------------------------- expressions
TAGS = (["mage"] * 7 + ["linux", "windows", "darwin", "freebsd", "android", "ios", "solaris", "illumos", "plan9", "js"]
        + ["amd64", "arm64", "386", "arm", "wasm", "arm", "mips", "mips64", "mips64le", "mipsle", "ppc64", "ppc64le", "riscv64", "s390x"] + ["unix"] * 2 + ["cgo"] * 2
        + ["ignore", "gc", "gccgo", "go1.18", "go1.99", "foo", "bar", "integration", "tools"])


def gen_tag(rng):
    return ("tag", rng.choice(TAGS))


def gen_expr(rng, depth):
    r = rng.random()
    if depth <= 0 or r < 0.30:
        return gen_tag(rng)
    if r < 0.50:
        return ("not", gen_expr(rng, depth - 1))
    if r < 0.76:
        return ("and", gen_expr(rng, depth - 1), gen_expr(rng, depth - 1))
    return ("or", gen_expr(rng, depth - 1), gen_expr(rng, depth - 1))


def gen_top_expr(rng):
    r = rng.random()
    M = ("tag", "mage")
    if r < 0.22:
        return M
    if r < 0.50:
        return ("and", M, gen_expr(rng, rng.choice([1, 2, 3])))
    if r < 0.58:
        return ("and", gen_expr(rng, rng.choice([1, 2])), M)
    if r < 0.66:
        return ("or", M, gen_expr(rng, rng.choice([1, 2])))
    if r < 0.72:
        return ("not", ("and", M, gen_expr(rng, 1))) if rng.random() < 0.5 else ("and", ("not", M), gen_expr(rng, 2))
    return gen_expr(rng, rng.choice([1, 2, 3, 4, 4]))


def gen_legacy(rng):
    """constraint in the shape the // +build syntax can express: lines AND-ed, options OR-ed, terms AND-ed"""
    lines = []
    for _ in range(rng.choice([1, 1, 2])):
        opts = []
        for _ in range(rng.choice([1, 1, 2, 3])):
            terms = []
            for _ in range(rng.choice([1, 1, 2])):
                t = rng.choice(TAGS) if rng.random() < 0.6 else "mage"
                terms.append((rng.random() < 0.25, t))
            opts.append(terms)
        lines.append(opts)
    return lines


def legacy_expr(lines):
    def conj(xs, op):
        e = xs[0]
        for x in xs[1:]:
            e = (op, e, x)
        return e
    ls = []
    for opts in lines:
        os_ = []
        for terms in opts:
            ts = [("not", ("tag", t)) if neg else ("tag", t) for neg, t in terms]
            os_.append(conj(ts, "and"))
        ls.append(conj(os_, "or"))
    return conj(ls, "and")


def legacy_text(lines):
    return "".join("// +build " + " ".join(",".join(("!" if neg else "") + t for neg, t in terms) for terms in opts) + "\n" for opts in lines)


def expr_text(e):
    def atom(x):
        if x[0] == "tag":
            return x[1]
        if x[0] == "not":          # the //go:build syntax rejects "!!x"
            return "!(" + atom(x[1]) + ")" if x[1][0] == "not" else "!" + atom(x[1])
        return "(" + expr_text(x) + ")"
    if e[0] in ("tag", "not"):
        return atom(e)
    return atom(e[1]) + (" && " if e[0] == "and" else " || ") + atom(e[2])


def expr_coq(e):
    if e[0] == "tag":
        return "(Tag %s)" % coq_str(e[1])
    if e[0] == "not":
        return "(Not %s)" % expr_coq(e[1])
    return "(%s %s %s)" % ("And" if e[0] == "and" else "Or", expr_coq(e[1]), expr_coq(e[2]))


def expr_tags(e):
    if e is None:
        return set()
    if e[0] == "tag":
        return {e[1]}
    return set().union(*[expr_tags(x) for x in e[1:]])


def tup(e):
    """JSON round trip gives lists"""
    if e is None:
        return None
    return (e[0], e[1]) if e[0] == "tag" else tuple([e[0]] + [tup(x) for x in e[1:]])


# ---------------------------------------------------------------- files
STEMS = ["magefile", "a", "b", "build", "tasks", "util", "mage_helpers", "x_y", "linux", "main", "gen", "zz", "windows_amd64", "deploy", "c",
         # names as such: dash, dot, space, plus, equals, at, non-ASCII, upper case (go/build takes them all; only a leading _ or . hides a file)
         "release+notes", "deploy staging", "more@tasks", "k=v", "a-b", "x.y", "\u00fcber", "\u65e5\u672c", "UPPER", "Mixed_Case", "it's", "semi;colon", "dollar$x"]
SUFFIXES = ([""] * 10 + ["_linux", "_windows", "_darwin", "_amd64", "_arm64", "_windows_amd64", "_linux_arm64", "_android", "_ios",
                         "_solaris", "_unix", "_test", "_linux_test", "_foo", "_amd64_linux", "_js_wasm", "_plan9_386", "_darwin_arm64",
                         "_linux_amd64", "_test_linux", "_wasm", "_386", "_illumos", "_freebsd_amd64", "_linux_foo", "_",
                         "_arm", "_linux_arm", "_mips", "_mips64", "_mips64le", "_mipsle", "_ppc64", "_ppc64le", "_linux_ppc64", "_riscv64", "_s390x", "_ARM", "_x86_64"])
ODD_NAMES = ["a.b_linux.go", "gen.windows.go", "_x.go", ".hid.go", "_magefile_linux.go", "README.md", "notes.txt", "x.go.bak", "run.sh", "y_windows.txt",
             "linux_amd64.go", "amd64.go", "test.go", "_test.go", "x__linux.go", "GO.GO", "q.go.go",
             "-dash-first.go", "+plus.go", "_\u00fcber.go", ".\u65e5\u672c.go", "L" + "o" * 180 + "ng_linux.go", "Linux_AMD64.go", "tab\tname.go", " leading space.go"]
FORMS = ["gobuild"] * 11 + ["plus"] * 3 + ["both"] * 2 + ["none"] * 3 + ["misplaced", "plus_noblank", "license", "blockcomment"]


def file_text(form, expr, legacy, pkg, ident, broken):
    body = "package %s\n\nfunc %s() {}\n" % (pkg, ident)
    if broken == "parseerr":
        body = "package %s\n\nimport 5\n\nfunc %s() {}\n" % (pkg, ident)
    if broken == "badbuild":
        return "//go:build mage &&\n\n" + body
    if broken == "multibuild":
        return "//go:build mage\n//go:build !ignore\n\n" + body
    if form == "gobuild":
        return "//go:build %s\n\n%s" % (expr_text(expr), body)
    if form == "plus":
        return legacy_text(legacy) + "\n" + body
    if form == "both":
        return "//go:build %s\n%s\n%s" % (expr_text(expr), legacy_text(legacy), body)
    if form == "none":
        return body
    if form == "misplaced":
        return "package %s\n\n//go:build %s\n\nfunc %s() {}\n" % (pkg, expr_text(expr), ident)
    if form == "plus_noblank":
        return legacy_text(legacy) + body
    if form == "license":
        return "// Copyright someone.\n// All rights reserved.\n\n//go:build %s\n\n// Package doc.\n%s" % (expr_text(expr), body)
    if form == "blockcomment":
        return "/* leading\n   block comment */\n\n//go:build %s\n\n%s" % (expr_text(expr), body)
    raise ValueError(form)


def gen_file(rng, name, idx, pkgs, allow_broken):
    form = rng.choice(FORMS)
    legacy = None
    if form in ("plus", "both", "plus_noblank"):
        legacy = gen_legacy(rng)
        expr = legacy_expr(legacy)
    elif form == "none":
        expr = None
    else:
        expr = gen_top_expr(rng)
    pkg = rng.choice(pkgs)
    if name.endswith("_test.go") and rng.random() < 0.4:
        pkg = pkg + "_test"
    if rng.random() < 0.01:
        pkg = "documentation"
    broken = None
    if allow_broken and rng.random() < 0.5:
        broken = rng.choice(["parseerr", "badbuild", "multibuild"])
    eff = None if form in ("none", "misplaced", "plus_noblank") else expr
    if broken == "parseerr" and form in ("misplaced",):
        form, eff = "gobuild", expr
    if broken in ("badbuild", "multibuild"):
        eff = None
    ident = "T%d" % idx
    return {"name": name, "form": form, "expr": eff, "pkg": pkg, "broken": broken, "ident": ident,
            "text": file_text(form, expr, legacy, pkg, ident, broken)}


def gen_dir(rng, di):
    n = rng.choice([3, 3, 4, 4, 5, 5, 6, 7, 8, 10])
    names = []
    while len(names) < n:
        r = rng.random()
        nm = rng.choice(ODD_NAMES) if r < 0.12 else rng.choice(STEMS) + rng.choice(SUFFIXES) + ".go"
        if nm not in names:
            names.append(nm)
    mixed = rng.random() < 0.2
    pkgs = ["main", "main", "other"] if mixed else ["main"]
    malformed = rng.random() < 0.08
    files = []
    bi = rng.randrange(n) if malformed else -1
    for i, nm in enumerate(names):
        files.append(gen_file(rng, nm, i, pkgs, allow_broken=(i == bi)))
    if malformed and bi >= 0 and files[bi]["broken"] is None:
        files[bi] = gen_file(rng, names[bi], bi, pkgs, True)
    if rng.random() < 0.3:
        M = ("tag", "mage")
        a, b = rng.sample(["linux", "windows", "darwin"], 2)
        extra = [seq_file("helper_%s.go" % a, None, "main", "H1"), seq_file("tasksx_%s.go" % b, M, "main", "H2"),
                 seq_file("tasksy.go", ("and", M, ("tag", b)), "main", "H3"), seq_file("helpery.go", ("tag", a), "main", "H4"),
                 seq_file("helperz_amd64.go", None, "main", "H5"), seq_file("tasksz_arm64.go", M, "main", "H6")]
        have = {f["name"] for f in files}
        files += [f for f in rng.sample(extra, rng.choice([2, 3, 4, 6])) if f["name"] not in have]
    files.sort(key=lambda f: f["name"].encode())
    return {"id": di, "files": files, "mixed": mixed, "mode": rng.choice([None] * 5 + [0o777, 0o1777, 0o775, 0o700, 0o755, 0o2777])}


def write_dir(path, d, gomod=False):
    os.makedirs(path, exist_ok=True)
    if d.get("mode") is not None:      # the attributes of the directory are not an input of the selection
        os.chmod(path, d["mode"])
    for f in d["files"]:
        with open(os.path.join(path, f["name"]), "w") as fh:
            fh.write(f["text"])
    if gomod:
        with open(os.path.join(path, "go.mod"), "w") as fh:
            fh.write("module example.test/c10\n\ngo 1.21\n")


# ---------------------------------------------------------------- the oracle: the property sentence
KNOWN_OS = set("aix android darwin dragonfly freebsd hurd illumos ios js linux nacl netbsd openbsd plan9 solaris wasip1 windows zos".split())
KNOWN_ARCH = set("386 amd64 amd64p32 arm armbe arm64 arm64be loong64 mips mipsle mips64 mips64le mips64p32 mips64p32le ppc ppc64 ppc64le "
                 "riscv riscv64 s390 s390x sparc sparc64 wasm".split())
UNIX = set("aix android darwin dragonfly freebsd hurd illumos ios linux netbsd openbsd solaris".split())
ALSO = {"android": "linux", "illumos": "solaris", "ios": "darwin"}


def tag_true(t, goos, goarch, cgo, mage, nrelease):
    if t == "mage":
        return mage
    if t == "cgo":
        return cgo
    if t in (goos, goarch, "gc"):
        return True
    if ALSO.get(goos) == t:
        return True
    if t == "unix":
        return goos in UNIX
    m = re.fullmatch(r"go1\.(\d+)", t)
    if m:
        return 1 <= int(m.group(1)) <= nrelease
    return False


def ev(e, val):
    if e[0] == "tag":
        return val(e[1])
    if e[0] == "not":
        return not ev(e[1], val)
    if e[0] == "and":
        return ev(e[1], val) and ev(e[2], val)
    return ev(e[1], val) or ev(e[2], val)


def name_constraints(name):
    """the GOOS / GOARCH a file name asks for: (os or None, arch or None).
    *_GOOS, *_GOARCH, *_GOOS_GOARCH before the extension (an optional _test stripped first);
    only the part after the first underscore counts, and only up to the first dot."""
    stem = name.split(".")[0]
    if "_" not in stem:
        return None, None
    parts = stem[stem.index("_") + 1:].split("_")
    if parts and parts[-1] == "test":
        parts = parts[:-1]
    if len(parts) >= 2 and parts[-2] in KNOWN_OS and parts[-1] in KNOWN_ARCH:
        return parts[-2], parts[-1]
    if parts and parts[-1] in KNOWN_OS:
        return parts[-1], None
    if parts and parts[-1] in KNOWN_ARCH:
        return None, parts[-1]
    return None, None


def candidate(name):
    return name.endswith(".go") and not name.startswith(("_", ".")) and not name.endswith("_test.go")


def satisfied(f, goos, goarch, cgo, mage, nrelease):
    o, a = name_constraints(f["name"])
    if o is not None and not (o == goos or ALSO.get(goos) == o):
        return False
    if a is not None and a != goarch:
        return False
    if f["expr"] is None:
        return True
    return ev(f["expr"], lambda t: tag_true(t, goos, goarch, cgo, mage, nrelease))


def expected_files(d, goos, goarch, cgo, isdir, nrelease):
    """(set of names that must be magefiles, set of names the sentence does not decide)"""
    want, undecided = set(), set()
    for f in d["files"]:
        if f["broken"] in ("badbuild", "multibuild", "dangling", "badheader") or f["pkg"] == "documentation":
            undecided.add(f["name"])
            continue
        if not candidate(f["name"]):
            continue
        w = satisfied(f, goos, goarch, cgo, True, nrelease)
        if not isdir:
            w = w and not satisfied(f, goos, goarch, cgo, False, nrelease)
        if w:
            want.add(f["name"])
    return want, undecided


def forced_platform(host, goos, goarch):
    return (goos or host[0], goarch or host[1])


def should_cgo(cgo_enabled, forced, host, supported):
    """cgo as a fresh go process for the forced platform has it"""
    if cgo_enabled == "1":
        return True
    if cgo_enabled == "0":
        return False
    return forced == tuple(host) and supported


def oracle(d, q, host, envv, dflt, supported, nrelease, files, err):
    """returns None or a `what` dict"""
    forced = forced_platform(host, q["goos"], q["goarch"])
    broken = [f for f in d["files"] if f["broken"]]
    if err:
        if not broken:
            return {"kind": "oracle", "clause": "Magefiles failed on a directory of well-formed files: " + err[:200]}
        return None
    cgo = should_cgo(envv.get("CGO_ENABLED", ""), forced, host, supported)
    want, und = expected_files(d, forced[0], forced[1], cgo, q["isdir"], nrelease)
    got = set(files)
    diff = {n for n in (got ^ want) if n not in und}
    if not diff:
        return None
    # is it the known shape? the only disagreement is the value of `cgo`, which go/build took from the
    # platform the PROCESS STARTED with instead of the platform the listing is made for
    if dflt["cgo"] != cgo:
        want2, _ = expected_files(d, forced[0], forced[1], dflt["cgo"], q["isdir"], nrelease)
        byname = {f["name"]: f for f in d["files"]}
        if not {n for n in (got ^ want2) if n not in und} and all("cgo" in expr_tags(byname[n]["expr"]) for n in diff):
            started = (dflt["goos"], dflt["goarch"])
            variant = "environment" if started != tuple(host) else "flags"
            return {"kind": "oracle", "clause": "cgo-valuation-from-startup-platform", "variant": variant,
                    "detail": "files %s: listed=%s, for platform %s/%s with cgo=%s they must be %s; the process started for %s/%s (cgo=%s)" % (
                        sorted(diff), sorted(got), forced[0], forced[1], cgo, sorted(want), started[0], started[1], dflt["cgo"])}
    return {"kind": "oracle", "clause": "magefiles of the directory for %s/%s (isMagefilesDirectory=%s): got %s, the property sentence says %s" % (
        forced[0], forced[1], q["isdir"], sorted(got), sorted(want))}


# ---------------------------------------------------------------- environments and requests
def env_variants(host, quick):
    h = {"GOOS": host[0], "GOARCH": host[1]}
    v = [
        ("unset", {}),
        ("host", dict(h)),
        ("foreign", {"GOOS": "windows", "GOARCH": "arm64"}),
        ("garbage", {"GOOS": "garbage", "GOARCH": "junk"}),
        ("goos-only", {"GOOS": "darwin"}),
        ("empty", {"GOOS": "", "GOARCH": ""}),
        ("cgo0", {"CGO_ENABLED": "0"}),
        ("cgo0-foreign", {"CGO_ENABLED": "0", "GOOS": "plan9", "GOARCH": "386"}),
        ("cgo1-foreign", {"CGO_ENABLED": "1", "GOOS": "android", "GOARCH": "arm64"}),
        # GOFLAGS of a CI job: tags named there are not part of "with / without the mage tag" (go/build does not read GOFLAGS)
        ("goflags-tags", {"GOFLAGS": "-mod=mod -tags=integration"}),
        ("goflags-tags2", {"GOFLAGS": "-tags=integration,tools,foo", "GOOS": "darwin"}),
    ]
    if not quick:
        v += [("goflags-old-form", {"GOFLAGS": "-tags=integration bar"}), ("goflags-mod", {"GOFLAGS": "-mod=mod"}), ("goflags-mage", {"GOFLAGS": "-tags=mage"}),
              ("goarch-only", {"GOARCH": "wasm"}), ("cgo1", {"CGO_ENABLED": "1"}), ("cgo-junk", {"CGO_ENABLED": "yes", "GOOS": "ios"}),
              ("foreign2", {"GOOS": "illumos", "GOARCH": "amd64"})]
    return v


def gen_request(rng, host):
    r = rng.random()
    if r < 0.22:
        goos, goarch = "", ""
    elif r < 0.72:
        goos, goarch = rng.choice(OSES), rng.choice(ARCHS)
    elif r < 0.82:
        goos, goarch = rng.choice(OSES), ""
    elif r < 0.92:
        goos, goarch = "", rng.choice(ARCHS)
    elif r < 0.96:
        goos, goarch = host
    else:
        # spellings that are not platform names are taken literally (nothing is trimmed, lower-cased, translated or completed)
        goos, goarch = rng.choice(["garbage", "Linux", "unix", "macos", " linux", "lin", "win"]), rng.choice(["junk", "amd64", "ARM", " arm", "arm ", "x86_64", "aarch64", "ar", "mips6", "ppc", "amd"])
    return {"goos": goos, "goarch": goarch, "isdir": rng.random() < 0.15, "isdebug": rng.random() < 0.4}


def proc_env(extra):
    e = {"PATH": os.environ.get("PATH", "/usr/bin:/bin"), "HOME": os.environ.get("HOME", "/")}
    e.update(extra)
    return e


def run_unit(binp, envv, reqs):
    """one fresh unitrun process started with exactly proc_env(envv): (build.Default as reported, answers)"""
    lines = [json.dumps({"op": "buildctx"})] + [json.dumps({"op": "magefiles", "raw": r}) for r in reqs]
    rc, out, err = sh([binp], input=("\n".join(lines) + "\n").encode(), env=proc_env(envv), timeout=900)
    if rc != 0:
        raise BuildError("unitrun failed: " + err[-2000:])
    ans = [json.loads(l) for l in out.splitlines() if l.strip()]
    if len(ans) != len(reqs) + 1:
        raise BuildError("unitrun answered %d of %d requests: %s" % (len(ans), len(reqs) + 1, err[-1000:]))
    for a in ans:
        if "error" in a:
            raise BuildError("unitrun: " + a["error"])
    return ans[0], ans[1:]


# ---------------------------------------------------------------- Coq terms
def file_coq(f):
    if f["broken"] in ("badbuild", "multibuild", "dangling"):      # go/build fails on the file before it looks at its constraints
        h = "HBad"
    elif f["expr"] is None:
        h = "HNone"
    else:
        h = "(HBuild %s)" % expr_coq(f["expr"])
    return "{| f_name := %s; f_header := %s; f_pkg := %s; f_parse_ok := %s |}" % (
        coq_str(f["name"]), h, coq_str(f["pkg"]), coq_bool(f["broken"] not in ("parseerr", "badheader")))


def environ_coq(e):
    return coq_list([coq_str("%s=%s" % kv) for kv in e.items()])


def obs_coq(files, err):
    return "None" if err else "(Some %s)" % coq_list([coq_str(n) for n in sorted(files, key=lambda s: s.encode())])


def proc_coq(envv, dflt):
    return "{| p_environ := %s; p_tool := %s; p_dgoos := %s; p_dgoarch := %s; p_dcgo := %s |}" % (
        environ_coq(proc_env(envv)), coq_list([coq_str(t) for t in dflt["tooltags"]]), coq_str(dflt["goos"]), coq_str(dflt["goarch"]), coq_bool(dflt["cgo"]))


def run_coq(pi, q, a):
    return "{| r_proc := %d; r_goos := %s; r_goarch := %s; r_isdir := %s; r_obs := %s |}" % (
        pi, coq_str(q["goos"]), coq_str(q["goarch"]), coq_bool(q["isdir"]), obs_coq(a["files"], a["err"]))


def case_coq(d, host, supported, release, procs, runs):
    return "{| c_files := %s; c_hostos := %s; c_hostarch := %s; c_supported := %s; c_release := %s; c_procs := procs; c_runs := %s |}" % (
        coq_list([file_coq(f) for f in d["files"]]), coq_str(host[0]), coq_str(host[1]), coq_bool(supported),
        "release", coq_list(runs))


HEADER = "From Mage Require Import Base.Strs Model.Constraints Run.eval_C10.\n"

KNOWN_F24 = [
    {"property": "C10", "status": "known", "id": "F24",
     "match": {"kind": "oracle", "clause": "cgo-valuation-from-startup-platform", "variant": "environment"},
     "what": "F24: a file `//go:build mage && (linux || darwin) && !cgo` is a magefile only when the caller's environment holds a foreign GOOS/GOARCH "
             "(e.g. GOOS=windows GOARCH=arm64): go/build's build.Default.CgoEnabled is derived from the start-up environment and listGoFiles overrides only GOOS/GOARCH"},
    {"property": "C10", "status": "known", "id": "F24b",
     "match": {"kind": "oracle", "clause": "cgo-valuation-from-startup-platform", "variant": "flags"},
     "what": "F24b: with -goos/-goarch naming a foreign platform a file `//go:build mage && cgo` is listed as a magefile (and `mage && !cgo` is not) although the "
             "-compile build for that platform has cgo disabled: build.Default.CgoEnabled is the host's, same root cause as F24"},
]


# ---------------------------------------------------------------- third opinion (thorough): go list
def go_list(path, goos, goarch, tag, cgo_enabled, goflags="-mod=mod"):
    """the go tool's own listing with exactly the tag list [tag] (given explicitly, so that a -tags in GOFLAGS does not count)"""
    extra = {"GOOS": goos, "GOARCH": goarch, "GOFLAGS": goflags}
    e = goenv(extra)
    e.pop("CGO_ENABLED", None)
    if cgo_enabled != "":
        e["CGO_ENABLED"] = cgo_enabled
    cmd = ["go", "list", "-f", "{{range .GoFiles}}{{.}}\n{{end}}", "-tags=" + tag, "."]
    rc, out, err = sh(cmd, cwd=path, env=e, timeout=120)
    if rc != 0:
        if "build constraints exclude all Go files" in err or "no Go files" in err:
            return set()
        return None
    return {l for l in out.splitlines() if l.strip()}


# what the go tool (not mage) prints when its build cache is being removed underneath it; used only to decide to TRY AGAIN
GO_CACHE_TROUBLE = re.compile(r"go-build/[0-9a-f]{2}/[0-9a-f]{20,}-[ad]\b.*no such file or directory|DO NOT USE - main build pseudo-cache|could not import .*open .*go-build")


# ---------------------------------------------------------------- end-to-end sample
def e2e_file(name, expr, ident):
    """a valid package-main file defining one target <ident> that prints its working directory"""
    form = "none" if expr is None else "gobuild"
    text = file_text(form, expr, None, "main", ident, None).replace(
        "func %s() {}" % ident, '//go:noinline\nfunc %s() { wd, _ := os.Getwd(); fmt.Println("WD", wd) }' % ident).replace(
        "package main\n", 'package main\n\nimport (\n\t"fmt"\n\t"os"\n)\n', 1)
    return {"name": name, "form": form, "expr": expr, "pkg": "main", "broken": None, "ident": ident, "text": text}


def layout_matrix(rng, host):
    """the layouts C10_dir_choice distinguishes: {magefiles/ exists} x {tagged files in "."} x {untagged .go files in "."
    declaring exported functions} x {untagged / excluded-by-constraint files inside magefiles/}: (top, sub or None)"""
    M = ("tag", "mage")
    other_os = "plan9" if host[0] != "plan9" else "windows"
    out = []
    for has_sub in (False, True):
        for tagged in (False, True):
            for untagged in (False, True):
                for subextra in ((False, True) if has_sub else (False,)):
                    top = []
                    if tagged:
                        top.append(e2e_file("magefile.go", rng.choice([M, ("and", M, ("not", ("tag", other_os)))]), "Build"))
                        if rng.random() < 0.5:
                            top.append(e2e_file("tasks.go", ("and", M, ("tag", host[0])), "Tasks"))
                    if untagged:
                        top.append(e2e_file("lib.go", None, "Leaked"))
                        top.append(e2e_file("util.go", rng.choice([("not", ("tag", other_os)), ("or", ("tag", host[1]), ("tag", "foo")), ("not", M)]), "Util"))
                    sub = None
                    if has_sub:
                        sub = [e2e_file("targets.go", rng.choice([M, ("and", M, ("tag", host[1]))]), "Sub")]
                        if subextra:
                            sub.append(e2e_file("plain.go", rng.choice([None, ("not", ("tag", other_os))]), "Plain"))
                            sub.append(e2e_file("other_os.go", rng.choice([("tag", other_os), ("and", M, ("tag", other_os))]), "Otheros"))
                            sub.append(e2e_file("ign.go", ("and", M, ("tag", "ignore")), "Ign"))
                            sub.append(e2e_file("x_%s.go" % other_os, M, "Suffix"))
                    for l in (top, sub or []):
                        l.sort(key=lambda f: f["name"].encode())
                    out.append(({"id": -1, "files": top, "mixed": False}, None if sub is None else {"id": -1, "files": sub, "mixed": False}))
    return out


def flag_layouts(rng, host, quick):
    """the directory choice under -compile -goos X / -goarch Y / both: a magefiles/ subdirectory next to tagged files of
    the directory itself that are constrained (name suffix or //go:build term) to the host or to the target platform.
    The probe "has the directory magefiles of its own?" must be made for the TARGET platform: (top, sub, (goos, goarch))"""
    M = ("tag", "mage")
    X = "windows" if host[0] != "windows" else "linux"
    Y = "arm64" if host[1] != "arm64" else "amd64"
    variants = [(X, ""), ("", Y), (X, host[1] if host[1] != "arm64" else "amd64")]
    if not quick:
        variants += [(X, Y), ("darwin" if host[0] != "darwin" else "linux", "")]
    out = []
    for goos, goarch in variants:
        plat = forced_platform(host, goos, goarch)
        ht, tt = (host[0], plat[0]) if goos else (host[1], plat[1])      # the tag / suffix that differs between host and target
        def sub():
            fs = [e2e_file("targets.go", rng.choice([None, M]), "Folder"), e2e_file("plain_%s.go" % tt, None, "Foldertarget"),
                  e2e_file("plain_%s.go" % ht, M, "Folderhost")]
            return {"id": -1, "files": sorted(fs, key=lambda f: f["name"].encode()), "mixed": False}
        tops = [
            [e2e_file("build_%s.go" % tt, M, "Roottarget")],                                        # suffix, for the target only
            [e2e_file("build_%s.go" % ht, M, "Roothost")],                                          # suffix, for the host only
            [e2e_file("build.go", ("and", M, ("tag", tt)), "Roottarget")],                          # //go:build term, target only
            [e2e_file("build.go", rng.choice([("and", M, ("tag", ht)), ("and", M, ("not", ("tag", tt)))]), "Roothost")],
            [e2e_file("build_%s.go" % tt, M, "Roottarget"), e2e_file("tasks_%s.go" % ht, M, "Roothost"), e2e_file("lib.go", None, "Leaked")],
            [e2e_file("lib.go", None, "Leaked"), e2e_file("gen_%s.go" % tt, ("not", M), "Notmage")],  # nothing requires the tag anywhere
        ]
        for k, top in enumerate(tops):
            out.append(({"id": -1, "files": sorted(top, key=lambda f: f["name"].encode()), "mixed": False}, sub(), (goos, goarch)))
        # and without a magefiles/ folder: host file and target file side by side
        out.append(({"id": -1, "files": sorted([e2e_file("build_%s.go" % tt, M, "Roottarget"), e2e_file("build_%s.go" % ht, M, "Roothost"),
                                                 e2e_file("lib.go", None, "Leaked")], key=lambda f: f["name"].encode()), "mixed": False}, None, (goos, goarch)))
    return out


def e2e_dir(rng, nfiles, ensure, prefix="T"):
    """a directory whose files are all valid, package main, each defining one target T<i>;
    ensure(f) says whether at least one file must satisfy something (callers retry)"""
    for _ in range(200):
        names = []
        while len(names) < nfiles:
            nm = rng.choice(["magefile", "a", "b", "build", "tasks", "util", "zz"]) + rng.choice([""] * 6 + ["_linux", "_windows", "_amd64", "_arm64", "_windows_amd64", "_linux_amd64", "_darwin", "_test", "_foo"]) + ".go"
            if nm not in names:
                names.append(nm)
        files = []
        for i, nm in enumerate(names):
            r = rng.random()
            if r < 0.2:
                form, expr = "none", None
            else:
                form = "gobuild"
                expr = gen_top_expr(rng) if r < 0.8 else ("tag", "mage")
            files.append(e2e_file(nm, expr, "%s%d" % (prefix, i)))
        files.sort(key=lambda f: f["name"].encode())
        d = {"id": -1, "files": files, "mixed": False}
        if ensure(d):
            return d
    raise RuntimeError("e2e generator found no directory")


def run_e2e(ctx, host, nrelease, release, tooltags):
    rng = ctx.rng
    mg = projlib.Mage(ctx)
    jobs = []
    n_plain = 3 if ctx.quick else 12
    n_sub = 3 if ctx.quick else 10
    n_cross = 1 if ctx.quick else 4

    def exp(d, plat, isdir):
        return expected_files(d, plat[0], plat[1], False, isdir, nrelease)[0]   # goenv(): CGO_ENABLED=0

    envs = [{}, {"GOOS": "windows", "GOARCH": "arm64"}, {"GOOS": "garbage", "GOARCH": "junk"}, {"GOOS": host[0], "GOARCH": host[1]}]
    for i in range(n_plain):
        d = e2e_dir(rng, rng.choice([3, 4, 5]), lambda d: len(exp(d, host, False)) >= 1)
        jobs.append({"kind": "plain", "top": d, "sub": None, "env": envs[i % len(envs)], "plat": host, "flags": ("", "")})
    for i in range(n_sub):
        with_top = (i % 3 == 2)
        sub = e2e_dir(rng, rng.choice([2, 3, 4]), lambda d: len(exp(d, host, True)) >= 1, prefix="S")
        if with_top:
            top = e2e_dir(rng, rng.choice([2, 3]), lambda d: len(exp(d, host, False)) >= 1)
        else:
            top = e2e_dir(rng, rng.choice([1, 2, 3]), lambda d: len(exp(d, host, False)) == 0)
        jobs.append({"kind": "subdir", "top": top, "sub": sub, "env": envs[(i + 1) % len(envs)], "plat": host, "flags": ("", "")})
    for i, (top, sub) in enumerate(layout_matrix(rng, host)):
        jobs.append({"kind": "layout", "top": top, "sub": sub, "env": envs[i % len(envs)], "plat": host, "flags": ("", "")})
    for top, sub, flags in flag_layouts(rng, host, ctx.quick):
        jobs.append({"kind": "compile", "top": top, "sub": sub, "env": envs[len(jobs) % 2], "plat": forced_platform(host, *flags), "flags": flags})
    cross = [("windows", "amd64"), ("darwin", "arm64"), ("linux", "arm64"), ("windows", "")]
    for i in range(n_cross):
        goos, goarch = cross[i % len(cross)]
        plat = forced_platform(host, goos, goarch)
        d = e2e_dir(rng, rng.choice([4, 5]), lambda d: len(exp(d, plat, False)) >= 1 and exp(d, plat, False) != exp(d, host, False))
        jobs.append({"kind": "compile", "top": d, "sub": None, "env": envs[(i + 1) % 2], "plat": plat, "flags": (goos, goarch)})
    if ctx.replay and ctx.replay.get("case", {}).get("e2e"):
        j = ctx.replay["case"]["e2e"]
        for k in ("top", "sub"):
            if j.get(k):
                for f in j[k]["files"]:
                    f["expr"] = tup(f["expr"])
        j["plat"] = tuple(j["plat"])
        j["flags"] = tuple(j["flags"])
        for m in j.get("mutations", []):
            m[1]["expr"] = tup(m[1]["expr"])
        j["mutations"] = [tuple(m) for m in j.get("mutations", [])]
        jobs = [j]

    HF0 = {"MAGEFILE_HASHFAST": "1"}
    # a stand-in for the go tool (given with -gocmd): records the platform variables every go command is given, can fail the
    # k-th call of a subcommand with a message (C10_GOPLAN = "sub:k:message;..."), and otherwise runs the real go tool
    gowrap = os.path.join(ctx.tmp, "gowrap.sh")
    with open(gowrap, "w") as fh:
        fh.write("""#!/bin/sh
sub="$1"
k=1
if [ -n "$C10_GOLOG" ]; then
  k=$(grep -c "^$sub$" "$C10_GOCOUNT" 2>/dev/null); k=$((k+1))      # k-th call of this subcommand in the whole history of the project
  echo "$sub" >> "$C10_GOCOUNT"
  printf '%s\\t%s\\t%s\\t%s\\n' "$sub" "${GOOS-<unset>}" "${GOARCH-<unset>}" "${CGO_ENABLED-<unset>}" >> "$C10_GOLOG"
fi
oldifs=$IFS; IFS=';'
for d in $C10_GOPLAN; do
  psub=${d%%:*}; rest=${d#*:}; pk=${rest%%:*}; msg=${rest#*:}
  if [ "$psub" = "$sub" ] && [ "$pk" = "$k" ]; then echo "$msg" >&2; exit 1; fi
done
IFS=$oldifs
exec go "$@"
""")
    os.chmod(gowrap, 0o755)
    if not (ctx.replay and ctx.replay.get("case", {}).get("e2e")):
        BUSY = "open /tmp/x/mage_out: text file busy"
        plans = ["", "build:1:" + BUSY, "", "build:1:link: injected failure", "", "env:1:injected failure of go env", "",
                 "build:2:go build: The process cannot access the file because it is being used by another process.", "version:2:injected failure of go version"]
        k = 0
        for j in jobs:
            if j["kind"] in ("layout", "compile"):
                j["gocmd"] = True
                j["goplan"] = plans[k % len(plans)]
                k += 1
        # symbolic links as a layout dimension; the choice is made by the SPELLED base name (`magefiles`), never by where a link leads
        M = ("tag", "mage")
        other_os = "plan9" if host[0] != "plan9" else "windows"
        def D(fs):
            return {"id": -1, "files": sorted(fs, key=lambda f: f["name"].encode()), "mixed": False}
        def subdir():
            return D([e2e_file("targets.go", M, "Sub"), e2e_file("plain.go", None, "Plain"), e2e_file("x_%s.go" % other_os, None, "Otheros")])
        def ordinary():
            return D([e2e_file("magefile.go", M, "Build"), e2e_file("lib.go", None, "Leaked"), e2e_file("util.go", ("not", ("tag", other_os)), "Util")])
        link_jobs = [
            {"top": D([e2e_file("lib.go", None, "Leaked")]), "sub": subdir(), "links": {"sub": "other-name"}},                    # magefiles -> ../common/buildscripts
            {"top": D([]), "sub": subdir(), "links": {"sub": "same-name"}},                                                        # magefiles -> elsewhere/shared/magefiles
            {"top": ordinary(), "sub": subdir(), "links": {"sub": "other-name"}},                                                  # the directory's own magefiles win
            {"top": ordinary(), "sub": None, "links": {"real_name_magefiles": True, "project_link": "work"}, "via": ["cwd", "work"]},   # real name magefiles, entered through a link
            {"top": ordinary(), "sub": None, "links": {"real_name_magefiles": True, "project_link": "work"}, "via": ["d", "work"]},     # ... or -d link
            {"top": ordinary(), "sub": None, "links": {"real_name_magefiles": True}, "via": ["d", "magefiles"], "top_named": True},    # -d .../magefiles spelled: a magefiles directory
            {"top": ordinary(), "sub": None, "links": {"real_name_magefiles": True}},                                              # started inside it ("."): an ordinary directory
            {"top": ordinary(), "sub": None, "links": {"project_link": "magefiles"}, "via": ["d", "magefiles"], "top_named": True},     # a link SPELLED magefiles to an ordinary directory
            {"top": ordinary(), "sub": None, "links": {"files": ["magefile.go", "lib.go"]}},                                       # magefiles that are symlinks
            {"top": D([]), "sub": subdir(), "links": {"files": ["magefiles/plain.go", "magefiles/targets.go"]}},
        ]
        # -compile to one output path over a history: edits and platform flags between the steps, default and hash mode; the
        # file must always be what the CURRENT selection gives for the REQUESTED platform
        X = "windows" if host[0] != "windows" else "linux"
        for n in range(2 if ctx.quick else 6):
            top = D([e2e_file("magefile.go", M, "Build"), e2e_file("tasks_%s.go" % X, M, "Wintasks"), e2e_file("lib.go", None, "Leaked"),
                     e2e_file("host.go", ("and", M, ("tag", host[0])), "Hosttasks")])
            hf = HF0 if n % 2 else {}
            hist = [{"name": "compile-host", "what": "compile", "cflags": ["", ""], "env": hf},
                    {"name": "compile-host-after-change", "what": "compile", "cflags": ["", ""], "env": hf, "mutate": True},
                    {"name": "compile-%s" % X, "what": "compile", "cflags": [X, host[1]], "env": hf},
                    {"name": "compile-%s-after-change" % X, "what": "compile", "cflags": [X, ""], "env": hf, "mutate": True},
                    {"name": "compile-host-again", "what": "compile", "cflags": ["", ""], "env": hf}]
            muts = [("top", e2e_file("zextra.go", M, "Zextra")), ("top", e2e_file("tasks_%s.go" % X, ("not", M), "Wintasks"))]
            if n % 3 == 2:
                muts = [("top", e2e_file("host.go", ("and", M, ("tag", X)), "Hosttasks")), ("top", e2e_file("lib.go", M, "Leaked"))]
            jobs.append({"kind": "chist", "top": top, "sub": None, "env": envs[n % len(envs)], "plat": host, "flags": ("", ""), "history": hist, "mutations": muts,
                         "gocmd": n % 2 == 0, "goplan": ""})
        # the content of the directory ITSELF next to a magefiles/ folder: entries on which go/build fails or that it skips
        def bf(name, kind, ident="Broken"):
            text = {"badbuild": "//go:build linux &&\n\npackage main\n\nfunc %s() {}\n", "badheader": "//go:build mage\n\npackag main\n\nfunc %s() {}\n",
                    "parseerr": "package main\n\nimport 5\n\nfunc %s() {}\n", "parseerr-ignored": "//go:build ignore\n\npackage main\n\nimport 5\n\nfunc %s() {}\n",
                    "dangling": "%s"}[kind] % ident
            expr = {"badheader": M, "parseerr-ignored": ("tag", "ignore")}.get(kind)
            return {"name": name, "form": "gobuild" if expr else "none", "expr": expr, "pkg": "main", "broken": "parseerr" if kind == "parseerr-ignored" else kind, "ident": ident, "text": text}
        def otherpkg(name, ident):
            f = e2e_file(name, None, ident)
            return dict(f, pkg="other", text=f["text"].replace("package main", "package other", 1))
        lib = lambda: e2e_file("lib.go", None, "Leaked")
        own = lambda: e2e_file("magefile.go", M, "Build")
        parent_jobs = [
            (D([lib(), bf("zz_generated.go", "dangling")]), {"zz_generated.go": "dangling"}),
            (D([own(), bf("zz_generated.go", "dangling")]), {"zz_generated.go": "dangling"}),        # the probe fails: magefiles/ although the directory has a magefile
            (D([lib(), bf("bad.go", "badbuild")]), {}),
            (D([own(), bf("bad_%s.go" % other_os, "badbuild")]), {}),                                # never read for this platform: the directory's magefile wins
            (D([lib(), bf("hdr.go", "badheader")]), {}),
            (D([lib(), bf("imp.go", "parseerr")]), {}),
            (D([own(), bf("imp.go", "parseerr-ignored")]), {}),                                      # constraints exclude it: no error
            (D([lib(), otherpkg("other.go", "Otherpkg")]), {}),                                      # two packages, untagged: tolerated, nothing tagged
            (D([own(), otherpkg("other.go", "Otherpkg")]), {}),
            (D([lib()]), {"x.go": "dir"}),
            (D([own()]), {"x.go": "dir", "zz.go": "dir"}),
        ]
        if os.geteuid() != 0:
            parent_jobs.append((D([lib(), dict(e2e_file("secret.go", M, "Secret"), broken="dangling")]), {"secret.go": "unreadable"}))
        for n, (top, extras) in enumerate(parent_jobs):
            jobs.append({"kind": "parent", "top": top, "sub": D([e2e_file("targets.go", M, "Sub"), e2e_file("plain.go", None, "Plain")]), "extras": extras,
                         "env": envs[n % len(envs)], "plat": host, "flags": ("", ""), "gocmd": n % 3 == 0, "goplan": ""})
        # FILE NAMES of magefiles (those the go tool accepts on its command line; a space is covered by the in-process part only,
        # `go build` itself refuses such a name) and ATTRIBUTES of the directories: neither is an input of the selection
        def named():
            names = ["release+notes.go", "more@tasks.go", "k=v.go", "a-b.c.go", "\u00fcber.go", "\u65e5\u672c_%s.go" % host[0], "UPPER.go", "Mixed_%s.go" % host[1].upper(),
                     "l" + "o" * 100 + "ng.go", "_skipped.go", ".hidden.go", "x,y.go", "tasks:%s.go" % other_os]
            return [e2e_file(nm, rng.choice([M, M, ("and", M, ("tag", host[0]))]), "N%d" % i) for i, nm in enumerate(names)]
        cstep = {"name": "compile", "what": "compile", "cflags": ["", ""]}
        hist3 = [{"name": "list", "what": "list"}, {"name": "run", "what": "run"}, {"name": "run-again-hashfast", "what": "run", "env": HF0}]
        jobs.append({"kind": "names", "top": D(named() + [e2e_file("lib+x.go", None, "Leaked")]), "sub": None, "env": envs[1], "plat": host, "flags": ("", ""),
                     "history": hist3 + [cstep], "gocmd": True, "goplan": ""})
        jobs.append({"kind": "names", "top": D([e2e_file("lib+x.go", None, "Leaked")]), "sub": D(named() + [e2e_file("pl@in.go", None, "Plain")]), "env": envs[2], "plat": host,
                     "flags": ("", ""), "history": hist3 + [cstep], "gocmd": False, "goplan": ""})
        both = lambda: (D([e2e_file("magefile.go", M, "Build"), e2e_file("lib.go", None, "Leaked")]), D([e2e_file("targets.go", M, "Sub"), e2e_file("plain.go", None, "Plain")]))
        attr_jobs = [(both(), {"proj_mode": 0o777}), (both(), {"proj_mode": 0o1777}), (both(), {"proj_mode": 0o775, "sub_mode": 0o777}),
                     ((D([e2e_file("magefile.go", M, "Build"), e2e_file("lib.go", None, "Leaked")]), None), {"proj_mode": 0o777}),
                     ((D([e2e_file("lib.go", None, "Leaked")]), both()[1]), {"sub_mode": 0o777, "proj_mode": 0o755}),
                     ((D([e2e_file("lib.go", None, "Leaked")]), both()[1]), {"sub_mode": 0o1777, "proj_mode": 0o777}),
                     (both(), {"proj_mode": 0o700, "sub_mode": 0o700}), (both(), {"parent_mode": 0o777, "proj_mode": 0o755}),
                     (both(), {"parent_mode": 0o1777, "proj_mode": 0o2775}), (both(), {"chown": 65534}), ((both()[0], None), {"chown": 65534, "proj_mode": 0o777})]
        for n, ((top, sub), attrs) in enumerate(attr_jobs):
            if "chown" in attrs and os.geteuid() != 0:
                continue
            jobs.append({"kind": "attrs", "top": top, "sub": sub, "attrs": attrs, "env": envs[n % len(envs)], "plat": host, "flags": ("", ""),
                         "history": hist3 + ([cstep] if n % 3 == 0 else []), "gocmd": n % 2 == 0, "goplan": ""})
        # SEQUENCES of -compile with one cache on magefiles whose selection is the same for every platform: p1, p2, p3, p1 ..., same and
        # different output paths, hash mode or not, -f or not: every delivered file must be for the platform named on THAT command line
        Y = "arm64" if host[1] != "arm64" else "amd64"
        L = "linux"
        for n in range(2 if ctx.quick else 6):
            hf = HF0 if n % 2 == 0 else {}
            top = D([e2e_file("magefile.go", M, "Build"), e2e_file("more.go", rng.choice([M, ("or", M, ("tag", "never"))]) if n % 3 else M, "More"), e2e_file("lib.go", None, "Leaked")])
            plats = [("", ""), (X, host[1]), (L, Y), ("", ""), (X, ""), ("", Y), (X, host[1])]
            hist = []
            for k, fl in enumerate(plats):
                hist.append({"name": "compile-%d-%s-%s" % (k + 1, fl[0] or "host", fl[1] or "host"), "what": "compile", "cflags": list(fl), "env": hf,
                             "out": "out.bin" if k != 4 else "other.bin", "flags": ["-f"] if (k == 5 and n % 2) else []})
            jobs.append({"kind": "cseq", "top": top, "sub": None, "env": envs[n % len(envs)], "plat": host, "flags": ("", ""), "history": hist, "gocmd": n % 2 == 1, "goplan": ""})
        # GOFLAGS with -tags in the caller's environment (a CI job): files constrained on such a tag
        T = ("tag", "integration")
        for n, gf in enumerate(["-mod=mod -tags=integration", "-mod=mod -tags=integration,tools"] + ([] if ctx.quick else ["-tags=integration -mod=mod", "-mod=mod"])):
            top = D([e2e_file("magefile.go", M, "Build"), e2e_file("t.go", T, "Tonly"), e2e_file("mt.go", ("and", M, T), "Magetag"), e2e_file("mnt.go", ("and", M, ("not", T)), "Magenottag"),
                     e2e_file("nt.go", ("not", T), "Nottag"), e2e_file("mot.go", ("or", M, T), "Mageortag")])
            jobs.append({"kind": "goflags", "top": top, "sub": None if n % 2 == 0 else D([e2e_file("targets.go", T, "Sub")]), "env": dict(envs[n % 2], GOFLAGS=gf), "plat": host, "flags": ("", ""),
                         "history": hist3 + [cstep], "gocmd": True, "goplan": ""})
        # the OPTIONS of the invocation: none of them may change the selection, the targets or the working directory the targets see
        import depslib
        sub2 = lambda: D([e2e_file("targets.go", M, "Sub"), e2e_file("plain.go", None, "Plain")])
        knob_dir = os.path.join(ctx.tmp, "knobs")
        os.makedirs(knob_dir, exist_ok=True)
        options = [(["-debug"], {}), ([], {"MAGEFILE_DEBUG": "1"}), (["-v"], {}), ([], {"MAGEFILE_VERBOSE": "1"}), (["-keep"], {}), (["-debug", "-v", "-keep"], {"MAGEFILE_VERBOSE": "true"})]
        try:
            knobs = depslib.discover_knobs()
        except Exception as ex:      # discovery is an extra; without it the fixed options above remain
            knobs = []
            ctx.notes.append("knob discovery failed: %s" % ex)
        for kn in knobs:             # every environment variable the tree reads that no model knows (none on the unchanged tree)
            for val in ("1", "true", "1s", os.path.join(knob_dir, kn + ".out")):
                options.append(([], {kn: val}))
        HEAD_FLAGS = {"f", "debug", "v", "h", "t", "keep", "d", "w", "gocmd", "goos", "goarch", "ldflags", "l", "init", "clean", "compile", "version"}
        rh = mg.run(mg.root, ["-h"], timeout=60)
        new_flags = sorted(set(re.findall(r"^\s+-([A-Za-z][\w-]*)", rh["out"] + rh["err"], re.M)) - HEAD_FLAGS)
        for fl in new_flags:         # every flag `mage -h` shows that HEAD does not have: the first spelling mage accepts
            for val in ("true", "1s", os.path.join(knob_dir, fl + ".flag")):
                if mg.run(mg.root, ["-%s=%s" % (fl, val), "-version"], timeout=60)["rc"] == 0:
                    options.append((["-%s=%s" % (fl, val)], {}))
                    break
        ctx.coverage["option_knobs"] = knobs
        ctx.coverage["option_new_flags"] = new_flags
        def foreign_next_to_host():
            # a mage-tagged file for ANOTHER platform next to an untagged host-platform file, in both forms
            return D([e2e_file("magefile.go", M, "Build"), e2e_file("helper_%s.go" % host[0], None, "Helperhost"), e2e_file("tasks_%s.go" % other_os, M, "Tasksother"),
                      e2e_file("more.go", ("and", M, ("tag", other_os)), "Moreother"), e2e_file("hosty.go", ("tag", host[0]), "Hosty"),
                      e2e_file("archy_%s.go" % host[1], None, "Archy"), e2e_file("tasks_%s.go" % ("arm64" if host[1] != "arm64" else "amd64"), M, "Tasksarch")])
        shapes = [lambda: (foreign_next_to_host(), None, None, None),
                  lambda: (D([e2e_file("lib.go", None, "Leaked"), e2e_file("helper_%s.go" % host[0], None, "Helperhost")]), sub2(), None, None),     # folder used
                  lambda: (foreign_next_to_host(), sub2(), None, None),                                                                            # dot wins
                  lambda: (D([e2e_file("lib.go", None, "Leaked")]), sub2(), "elsewhere_w", None),                                                   # folder + -w
                  lambda: (foreign_next_to_host(), None, None, ["d", "proj"]),                                                                     # -d from elsewhere
                  lambda: (D([e2e_file("lib.go", None, "Leaked")]), sub2(), None, ["d", "proj"])]
        per = 2 if ctx.quick else len(shapes)
        for n, (xa, xe) in enumerate(options):
            for k in range(per):
                top, sub, wdir, via = shapes[(n + k * 3) % len(shapes)]()
                jb = {"kind": "opts", "top": top, "sub": sub, "env": envs[(n + k) % len(envs)], "plat": host, "flags": ("", ""), "xargs": xa, "xenv": xe,
                      "gocmd": (n + k) % 3 == 0, "goplan": "", "history": [{"name": "list", "what": "list"}, {"name": "run", "what": "run"}, {"name": "run-again-hashfast", "what": "run", "env": HF0}]}
                if wdir:
                    jb["wdir"] = wdir
                if via:
                    jb["via"] = via
                jobs.append(jb)
        # platform NAMES: architectures whose names are prefixes of one another, with files that tell them apart; odd spellings
        L = host[0] if host[0] == "linux" else "linux"
        pairs = [("arm", "arm64"), ("ppc64", "ppc64le"), ("mips64", "mips64le"), ("mips", "mips64")]
        if not ctx.quick:
            pairs += [("arm64", "arm"), ("ppc64le", "ppc64"), ("mipsle", "mips"), ("mips64le", "mips64"), ("386", "amd64"), ("riscv64", "s390x"), ("loong64", "amd64")]
        for n, (A, B) in enumerate(pairs):
            top = D([e2e_file("t_%s.go" % A, M, "Onlya"), e2e_file("t_%s.go" % B, M, "Onlyb"), e2e_file("x.go", ("and", M, ("tag", A)), "Exa"),
                     e2e_file("y.go", ("and", M, ("tag", B)), "Exb"), e2e_file("z.go", ("and", M, ("not", ("tag", A))), "Nota"), e2e_file("lib.go", None, "Leaked")])
            fl = ("" if host[0] == L else L, A)
            jobs.append({"kind": "compile", "top": top, "sub": None, "env": envs[n % len(envs)], "plat": forced_platform(host, *fl), "flags": fl, "gocmd": True, "goplan": ""})
        odd = [("", "ARM"), ("", " arm"), ("", "arm "), ("", "x86_64"), ("", "aarch64"), ("macos", ""), ("", "ar"), ("Linux", "")]
        for n, fl in enumerate(odd if not ctx.quick else odd[:5]):
            top = D([e2e_file("magefile.go", M, "Build"), e2e_file("t_arm.go", M, "Onlya"), e2e_file("t_arm64.go", M, "Onlyb"), e2e_file("t_amd64.go", M, "Onlyc")])
            jobs.append({"kind": "compile", "top": top, "sub": None, "env": envs[n % 2], "plat": forced_platform(host, *fl), "flags": fl, "gocmd": n % 2 == 0, "goplan": ""})
        # constraint lines rewritten IN PLACE (no entry created, removed or renamed) that flip the choice between the directory and
        # magefiles/, all steps of a project sharing its cache directory
        sub2 = lambda: D([e2e_file("targets.go", M, "Sub"), e2e_file("plain.go", None, "Plain")])
        flips = [(D([e2e_file("lib.go", None, "Leaked")]), ("top", e2e_file("lib.go", M, "Leaked"))),                                    # gains the tag: folder -> directory
                 (D([e2e_file("magefile.go", M, "Build")]), ("top", e2e_file("magefile.go", None, "Build"))),                           # loses it: directory -> folder
                 (D([e2e_file("magefile.go", ("and", M, ("tag", other_os)), "Build"), e2e_file("lib.go", None, "Leaked")]),
                  ("top", e2e_file("magefile.go", ("and", M, ("tag", host[0])), "Build"))),                                              # other OS -> host: folder -> directory
                 (D([e2e_file("lib.go", None, "Leaked"), e2e_file("util.go", ("not", M), "Util")]), ("top", e2e_file("util.go", M, "Util")))]
        for n, (top, mut) in enumerate(flips):
            hf = HF0 if n % 2 else {}
            jobs.append({"kind": "flip", "top": top, "sub": sub2(), "env": envs[n % len(envs)], "plat": host, "flags": ("", ""), "gocmd": n == 0, "goplan": "", "mutations": [mut],
                         "history": [{"name": "list", "what": "list", "env": hf}, {"name": "run", "what": "run", "env": hf}, {"name": "run-again", "what": "run", "env": hf},
                                     {"name": "list-after-retag-in-place", "what": "list", "mutate": True, "env": hf}, {"name": "run-after-retag", "what": "run", "env": hf},
                                     {"name": "run-after-retag-again", "what": "run", "env": HF0}]})
        for n, lj in enumerate(link_jobs):
            jobs.append(dict(lj, kind="links", env=envs[n % len(envs)], plat=host, flags=("", ""), gocmd=(n % 2 == 0), goplan=""))

    def layout_at(j, upto):
        """(top, sub) after the first `upto` mutations of the job's history"""
        top = {"id": -1, "mixed": False, "files": list(j["top"]["files"])}
        sub = None if j["sub"] is None else {"id": -1, "mixed": False, "files": list(j["sub"]["files"])}
        for where, f in j.get("mutations", [])[:upto]:
            tgt = top if where == "top" else sub
            tgt["files"] = sorted([x for x in tgt["files"] if x["name"] != f["name"]] + [f], key=lambda x: x["name"].encode())
        return top, sub

    def exe_machine(blob):
        """the architecture an executable says it is for: ELF (class, byte order, e_machine) or PE machine field"""
        if blob[:4] == b"\x7fELF" and len(blob) > 20:
            return ["elf", blob[4], blob[5], int.from_bytes(blob[18:20], "little" if blob[5] == 1 else "big")]
        if blob[:2] == b"MZ" and len(blob) > 0x40:
            off = int.from_bytes(blob[0x3c:0x40], "little")
            if blob[off:off + 4] == b"PE\0\0":
                return ["pe", int.from_bytes(blob[off + 4:off + 6], "little")]
        return None
    ELF = {"amd64": [2, 1, 62], "386": [1, 1, 3], "arm": [1, 1, 40], "arm64": [2, 1, 183], "mips": [1, 2, 8], "mipsle": [1, 1, 8], "mips64": [2, 2, 8],
           "mips64le": [2, 1, 8], "ppc64": [2, 2, 21], "ppc64le": [2, 1, 21], "riscv64": [2, 1, 243], "s390x": [2, 2, 22], "loong64": [2, 1, 258]}
    PE = {"amd64": 0x8664, "386": 0x14c, "arm64": 0xaa64, "arm": 0x1c4}
    rc_, out_, _ = sh(["go", "tool", "dist", "list"], env=goenv(), timeout=60)
    valid_pairs = {tuple(l.split("/")) for l in out_.split()} if rc_ == 0 and out_.strip() else None

    def probe_fails(top, plat):
        """listing the directory itself fails (measured on the unchanged tree, and what Model/Constraints.v says): a .go entry that
        is not hidden and whose name suffix fits the platform cannot be opened / has an unparsable //go:build line; or it has a
        syntax error in its header and its constraints hold with or without the mage tag.  Then magefiles/ is used."""
        for f in top["files"]:
            n = f["name"]
            if not f["broken"] or not n.endswith(".go") or n.startswith(("_", ".")):
                continue
            o, a = name_constraints(n)
            if (o is not None and not (o == plat[0] or ALSO.get(plat[0]) == o)) or (a is not None and a != plat[1]):
                continue
            if f["broken"] in ("badbuild", "multibuild", "dangling"):
                return True
            if satisfied(f, plat[0], plat[1], False, True, nrelease) or satisfied(f, plat[0], plat[1], False, False, nrelease):
                return True
        return False

    def expect(top, sub, plat, top_named=False):
        """the property sentence for a layout: (magefiles/ used?, {file name: target name} of the magefiles).
        top_named: mage was pointed at a directory SPELLED .../magefiles (-d), which is then a magefiles directory itself"""
        use_sub = sub is not None and (probe_fails(top, plat) or not exp(top, plat, False))
        d = sub if use_sub else top
        want = exp(d, plat, use_sub or top_named)
        return use_sub, {f["name"]: f["ident"].lower() for f in d["files"] if f["name"] in want}

    def mage(proj, cache, args, env, timeout=180, j=None, log=None):
        """runs mage on the project the way the job says (cwd / cwd through a link with $PWD / -d), with the recording go
        wrapper when the job asks for it; returns the run record with r["go_calls"] = [[subcommand, GOOS, GOARCH, CGO_ENABLED], ...]"""
        cwd, pre, env = proj, [], dict(env)
        via = (j or {}).get("via")
        if via:
            kind, path = via[0], os.path.join(os.path.dirname(proj), via[1])      # a sibling entry: a link to the project, or its spelled name
            if kind == "cwd":
                cwd = path
                env["PWD"] = path
            else:
                cwd, pre = mg.root, ["-d", path]
        if j and j.get("xargs"):
            pre = list(j["xargs"]) + pre
        if j and j.get("xenv"):
            env.update(j["xenv"])
        if j and j.get("wdir"):
            wd_ = os.path.join(os.path.dirname(proj), j["wdir"])
            os.makedirs(wd_, exist_ok=True)
            pre = ["-w", wd_] + pre
        if j and j.get("gocmd"):
            pre = ["-gocmd", gowrap] + pre
            env["C10_GOLOG"] = log
            env["C10_GOCOUNT"] = os.path.join(os.path.dirname(log), "gocount")
            env["C10_GOPLAN"] = j.get("goplan", "")
        r = mg.run(cwd, pre + args, env=env, timeout=timeout, cache=cache)
        tries = 2                 # the go tool occasionally fails under heavy load, and a fault plan adds one failure of its own:
        while r["rc"] != 0 and tries > 0:     # up to two more attempts before believing a failure
            tries -= 1
            if GO_CACHE_TROUBLE.search(r["err"]) and not getattr(mage, "patience_used", 0) > 40:
                # the go tool lost an entry of its OWN build cache (somebody is cleaning ~/.cache/go-build while we run): that is
                # not mage's doing; wait a little and grant more attempts (bounded for the whole run)
                mage.patience_used = getattr(mage, "patience_used", 0) + 1
                time.sleep(2)
                tries += 1
            r = mg.run(cwd, pre + args, env=env, timeout=timeout, cache=cache)
        r["go_calls"] = []
        if log and os.path.exists(log):
            r["go_calls"] = [l.split("\t") for l in open(log).read().splitlines() if l.strip()]
        return r

    def run_job(j):
        """builds the project in a fresh directory with a cache directory of its own and runs the job's steps"""
        files = {f["name"]: f["text"] for f in j["top"]["files"]}
        if j["sub"] is not None:
            for f in j["sub"]["files"]:
                files["magefiles/" + f["name"]] = f["text"]
        with lock:
            mg.n += 1
            base = "p%04d" % mg.n
        links = j.get("links") or {}
        # the project's REAL directory may itself be named magefiles (reached through a link or spelled with -d)
        proj = mg.project(files, name=base + "/magefiles" if links.get("real_name_magefiles") else base + "/proj", probe=False)
        outside = os.path.join(os.path.dirname(proj), "elsewhere")
        if links.get("sub"):          # proj/magefiles becomes a symlink to a directory outside the project
            tgt = os.path.join(outside, "common", "buildscripts") if links["sub"] == "other-name" else os.path.join(outside, "shared", "magefiles")
            os.makedirs(os.path.dirname(tgt), exist_ok=True)
            shutil.move(os.path.join(proj, "magefiles"), tgt)
            shutil.copy(os.path.join(proj, "go.mod"), os.path.join(tgt, "go.mod"))
            os.symlink(tgt, os.path.join(proj, "magefiles"))
        for rel in links.get("files", []):      # a magefile that is a symlink to a file kept elsewhere
            os.makedirs(os.path.join(outside, "files"), exist_ok=True)
            dst = os.path.join(outside, "files", rel.replace("/", "_") + ".txt")
            shutil.move(os.path.join(proj, rel), dst)
            os.symlink(dst, os.path.join(proj, rel))
        if links.get("project_link"):           # the project reached through a link with another name
            os.symlink(proj, os.path.join(os.path.dirname(proj), links["project_link"]))
        attrs = j.get("attrs") or {}
        if attrs.get("chown") is not None and os.geteuid() == 0:      # the project belongs to another user
            for root_, ds_, fs_ in os.walk(proj):
                for n_ in [root_] + [os.path.join(root_, x) for x in fs_]:
                    os.lchown(n_, attrs["chown"], attrs["chown"])
        if attrs.get("sub_mode") is not None and os.path.isdir(os.path.join(proj, "magefiles")):
            os.chmod(os.path.join(proj, "magefiles"), attrs["sub_mode"])
        if attrs.get("proj_mode") is not None:
            os.chmod(proj, attrs["proj_mode"])
        if attrs.get("parent_mode") is not None:
            os.chmod(os.path.dirname(proj), attrs["parent_mode"])
        cache = os.path.join(os.path.dirname(proj), "cache")
        os.makedirs(cache, exist_ok=True)
        res = {"proj": proj, "steps": []}
        logn = [0]
        def golog():
            logn[0] += 1
            return os.path.join(os.path.dirname(proj), "golog.%d" % logn[0])
        top_named = bool(j.get("top_named"))
        for rel, kind in (j.get("extras") or {}).items():      # entries of the directory that are not (good) Go files
            pth = os.path.join(proj, rel)
            if kind == "dangling":
                if os.path.lexists(pth):
                    os.remove(pth)
                os.symlink(os.path.join(proj, "no-such-file.go"), pth)
            elif kind == "dir":
                os.makedirs(pth, exist_ok=True)
                with open(os.path.join(pth, "inside.go"), "w") as fh:
                    fh.write("//go:build mage\n\npackage main\n\nfunc Inside() {}\n")
            elif kind == "unreadable":
                os.chmod(pth, 0)
        nmut = 0
        for st in j["history"]:
            if st.get("mutate"):
                where, f = j["mutations"][nmut]
                nmut += 1
                with open(os.path.join(proj, "magefiles" if where == "sub" else "", f["name"]), "w") as fh:
                    fh.write(f["text"])
            top, sub = layout_at(j, nmut)
            env = dict(j["env"], **st.get("env", {}))
            o = {"step": st["name"], "mutations": nmut}
            if st["what"] == "compile":
                # -compile to the SAME output path at every step; which files were compiled in: the binary's function-name table
                # holds main.<Target> of every file used (the targets are //go:noinline and reachable from the generated main)
                cflags = tuple(st.get("cflags") or j["flags"])
                plat = forced_platform(host, *cflags)
                out = os.path.join(proj, st.get("out", "out.bin"))
                args = st.get("flags", []) + ["-compile", out] + (["-goos", cflags[0]] if cflags[0] else []) + (["-goarch", cflags[1]] if cflags[1] else [])
                r = mage(proj, cache, args, env, timeout=600, j=j, log=golog())
                blob = open(out, "rb").read() if os.path.exists(out) else b""
                def compiled(d):
                    return sorted(f["name"] for f in d["files"] if re.search(rb"main\." + f["ident"].encode() + rb"(?![A-Za-z0-9_])", blob))
                o.update({"rc": r["rc"], "cflags": list(cflags), "plat": list(plat), "files": compiled(top) if blob else None,
                          "subfiles": compiled(sub) if blob and sub is not None else [], "magic": blob[:4].hex() if blob else None,
                          "machine": exe_machine(blob), "go_calls": r["go_calls"], "raw": {"stdout": r["out"][-800:], "stderr": r["err"][-800:]}})
                if blob and r["rc"] == 0 and plat == tuple(host):
                    r2 = mg.run(proj, ["-l"], env=j["env"], exe=out, cache=cache)      # a host binary can say itself what it offers
                    o["listed"] = sorted(projlib.parse_list(r2["out"])["targets"]) if r2["rc"] == 0 else None
                res["steps"].append(o)
                continue
            use_sub, want = expect(top, sub, j["plat"], top_named)
            if st["what"] == "list" or not want:
                r = mage(proj, cache, st.get("flags", []) + ["-l"], env, j=j, log=golog())
                o["targets"] = sorted(projlib.parse_list(r["out"])["targets"])
            else:
                r = mage(proj, cache, st.get("flags", []) + [sorted(want.values())[0]], env, j=j, log=golog())
                m = re.search(r"^WD (.*)$", r["out"], re.M)
                o["wd"] = os.path.realpath(m.group(1)) if m else None
            o["rc"] = r["rc"]
            o["go_calls"] = r["go_calls"]
            o["warn"] = bool(r["err"].strip())          # some warning on stderr; its wording is not read
            o["raw"] = {"stdout": r["out"][-800:], "stderr": r["err"][-800:]}   # kept in the replay file for diagnosis only
            res["steps"].append(o)
        return res

    def judge(j, res):
        """(None or the failed clause, Coq items for the listings observed)"""
        items = []
        for o in res["steps"]:
            top, sub = layout_at(j, o.get("mutations", 0))
            plat = tuple(o.get("plat") or j["plat"])
            cflags = tuple(o.get("cflags") or j["flags"])
            top_named = bool(j.get("top_named"))
            use_sub, want = expect(top, sub, plat, top_named)
            where = "magefiles subdirectory" if use_sub else "directory"
            at = "step %s: " % o["step"] if len(res["steps"]) > 1 else ""
            # every go command of the invocation: `build` must be given exactly the platform the files were listed for (the
            # flags, else the host); no other go command may be given a GOOS/GOARCH that is neither that platform nor the host
            for call in o.get("go_calls", []):
                if len(call) < 3:
                    continue
                got = (call[1], call[2])
                if (call[0] == "build" and got != tuple(plat)) or (call[0] != "build" and got not in (tuple(plat), tuple(host))):
                    return at + "`go %s` was run with GOOS=%s GOARCH=%s; the magefiles were listed for %s/%s (flags %s, caller's environment %s); all go calls: %s" % (
                        call[0], call[1], call[2], plat[0], plat[1], list(cflags), j["env"], [c[:3] for c in o["go_calls"]]), items
            if "magic" in o:
                if not want:
                    if o["rc"] == 0:
                        return at + "no file of the project requires the mage tag for %s/%s, but -compile succeeded using %s / %s" % (plat[0], plat[1], o["files"], o["subfiles"]), items
                    continue
                flags = " ".join(x for x in ("-goos " + repr(cflags[0]) if cflags[0] else "", "-goarch " + repr(cflags[1]) if cflags[1] else "") if x)
                if valid_pairs is not None and tuple(plat) not in valid_pairs:
                    # not a platform of the go tool (odd spellings are taken literally): the build cannot succeed
                    if o["rc"] == 0:
                        return at + "-compile %s succeeded (%s) although %s/%s is no platform of the go tool; nothing may be trimmed, translated or completed" % (
                            flags, o["machine"], plat[0], plat[1]), items
                    continue
                if o["rc"] != 0:
                    return at + "mage failed (rc=%d): %s" % (o["rc"], o["raw"]["stderr"][-400:]), items
                magic = {"windows": "4d5a", "linux": "7f454c46", "darwin": "cffaedfe"}.get(plat[0], "7f454c46")
                wantm = (["elf"] + ELF[plat[1]]) if (o["machine"] or [None])[0] == "elf" and plat[1] in ELF else (["pe", PE[plat[1]]] if (o["machine"] or [None])[0] == "pe" and plat[1] in PE else None)
                if wantm is not None and o["machine"] != wantm:
                    return at + "-compile %s produced an executable for machine %s, %s/%s is %s" % (flags, o["machine"], plat[0], plat[1], wantm), items
                exp_top, exp_sub = (set(), set(want)) if use_sub else (set(want), set())
                if o["files"] is None or set(o["files"]) != exp_top or set(o["subfiles"]) != exp_sub:
                    return at + "-compile %s for %s/%s compiled %s of the directory and %s of magefiles/, the property sentence says %s of the %s" % (
                        flags, plat[0], plat[1], o["files"], o["subfiles"], sorted(want), where), items
                if not (o["magic"] or "").startswith(magic):
                    return at + "-compile %s produced a file starting with %s (expected %s)" % (flags, o["magic"], magic), items
                if "listed" in o and o["listed"] != sorted(want.values()):
                    return at + "the binary produced by -compile %s lists %s, the magefiles as they are now %s define %s" % (flags, o["listed"], sorted(want), sorted(want.values())), items
                items.append((top, sub, bool(o["subfiles"]) and not o["files"], o["subfiles"] if use_sub else o["files"], top_named, cflags))
                continue
            if not want:
                # neither the directory nor a magefiles subdirectory provides a magefile: mage must say so
                if o["rc"] == 0 or o.get("targets"):
                    return at + "no file of the project requires the mage tag, but mage exited %d listing %s" % (o["rc"], o.get("targets")), items
                continue
            if o["rc"] != 0:
                return at + "mage failed (rc=%d): %s" % (o["rc"], o["raw"]["stderr"][-400:]), items
            if "targets" in o:
                if o["targets"] != sorted(want.values()):
                    return at + "`mage -l` lists %s, the magefiles %s define %s (%s used)" % (o["targets"], sorted(want), sorted(want.values()), where), items
                if sub is not None and not use_sub and not o["warn"]:
                    return at + "no warning although both the directory and its magefiles subdirectory hold magefiles", items
                d = sub if use_sub else top
                items.append((top, sub, use_sub, sorted(f["name"] for f in d["files"] if f["ident"].lower() in o["targets"]), top_named, cflags))
            elif o["wd"] != os.path.realpath(os.path.join(os.path.dirname(res["proj"]), j["wdir"]) if j.get("wdir") else res["proj"]):
                return at + "target ran in %s, expected %s (options %s %s)" % (o["wd"], ("the -w directory " + j["wdir"]) if j.get("wdir") else
                    ("the parent of the magefiles directory " if use_sub else "the directory ") + res["proj"], j.get("xargs", []), j.get("xenv", {})), items
        return None, items

    import threading
    lock = threading.Lock()
    HF = {"MAGEFILE_HASHFAST": "1"}
    for n, j in enumerate(jobs):
        if "history" in j:
            continue
        if j["kind"] == "compile":
            j["history"] = [{"name": "compile", "what": "compile"}]
        elif j["kind"] in ("links", "parent"):
            j["history"] = [{"name": "list", "what": "list"}, {"name": "run", "what": "run"}, {"name": "run-again-hashfast", "what": "run", "env": HF}]
        elif j["kind"] != "layout":
            j["history"] = [{"name": "list", "what": "list"}, {"name": "run", "what": "run"}]
        else:
            # a short history: the working directory and the files used must be the same function of the layout at every step
            j["history"] = [{"name": "list", "what": "list"}, {"name": "run", "what": "run"},
                            {"name": "run-again-hashfast", "what": "run", "env": HF}, {"name": "list-hashfast", "what": "list", "env": HF},
                            {"name": "run-forced-hashfast", "what": "run", "env": HF, "flags": ["-f"]},
                            {"name": "list-after-change", "what": "list", "mutate": True, "env": HF if n % 2 else {}},
                            {"name": "run-after-change", "what": "run", "env": HF if n % 2 else {}},
                            {"name": "run-after-change-again", "what": "run", "env": HF}]
            k = n % 3
            if k == 0 or j["sub"] is None and k == 1:
                mut = ("top", e2e_file("zextra.go", ("tag", "mage"), "Zextra"))                  # a new tagged file in the directory itself
            elif k == 1:
                mut = ("sub", e2e_file("zmore.go", None, "Zmore"))                                # a new untagged file inside magefiles/
            else:
                pool = [("top", f) for f in j["top"]["files"]] + [("sub", f) for f in (j["sub"] or {"files": []})["files"]]
                where, f = pool[n % len(pool)] if pool else ("top", e2e_file("zextra.go", ("tag", "mage"), "Zextra"))
                mut = (where, dict(f, text=f["text"] + "\n// edited\n"))                         # the same layout, one file's content changed
            j["mutations"] = [mut]

    results = pmap(run_job, jobs, jobs=min(8, NCPU))
    ditems, dmeta = [], []
    unconfirmed = []
    for j, res in zip(jobs, results):
        ctx.add("e2e_" + j["kind"])
        bad, items = judge(j, res)
        case = {"e2e": {k: j[k] for k in ("kind", "top", "sub", "env", "plat", "flags", "history", "mutations", "links", "via", "top_named", "gocmd", "goplan", "extras", "attrs", "xargs", "xenv", "wdir") if k in j}, "observed": res["steps"], "project": res["proj"],
                "repo": REPO}
        if bad:
            # a deterministic defect shows again in a fresh copy of the project (new directory, new cache); a one-off does not
            again = [judge(j, run_job(j))[0] for _ in range(2)]
            rep = [a for a in again if a]
            if rep:
                if len(ctx.violations) < 8:
                    ctx.violation({"kind": "oracle", "clause": "end-to-end: " + bad, "reproduced": "%d of 2 fresh repetitions" % len(rep)}, case=case)
                else:
                    ctx.add("further_oracle_failures_not_written")
            else:
                unconfirmed.append({"clause": bad, "case": case})
                ctx.log("UNCONFIRMED end-to-end deviation (not reproduced in 2 fresh repetitions): " + bad)
            continue
        for top, sub, used_sub, names, top_named, cflags in items:
            ditems.append("{| d_top := %s; d_sub := %s; d_has_sub := %s; d_top_named := %s; d_hostos := %s; d_hostarch := %s; d_cgo := false; d_release := %s; d_tool := %s; "
                          "d_goos := %s; d_goarch := %s; d_obs := (%s, Some %s) |}" % (
                              coq_list([file_coq(f) for f in top["files"]]), coq_list([file_coq(f) for f in (sub or {"files": []})["files"]]),
                              coq_bool(sub is not None), coq_bool(top_named), coq_str(host[0]), coq_str(host[1]), coq_list([coq_str(t) for t in release]),
                              coq_list([coq_str(t) for t in tooltags]), coq_str(cflags[0]), coq_str(cflags[1]), coq_bool(used_sub),
                              coq_list([coq_str(n) for n in sorted(names, key=lambda s: s.encode())])))
            dmeta.append(case)
    if unconfirmed:
        # kept visible: the evidence file and a file next to the replays hold the raw output of the run that deviated
        ctx.coverage["unconfirmed_deviations"] = [u["clause"][:300] for u in unconfirmed]
        ctx.notes.append("%d end-to-end deviation(s) were not reproduced in fresh repetitions and are not counted as violations; raw output in replays/C10-unconfirmed-*.json" % len(unconfirmed))
        try:
            os.makedirs(os.path.join(VERIF, "replays"), exist_ok=True)
            for u in unconfirmed:
                with open(os.path.join(VERIF, "replays", "C10-unconfirmed-%s.json" % case_hash(u)[:12]), "w") as fh:
                    json.dump(dict(u, property="C10", seed=ctx.seed, tier=ctx.tier, failing_input_found=False), fh, indent=1, default=str)
        except OSError:
            pass
    if ditems:
        mism = ctx.coq_eval_shards("cases_C10_e2e", HEADER + "Definition mismatches := dmismatches.\n", ditems, per_shard=100)
        if mism and not ctx.violations:
            idx, body = mism[0]
            ctx.violation({"kind": "model-vs-implementation", "correspondence": "Run/eval_C10.dmismatches", "model_says": body[:400]}, case=dmeta[idx], found_input=False)
        ctx.coverage["e2e_model_mismatches"] = len(mism)
    ctx.coverage["e2e_steps"] = sum(len(r["steps"]) for r in results)
    return len(jobs)


# ---------------------------------------------------------------- library use: sequences of calls in one process
def seq_file(name, expr, pkg, ident):
    form = "none" if expr is None else "gobuild"
    return {"name": name, "form": form, "expr": expr, "pkg": pkg, "broken": None, "ident": ident, "text": file_text(form, expr, None, pkg, ident, None)}


def gen_sequence(rng, si, host):
    """one directory and 3-6 calls of mage.Magefiles on it IN ONE PROCESS; between the calls nothing is created, removed or
    renamed: constraint lines are rewritten in place, contents are swapped between two files, the platform alternates"""
    d = gen_dir(rng, 100000 + si)
    pkgs = ["main", "main", "other"] if d["mixed"] else ["main"]
    state = [dict(f) for f in d["files"]]
    q = gen_request(rng, host)
    plat = forced_platform(host, q["goos"], q["goarch"])
    other = "plan9" if plat[0] != "plan9" else "windows"
    M = ("tag", "mage")
    steps = []
    for k in range(rng.choice([3, 4, 4, 5, 6])):
        edits, kind = [], "first"
        if k > 0:
            r = rng.random()
            gos = [i for i, f in enumerate(state) if f["name"].endswith(".go")]
            if r < 0.55 and gos:
                kind = "retag"
                for i in rng.sample(gos, min(len(gos), rng.choice([1, 1, 2]))):
                    f = state[i]
                    choice = rng.random()
                    if choice < 0.6:
                        new = rng.choice([M, None, ("and", M, ("tag", other)), ("and", M, ("tag", plat[0])), ("not", M), ("or", M, ("tag", "foo")), ("and", M, ("not", ("tag", plat[1])))])
                        if new == f["expr"] and not f["broken"]:
                            new = None if new is not None else M
                        nf = seq_file(f["name"], new, f["pkg"] if f["pkg"] != "documentation" else "main", f["ident"])
                    else:
                        nf = gen_file(rng, f["name"], int(f["ident"][1:]), pkgs, False)
                    state[i] = nf
                    edits.append({"name": nf["name"], "text": nf["text"]})
            elif r < 0.75 and len(gos) >= 2:
                kind = "swap"
                i, j = rng.sample(gos, 2)
                a, b = state[i], state[j]
                state[i] = dict(b, name=a["name"])
                state[j] = dict(a, name=b["name"])
                edits += [{"name": state[i]["name"], "text": state[i]["text"]}, {"name": state[j]["name"], "text": state[j]["text"]}]
            elif r < 0.9:
                kind = "platform"
                q = dict(gen_request(rng, host), isdir=q["isdir"])
            else:
                kind = "same"
        steps.append({"kind": kind, "edits": edits, "restore_file_mtime": rng.random() < 0.5, "restore_dir_mtime": rng.random() < 0.5,
                      "goos": q["goos"], "goarch": q["goarch"], "isdir": q["isdir"], "isdebug": rng.random() < 0.4, "state": [dict(f) for f in state]})
    return {"id": si, "files0": d["files"], "mixed": d["mixed"], "steps": steps}


def run_sequences(ctx, binp, host, supported, release, nrelease, report):
    rng = ctx.rng
    seqs = [gen_sequence(rng, si, host) for si in range(40 if ctx.quick else 600)]
    if ctx.replay and ctx.replay.get("case", {}).get("seq"):
        sq = ctx.replay["case"]["seq"]
        for f in sq["files0"]:
            f["expr"] = tup(f["expr"])
        for st in sq["steps"]:
            for f in st["state"]:
                f["expr"] = tup(f["expr"])
        seqs = [sq]
    variants = [("unset", {}), ("foreign", {"GOOS": "windows", "GOARCH": "arm64"})]
    if ctx.replay and ctx.replay.get("case", {}).get("seq"):
        variants = [(ctx.replay["case"]["env_name"], ctx.replay["case"]["env"])]
    root = os.path.join(ctx.tmp, "seqs")

    def one(v):
        vname, envv = v
        reqs = []
        for sq in seqs:
            path = os.path.join(root, vname, "s%05d" % sq["id"])
            write_dir(path, {"files": sq["files0"]})
            reqs.append({"op": "magefiles_seq", "raw": {"dir": path, "cache": "", "steps": [
                {k: st.get(k, False) for k in ("edits", "restore_file_mtime", "restore_dir_mtime", "goos", "goarch", "isdir", "isdebug")} for st in sq["steps"]]}})
        lines = [json.dumps({"op": "buildctx"})] + [json.dumps(r) for r in reqs]
        rc, out, err = sh([binp], input=("\n".join(lines) + "\n").encode(), env=proc_env(envv), timeout=1800)
        ans = [json.loads(l) for l in out.splitlines() if l.strip()]
        if rc != 0 or len(ans) != len(reqs) + 1 or any(isinstance(a, dict) and "error" in a for a in ans):
            raise BuildError("unitrun (magefiles_seq) failed: %s %s" % (err[-1000:], [a for a in ans if isinstance(a, dict) and "error" in a][:2]))
        return ans[0], ans[1:]
    results = pmap(one, variants)
    procs = [proc_coq(envv, dflt) for (vname, envv), (dflt, _) in zip(variants, results)]
    items, meta, calls, kinds = [], [], 0, {}
    for pi, ((vname, envv), (dflt, answers)) in enumerate(zip(variants, results)):
        for sq, res in zip(seqs, answers):
            for k, (st, a) in enumerate(zip(sq["steps"], res)):
                calls += 1
                kinds[st["kind"]] = kinds.get(st["kind"], 0) + 1
                d = {"id": sq["id"], "files": sorted(st["state"], key=lambda f: f["name"].encode()), "mixed": sq["mixed"]}
                q = {k2: st.get(k2, False) for k2 in ("goos", "goarch", "isdir", "isdebug")}
                a = {"files": a["files"], "err": a["err"]}
                what = oracle(d, q, host, envv, dflt, supported, nrelease, a["files"], a["err"])
                case = {"seq": {"id": sq["id"], "files0": sq["files0"], "mixed": sq["mixed"], "steps": sq["steps"][:k + 1]}, "failing_call": k, "env_name": vname, "env": envv,
                        "request": q, "implementation": a, "all_results_so_far": [{"files": x["files"], "err": x["err"]} for x in res[:k + 1]]}
                if what and what.get("clause") != "cgo-valuation-from-startup-platform":
                    what = dict(what, clause="call %d of a sequence in one process (after: %s; file mtimes %s, directory mtime %s): %s" % (
                        k + 1, st["kind"], "restored" if st["restore_file_mtime"] else "new", "restored" if st["restore_dir_mtime"] else "as is", what["clause"]))
                report(what, case, d, envv)
                items.append(case_coq(d, host, supported, release, procs, [run_coq(pi, q, a)]))
                meta.append(case)
    header = HEADER + "Definition release := %s.\nDefinition procs : list proc := %s.\n" % (coq_list([coq_str(t) for t in release]), coq_list(procs))
    per_shard = max(8, (len(items) + NCPU - 1) // NCPU)
    mism = ctx.coq_eval_shards("cases_C10_seq", header, items, per_shard=per_shard, timeout=900 if ctx.quick else 3000) if items else []
    if mism and not ctx.violations:
        for idx, body in mism[:3]:
            ctx.violation({"kind": "model-vs-implementation", "correspondence": "Run/eval_C10.mismatches (sequence of calls in one process)", "model_says": body[:300]},
                          case=meta[idx], found_input=False)
    ctx.coverage["sequence_calls"] = calls
    ctx.coverage["sequence_steps_by_kind"] = kinds
    ctx.coverage["sequence_model_mismatches"] = len(mism)
    return calls


def run_invoke_sequences(ctx, binp, host, nrelease):
    """mage.Invoke (List) called repeatedly in one process on one project; constraint lines rewritten in place between the
    calls, with the directory's modification time put back (Invoke itself touches the directory)"""
    rng = ctx.rng
    mg = projlib.Mage(ctx)
    M = ("tag", "mage")
    other = "plan9" if host[0] != "plan9" else "windows"
    jobs = []
    for n in range(3 if ctx.quick else 10):
        files = [e2e_file("magefile.go", M, "Build"), e2e_file("tasks.go", rng.choice([None, ("and", M, ("tag", other))]), "Tasks"),
                 e2e_file("extra.go", rng.choice([M, ("and", M, ("tag", host[0]))]), "Extra")]
        states = [files]
        cur = list(files)
        for k in range(2):
            i = rng.randrange(1, 3) if k == 0 else rng.randrange(0, 3)
            f = cur[i]
            new = rng.choice([x for x in (M, None, ("and", M, ("tag", other)), ("and", M, ("tag", host[0]))) if x != f["expr"]])
            cur = list(cur)
            cur[i] = e2e_file(f["name"], new, f["ident"])
            states.append(cur)
        jobs.append(states)
    rc_ = (ctx.replay or {}).get("case") or {}
    if rc_.get("invoke_seq"):
        jobs = [[[dict(f, expr=tup(f["expr"])) for f in st] for st in rc_["invoke_seq"]["states"]]]

    def one(states):
        proj = mg.project({f["name"]: f["text"] for f in states[0]}, probe=False)
        steps = [{"edits": [], "invoke": True, "goos": "", "goarch": "", "isdir": False, "restore_dir_mtime": False, "restore_file_mtime": False}]
        for prev, cur in zip(states, states[1:]):
            steps.append({"edits": [{"name": f["name"], "text": f["text"]} for f, g in zip(cur, prev) if f["text"] != g["text"]], "invoke": True,
                          "goos": "", "goarch": "", "isdir": False, "restore_dir_mtime": True, "restore_file_mtime": True})
        line = json.dumps({"op": "magefiles_seq", "raw": {"dir": proj, "cache": proj + ".cache", "steps": steps}}) + "\n"
        rc, out, err = sh([binp], input=line.encode(), env=mg.env(), cwd=proj, timeout=900)
        try:
            return proj, json.loads(out.splitlines()[0])
        except Exception:
            raise BuildError("unitrun (invoke sequence) failed: rc=%d %s" % (rc, err[-1500:]))
    def judge(states, res):
        for k, (st, a) in enumerate(zip(states, res)):
            d = {"id": -1, "files": sorted(st, key=lambda f: f["name"].encode()), "mixed": False}
            want = sorted(f["ident"].lower() for f in st if f["name"] in expected_files(d, host[0], host[1], False, False, nrelease)[0])
            got = sorted(projlib.parse_list(a["stdout"])["targets"])
            ok = (a["rc"] != 0 and not got) if not want else (a["rc"] == 0 and got == want)
            if not ok:
                return k, "call %d of mage.Invoke(List) in one process lists %s (rc=%d), the files as they are now %s define %s" % (
                    k + 1, got, a["rc"], [(f["name"], expr_text(f["expr"]) if f["expr"] else None) for f in st], want)
        return None, None
    n = 0
    for states, (proj, res) in zip(jobs, pmap(one, jobs, jobs=4)):
        n += len(res)
        k, bad = judge(states, res)
        if bad:
            # the confirmation rule of the end-to-end part: a defect of mage shows again in a fresh repetition, a hiccup of the go tool does not
            again = []
            for rep_ in range(8):
                r2 = one(states)[1]
                b2 = judge(states, r2)[1]
                if b2 and any(GO_CACHE_TROUBLE.search(x["stderr"]) for x in r2) and rep_ < 7:
                    time.sleep(3)        # the go tool's own cache is being cleaned underneath it: not a repetition that counts
                    continue
                again.append(b2)
                if len(again) == 2:
                    break
            if any(again):
                if len(ctx.violations) < 8:
                    ctx.violation({"kind": "oracle", "clause": bad, "reproduced": "%d of 2 fresh repetitions" % len([a for a in again if a])},
                                  case={"invoke_seq": {"states": states[:k + 1]}, "observed": res[:k + 1]})
            else:
                ctx.log("UNCONFIRMED deviation of an Invoke sequence (not reproduced in 2 fresh repetitions): " + bad[:200] + " | " + res[k]["stderr"][-300:])
                ctx.coverage.setdefault("unconfirmed_deviations", []).append(bad[:300])
    ctx.coverage["invoke_sequence_calls"] = n
    return n


# ---------------------------------------------------------------- run
def run(ctx):
    ctx.prove(["Props/C10.vo", "Run/eval_C10.vo"])
    import extractlib; extractlib.tables_tie(ctx, ['MagefilesDirName'])   # literal data of the source re-proved equal to the models' (DESIGN 3.5)
    extractlib.fn_tie(ctx, ['filter', 'EnvWithGOOS/Constraints'])   # pure functions translated from the current source, re-proved equal to the models' (tools/notes/Translator.md)
    ctx.trusted_base += [
        "harness/unitrun ops magefiles, buildctx (in-process call of mage.Magefiles; report of go/build's build.Default)",
        "checks/c10.py (directory generator, Coq printer, oracle, known-finding classifier)",
        "go/build (Context.Import, matchFile, matchTag, goodOSArchFile, defaultContext) and go/build/constraint: modelled in Model/Constraints.v, "
        "not verified; the model is compared with the real package on every generated case",
        "start-up values fed per case: os.Environ(), runtime.GOOS/GOARCH, build.Default.ToolTags/ReleaseTags, cgo support of the host",
    ]
    # F24 is on the pinned tree; the entries live here until known_findings.json carries them
    have = {k.get("id") for k in ctx.known_findings}
    for k in KNOWN_F24:
        if k["id"] not in have:
            ctx.known_findings.append(k)
    binp = go_build_harness(ctx, "unitrun")
    rng = ctx.rng

    base, _ = run_unit(binp, {}, [])
    host = (base["hostos"], base["hostarch"])
    supported = base["cgo"]            # clean environment: build.Default.CgoEnabled == platform.CgoSupported(host)
    release = base["releasetags"]
    nrelease = len(release)

    variants = env_variants(host, ctx.quick)
    ndirs = 56 if ctx.quick else 1500
    per_dir = 3 if ctx.quick else 4
    dirs, reqs = [], []
    replay_run = None
    if ctx.replay and ctx.replay.get("case", {}).get("dir"):
        c = ctx.replay["case"]
        d = c["dir"]
        for f in d["files"]:
            f["expr"] = tup(f["expr"])
        d.setdefault("mode", None)
        dirs = [d]
        reqs = [dict(c["request"], di=0)]
        variants = [(c["env_name"], c["env"])]
        ndirs = 0
    if ctx.replay and (ctx.replay.get("case", {}).get("e2e") or ctx.replay.get("case", {}).get("seq") or ctx.replay.get("case", {}).get("invoke_seq")):
        ndirs = 0
    for di in range(ndirs):
        d = gen_dir(rng, di)
        dirs.append(d)
        for _ in range(per_dir):
            reqs.append(dict(gen_request(rng, host), di=di))
    root = os.path.join(ctx.tmp, "dirs")
    for i, d in enumerate(dirs):
        d["path"] = os.path.join(root, "d%04d" % i)
        write_dir(d["path"], d, gomod=not ctx.quick)
    wire = []
    for k, q in enumerate(reqs):
        p = dirs[q["di"]]["path"]
        if k % 7 == 3:
            wire.append({"cwd": os.path.dirname(p), "dir": os.path.basename(p), "goos": q["goos"], "goarch": q["goarch"], "isdir": q["isdir"], "isdebug": q.get("isdebug", False)})
        elif k % 7 == 5:
            wire.append({"cwd": p, "dir": ".", "goos": q["goos"], "goarch": q["goarch"], "isdir": q["isdir"], "isdebug": q.get("isdebug", False)})
        else:
            wire.append({"cwd": "", "dir": p, "goos": q["goos"], "goarch": q["goarch"], "isdir": q["isdir"], "isdebug": q.get("isdebug", False)})
    results = pmap(lambda v: run_unit(binp, v[1], wire), variants)
    ctx.log("implementation: %d calls of mage.Magefiles in %d fresh processes" % (len(wire) * len(variants), len(variants)))

    cov = ctx.coverage
    evaluations = 0
    seen = set()
    nontriv = 0
    dist = {"error": 0, "empty": 0, "nonempty": 0}
    runs_by_dir = {}
    meta_by_dir = {}
    known_seen = {}
    procs = [proc_coq(envv, dflt) for (vname, envv), (dflt, answers) in zip(variants, results)]
    def report(what, case, d, envv):
        if not what:
            return
        if what.get("clause") == "cgo-valuation-from-startup-platform":
            known_seen[what["variant"]] = known_seen.get(what["variant"], 0) + 1
            if known_seen[what["variant"]] == 1:
                ctx.log("known shape (%s): %s" % (what["variant"], what["detail"]))
                ctx.sample({"known_finding_example": what["variant"], "detail": what["detail"], "env": envv, "request": case["request"],
                            "files": [(f["name"], expr_text(f["expr"]) if f["expr"] else None) for f in d["files"]]}, limit=8)
            what = {k: what[k] for k in ("kind", "clause", "variant")}
        if len(ctx.violations) < 5:
            ctx.violation(what, case=case)
        else:
            ctx.add("further_oracle_failures_not_written")

    for pi, ((vname, envv), (dflt, answers)) in enumerate(zip(variants, results)):
        for q, w, a in zip(reqs, wire, answers):
            d = dirs[q["di"]]
            evaluations += 1
            dist["error" if a["err"] else ("nonempty" if a["files"] else "empty")] += 1
            if not a["err"] and a["files"] and a["dirs"] != [w["dir"]]:
                ctx.violation({"kind": "oracle", "clause": "returned paths are not inside the directory asked for: %s vs %s" % (a["dirs"], w["dir"])},
                              case={"dir": {k: d[k] for k in ("id", "files", "mixed", "mode")}, "request": {k: q.get(k, False) for k in ("goos", "goarch", "isdir", "isdebug")}, "env_name": vname, "env": envv})
            what = oracle(d, q, host, envv, dflt, supported, nrelease, a["files"], a["err"])
            case = {"dir": {k: d[k] for k in ("id", "files", "mixed", "mode")}, "request": {k: q.get(k, False) for k in ("goos", "goarch", "isdir", "isdebug")}, "env_name": vname, "env": envv,
                    "implementation": {"files": a["files"], "err": a["err"]}, "build_default": {k: dflt[k] for k in ("goos", "goarch", "cgo")}}
            report(what, case, d, envv)
            runs_by_dir.setdefault(q["di"], []).append(run_coq(pi, q, a))
            meta_by_dir.setdefault(q["di"], []).append(case)
            h = case_hash([q["di"], q["goos"], q["goarch"], q["isdir"], vname])
            if h not in seen:
                seen.add(h)
                want, _ = expected_files(d, *forced_platform(host, q["goos"], q["goarch"]), False, q["isdir"], nrelease)
                cands = [f for f in d["files"] if candidate(f["name"])]
                if 0 < len(want) < len(cands) or a["err"]:
                    nontriv += 1
    items, order = [], []
    for di in sorted(runs_by_dir):
        items.append(case_coq(dirs[di], host, supported, release, procs, runs_by_dir[di]))
        order.append(di)
    per_shard = max(4, (len(items) + NCPU - 1) // NCPU)
    header = HEADER + "Definition release := %s.\nDefinition procs : list proc := %s.\n" % (coq_list([coq_str(t) for t in release]), coq_list(procs))
    mism = ctx.coq_eval_shards("cases_C10", header, items, per_shard=per_shard, timeout=900 if ctx.quick else 3000) if items else []
    if mism and not ctx.violations:
        for idx, body in mism[:3]:
            di = order[idx]
            # the body holds all mismatches of the shard; find this case's own entry
            mm = re.search(r"\(%d(?:%%nat)?,\s*AtRun (\d+)" % (idx % per_shard), body)
            ri = int(mm.group(1)) if mm else 0
            case = meta_by_dir[di][min(ri, len(meta_by_dir[di]) - 1)]
            ctx.violation({"kind": "model-vs-implementation", "correspondence": "Run/eval_C10.mismatches", "model_says": body[:400]}, case=case, found_input=False)

    ctx.log("model evaluated on %d directories: %d mismatches" % (len(items), len(mism)))
    # thorough: `go list` with GOOS/GOARCH forced as a third opinion on a sample
    third = 0
    if not ctx.quick and not ctx.replay:
        # the go command enables cgo on the host only if it finds a C compiler; where it does not, leave `cgo` out of the comparison
        e = goenv()
        e.pop("CGO_ENABLED", None)
        go_cgo = sh(["go", "env", "CGO_ENABLED"], env=e, timeout=60)[1].strip() == "1"
        cov["go_command_cgo_on_host"] = go_cgo
        sample = [(q, d) for q, d in ((q, dirs[q["di"]]) for q in reqs)
                  if not d["mixed"] and not any(f["broken"] or f["pkg"] != "main" for f in d["files"]) and not q["isdir"]
                  and (go_cgo == supported or not any("cgo" in expr_tags(f["expr"]) for f in d["files"]))
                  and forced_platform(host, q["goos"], q["goarch"])[0] in OSES and forced_platform(host, q["goos"], q["goarch"])[1] in GO_LIST_ARCHS][:400]

        def third_opinion(qd):
            q, d = qd
            plat = forced_platform(host, q["goos"], q["goarch"])
            gf = "-mod=mod" if d["id"] % 2 else "-mod=mod -tags=integration,tools"      # a CI job's GOFLAGS: both listings under the same environment
            a = go_list(d["path"], plat[0], plat[1], "mage", "", gf)
            b = go_list(d["path"], plat[0], plat[1], "", "", gf)
            if a is None or b is None:
                return None
            return (a - b, expected_files(d, plat[0], plat[1], should_cgo("", plat, host, supported), False, nrelease)[0])
        for (q, d), r in zip(sample, pmap(third_opinion, sample)):
            if r is None:
                continue
            third += 1
            if r[0] != r[1]:
                ctx.violation({"kind": "oracle-vs-go-list", "clause": "the oracle and `go list -tags mage` disagree: %s vs %s" % (sorted(r[1]), sorted(r[0]))},
                              case={"dir": {k: d[k] for k in ("id", "files", "mixed", "mode")}, "request": {k: q.get(k, False) for k in ("goos", "goarch", "isdir", "isdebug")}, "env_name": "unset", "env": {}},
                              found_input=False)
    rcase = (ctx.replay or {}).get("case") or {}
    if not ctx.replay or rcase.get("seq"):
        nseq = run_sequences(ctx, binp, host, supported, release, nrelease, report)
        ctx.log("library use: %d calls of mage.Magefiles in sequences within one process" % nseq)
    if not ctx.replay or rcase.get("invoke_seq"):
        ninv = run_invoke_sequences(ctx, binp, host, nrelease)
        ctx.log("library use: %d calls of mage.Invoke in sequences within one process" % ninv)
    ne2e = 0
    if not (rcase.get("dir") or rcase.get("seq") or rcase.get("invoke_seq")):
        base_tool = base["tooltags"]
        ne2e = run_e2e(ctx, host, nrelease, release, base_tool)
        ctx.log("end-to-end: %d projects" % ne2e)

    cov["evaluations"] = evaluations
    cov["distinct_nontrivial"] = nontriv
    cov["rule"] = ("(directory, -goos/-goarch/isMagefilesDirectory, start-up environment) triples; distinct by hash; non-trivial = the expected set of magefiles "
                   "is neither empty nor all candidate files, or Magefiles returned an error")
    cov["directories"] = len(dirs)
    cov["environments"] = [v[0] for v in variants]
    cov["results"] = dist
    cov["files_per_directory"] = {str(k): sum(1 for d in dirs if len(d["files"]) == k) for k in sorted({len(d["files"]) for d in dirs})}
    forms = {}
    for d in dirs:
        for f in d["files"]:
            k = f["broken"] or f["form"]
            forms[k] = forms.get(k, 0) + 1
    cov["header_forms"] = forms
    cov["mixed_package_directories"] = sum(1 for d in dirs if d["mixed"])
    cov["model_mismatches"] = len(mism)
    cov["traces_validated_against_impl"] = evaluations - len(mism)
    cov["known_shape_cases"] = known_seen
    cov["go_list_third_opinion"] = third
    cov["end_to_end_projects"] = ne2e
    for d in dirs[:2]:
        ctx.sample({"directory": [(f["name"], f["pkg"], (f["broken"] or f["form"]), expr_text(f["expr"]) if f["expr"] else None) for f in d["files"]]}, limit=8)
