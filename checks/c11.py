"""C11 - flags, environment and standard streams reach the targets unchanged.

Theorems: coq/Props/C11.v over Model/Flags.v (front end: Parse / Invoke / RunCompiled; generated
main: flag defaults from MAGEFILE_*, re-export of MAGEFILE_VERBOSE; mg accessors; os/exec's last-wins
environment).  Correspondence: generated projects (magefile beside go.mod / in a magefiles directory /
both) whose target `Probe` prints what it sees (cwd, whole environment, mg.Verbose/Debug/GoCmd, stdin
digest, context deadline, whether the std logger is live); every configuration is run through the
real `mage` built from the working tree AND through a -compile'd binary with the same options as
flags and as MAGEFILE_* variables; the Coq model must reproduce every run (vm_compute).  Target `Echo`
copies payload files to stdout / stderr in a scripted interleaving (byte transport: not in the model,
carried by this run only).  Oracle: a direct Python reading of the property sentence."""
import os, re, json, hashlib, base64, subprocess, stat
from vlib import *
import projlib

MAGEFILE = r'''//go:build mage

// Probe project of the C11 check.
package main

import (
	"context"
	"crypto/sha256"
	"encoding/base64"
	"encoding/hex"
	"encoding/json"
	"fmt"
	"io"
	"log"
	"os"
	"strconv"
	"strings"
	"time"

	"github.com/magefile/mage/mg"
)

const origin = "@ORIGIN@"

// Default is what runs when no target is named.
var Default = Probe

// Probe reports what a target sees as one JSON line.
func Probe(ctx context.Context) error {
	return report(ctx, "probe")
}

// Probearg is Probe with one string argument: whatever word follows it on the command line.
func Probearg(ctx context.Context, s string) error {
	return report(ctx, "probearg", s)
}

// Probetwo takes two string arguments.
func Probetwo(ctx context.Context, a, b string) error {
	return report(ctx, "probetwo", a, b)
}

func b64s(l []string) []string {
	out := []string{}
	for _, s := range l {
		out = append(out, base64.StdEncoding.EncodeToString([]byte(s)))
	}
	return out
}

// prep is a dependency of every probe target: in verbose mode mg announces it on stderr.
func prep() {}

func report(ctx context.Context, target string, args ...string) error {
	fmt.Fprintln(os.Stderr, "PROBE-START")
	mg.Deps(prep)
	cwd, _ := os.Getwd()
	data, err := io.ReadAll(os.Stdin)
	if err != nil {
		return err
	}
	sum := sha256.Sum256(data)
	dl, has := ctx.Deadline()
	var rem int64
	if has {
		rem = int64(time.Until(dl))
	}
	env := []string{}
	for _, kv := range os.Environ() {
		env = append(env, base64.StdEncoding.EncodeToString([]byte(kv)))
	}
	log.Println("PROBE-LOG")
	fmt.Fprintln(os.Stderr, "PROBE-ERR")
	b, _ := json.Marshal(map[string]interface{}{
		"target": target, "args": b64s(args),
		"origin": origin, "cwd": cwd, "env": env, "built_os": builtOS(), "built_arch": builtArch(),
		"verbose": mg.Verbose(), "debug": mg.Debug(), "gocmd": base64.StdEncoding.EncodeToString([]byte(mg.GoCmd())),
		"stdin_len": len(data), "stdin_sha": hex.EncodeToString(sum[:]), "has_deadline": has, "remaining_ns": rem,
	})
	if ms, _ := strconv.Atoi(os.Getenv("VERIF_PROBE_WORK_MS")); ms > 0 {
		// the target works for a while, well inside its timeout, and gives up when its context does
		select {
		case <-time.After(time.Duration(ms) * time.Millisecond):
		case <-ctx.Done():
			return ctx.Err()
		}
	}
	fmt.Println("PROBE " + string(b))
	return nil
}

// Echo copies two payload files to stdout and stderr in the scripted interleaving.
func Echo() error {
	out, err := os.ReadFile(os.Getenv("VERIF_ECHO_OUT"))
	if err != nil {
		return err
	}
	errb, err := os.ReadFile(os.Getenv("VERIF_ECHO_ERR"))
	if err != nil {
		return err
	}
	repeat, _ := strconv.Atoi(os.Getenv("VERIF_ECHO_REPEAT"))
	if repeat < 1 {
		repeat = 1
	}
	steps := strings.Split(os.Getenv("VERIF_ECHO_SCRIPT"), ",")
	for i := 0; i < repeat*len(steps); i++ {
		step := steps[i%len(steps)]
		if len(step) < 2 {
			continue
		}
		n, _ := strconv.Atoi(step[1:])
		if step[0] == 'z' {
			time.Sleep(time.Duration(n) * time.Microsecond)
		} else if step[0] == 'o' {
			if n > len(out) {
				n = len(out)
			}
			os.Stdout.Write(out[:n])
			out = out[n:]
		} else {
			if n > len(errb) {
				n = len(errb)
			}
			os.Stderr.Write(errb[:n])
			errb = errb[n:]
		}
	}
	os.Stdout.Write(out)
	os.Stderr.Write(errb)
	return nil
}
'''

TTY_GO = r'''//go:build mage

package main

import (
	"encoding/base64"
	"encoding/json"
	"fmt"
	"io"
	"os"
	"syscall"
	"unsafe"
)

func winsize(fd uintptr) (bool, [4]uint16) {
	ws := [4]uint16{}
	_, _, e := syscall.Syscall(syscall.SYS_IOCTL, fd, syscall.TIOCGWINSZ, uintptr(unsafe.Pointer(&ws)))
	return e == 0, ws
}

// Tty talks to the terminal: it announces itself on stderr, reads what is typed until end of input, asks the
// terminal for its size and reports on stdout.
func Tty() error {
	fmt.Fprintln(os.Stderr, "TTY-READY")
	data, err := io.ReadAll(os.Stdin)
	if err != nil {
		return err
	}
	in, _ := winsize(os.Stdin.Fd())
	out, ws := winsize(os.Stdout.Fd())
	er, _ := winsize(os.Stderr.Fd())
	b, _ := json.Marshal(map[string]interface{}{"read": base64.StdEncoding.EncodeToString(data),
		"tty": []bool{in, out, er}, "rows": ws[0], "cols": ws[1]})
	fmt.Fprintln(os.Stderr, "TTY-ERR")
	fmt.Println("TTY " + string(b))
	return nil
}
'''


def proc_tree(root):
    """{pid: (state, comm)} of root and all its descendants, from /proc"""
    procs = {}
    for d in os.listdir("/proc"):
        if d.isdigit():
            try:
                t = open("/proc/%s/stat" % d).read()
                comm = t[t.index("(") + 1:t.rindex(")")]
                f = t[t.rindex(")") + 2:].split()
                procs[int(d)] = (f[0], int(f[1]), comm)
            except (OSError, ValueError):
                pass
    tree, todo = {}, [root]
    while todo:
        p = todo.pop()
        if p in procs and p not in tree:
            tree[p] = (procs[p][0], procs[p][2])
            todo += [q for q, (_, pp, _) in procs.items() if pp == p]
    return tree


def run_tty(argv, cwd, env, typed, rows=33, cols=101, limit=120):
    """Start argv as the FOREGROUND JOB of a fresh terminal session: pty.fork() makes the child a session leader with the
    pty as controlling terminal and its process group the terminal's foreground group.  The terminal is set up like an
    interactive one except that output is not post-processed and input is not echoed (so that bytes can be compared),
    with TOSTOP set.  When the program says it is ready, a line is typed, then ^D.  While it runs the states of all
    processes of the tree are sampled: none may be stopped (T) - a stopped process ends the run at once."""
    import pty, termios, fcntl, struct, select, time
    pid, master = pty.fork()
    if pid == 0:
        try:
            a = termios.tcgetattr(0)
            a[1] &= ~termios.OPOST
            a[3] = (a[3] | termios.ICANON | termios.ISIG | termios.TOSTOP) & ~termios.ECHO
            termios.tcsetattr(0, termios.TCSANOW, a)
            fcntl.ioctl(0, termios.TIOCSWINSZ, struct.pack("HHHH", rows, cols, 0, 0))
            os.chdir(cwd)
            os.execve(argv[0], argv, env)
        finally:
            os._exit(127)
    out, typed_at, stopped, t0, rc, fg = b"", None, {}, time.time(), None, None
    try:
        while True:
            r, _, _ = select.select([master], [], [], 0.2)
            if r:
                try:
                    chunk = os.read(master, 65536)
                except OSError:
                    chunk = b""
                if not chunk:
                    break
                out += chunk
            if typed_at is None and b"TTY-READY" in out:
                time.sleep(0.3)             # the program is now blocked in read(2) on the terminal
                try:
                    fg = os.tcgetpgrp(master)
                except OSError:
                    fg = None
                os.write(master, typed + b"\x04")
                typed_at = time.time()
            tree = proc_tree(pid)
            bad = {p: sc for p, sc in tree.items() if sc[0] in ("T", "t")}
            if bad:
                time.sleep(0.5)
                tree2 = proc_tree(pid)
                bad = {p: tree2[p] for p in bad if p in tree2 and tree2[p][0] in ("T", "t")}
                if bad:
                    stopped = {"stopped": bad, "tree": tree2}
                    break
            done, st = os.waitpid(pid, os.WNOHANG)
            if done:
                rc = os.waitstatus_to_exitcode(st)
                # drain
                while True:
                    r, _, _ = select.select([master], [], [], 0.2)
                    if not r:
                        break
                    try:
                        chunk = os.read(master, 65536)
                    except OSError:
                        break
                    if not chunk:
                        break
                    out += chunk
                break
            if time.time() - t0 > limit:
                stopped = {"hang": True, "tree": proc_tree(pid)}
                break
    finally:
        if rc is None:
            import signal
            for p in sorted(proc_tree(pid), reverse=True):
                try:
                    os.kill(p, signal.SIGKILL)
                except OSError:
                    pass
            try:
                _, st = os.waitpid(pid, 0)
                rc = os.waitstatus_to_exitcode(st) if not stopped else None
            except OSError:
                pass
        os.close(master)
    return {"rc": rc, "out": out, "typed": typed_at is not None, "problem": stopped, "foreground": fg is None or fg == pid}


TRUE_VALUES = {b"1", b"t", b"T", b"TRUE", b"true", b"True"}          # the property's "set to a true value"
BOOL_FLAG = {True: ["-v", "-v=true", "-v=1", "--v", "-v=T"], False: ["-v=false", "-v=0", "-v=F", "--v=false"]}
SIX = [b"MAGEFILE_VERBOSE", b"MAGEFILE_LIST", b"MAGEFILE_HELP", b"MAGEFILE_DEBUG", b"MAGEFILE_GOCMD", b"MAGEFILE_TIMEOUT"]
VOLATILE = set()     # nothing is exempt: PWD, OLDPWD, SHLVL, _ are ordinary variables of the caller (mage hands os.Environ() on)
BASE_KEEP = ("PATH", "HOME", "TMPDIR", "LANG", "GOFLAGS", "GOPROXY", "GOSUMDB", "GOTOOLCHAIN", "CGO_ENABLED", "GOPATH", "GOCACHE", "GOROOT", "GOMODCACHE")
SLOW_T = 6 * 10**9      # the timeout of the slow-build runs
DEADLINES = [90 * 10**9, 3600 * 10**9, 360000 * 10**9]
T_SPELL = {90 * 10**9: ["90s", "1m30s", "90000ms"], 3600 * 10**9: ["1h", "3600s", "60m"], 360000 * 10**9: ["100h", "6000m"]}
ENV_BOOL_POOL = [None, None, None, None, b"1", b"1", b"1", b"0", b"0", b"true", b"false", b"T", b"garbage", b"", b"TRUE", b"yes", b" 1", b"tRuE", b"F"]
ENV_T_POOL = [None, None, None, b"90s", b"1m30s", b"1h0m0s", b"100h", b"garbage", b"", b"90", b"0s"]
EXTRA_POOL = [(b"FOO", b"bar"), (b"EMPTY", b""), (b"EQ", b"a=b=c"), (b"SP", b"x y"), (b"GOOS", b"plan9"), (b"GOARCH", b"mips"),
              (b"GOOS", b"windows"), (b"GOARCH", b"wasm"), (b"GOOS", b"@HOSTOS@"), (b"GOARCH", b"@HOSTARCH@"),
              (b"GOOS", b"notanos"), (b"GOARCH", b"bogus"), (b"GOOS", b""), (b"GOARCH", b""), (b"GOARCH", b"arm64"), (b"UNI", "héllo→世界".encode()), (b"NL", b"line1\nline2"),
              (b"TAB", b"a\tb "), (b"lower_case", b"Mixed"), (b"a.b-c", b"dots"), (b"BYTES", b"\xff\xfe\x80"), (b"QUOTE", b"\"'\\$HOME`x`"),
              (b"LONG", b"0123456789abcdef" * 20), (b"MAGEFILE_FOO", b"zzz"), (b"MAGEFILE_IGNOREDEFAULT", b"1"),
              (b"MAGEFILE_TARGET_COLOR", b"Red"), (b"MAGEFILE_HASHFAST", b"1"), (b"MAGEFILEX", b"no underscore"), (b"EQ2", b"=lead"),
              (b"MAGEFILE_ENABLE_COLOR", b"1"), (b"MAGEFILE_ENABLE_COLOR", b"true"), (b"MAGEFILE_ENABLE_COLOR", b"1"), (b"MAGEFILE_ENABLE_COLOR", b"0"),
              (b"MAGEFILE_TARGET_COLOR", b"BrightGreen"), (b"TERM", b"xterm-256color"), (b"TERM", b"vt100"), (b"TERM", b"dumb"), (b"TERM", b""),
              # variables a shell maintains, with deliberately odd values: they are the caller's, not mage's to correct
              (b"PWD", b"/nonexistent/caller-pwd"), (b"PWD", b"/nonexistent/caller-pwd"), (b"PWD", b"/"), (b"PWD", b"relative/pwd"), (b"PWD", b""),
              (b"OLDPWD", b"/nonexistent/old pwd"), (b"SHLVL", b"41"), (b"_", b"/odd/underscore"), (b"home", b"/lower-case-home"),
              (b"Path", b"/mixed/case/path"), (b"GOFLAGS_", b"-odd")]


def hx(b):
    return b.hex()


def unhx(s):
    return bytes.fromhex(s)


# ---------------------------------------------------------------- projects
HOST = [None, None]    # GOHOSTOS, GOHOSTARCH of the go tool (the platform mage itself runs on)


def platform_files(i):
    """Two pairs of magefiles that provide builtOS() / builtArch() with different bodies: one member of each
    pair is constrained to the host platform, the other to everything else - as a //go:build constraint or as
    a file name suffix.  Which member is compiled shows which platform the magefile was built for."""
    hos, harch = HOST
    files = {}
    def helper(fn, val):
        return "\npackage main\n\nfunc %s() string { return \"%s\" }\n" % (fn, val)
    if i % 2 == 0:
        files["plat_os_here.go"] = "//go:build mage && %s\n" % hos + helper("builtOS", "host")
    else:
        files["plat_%s.go" % hos] = "//go:build mage\n" + helper("builtOS", "host")
    files["plat_os_other.go"] = "//go:build mage && !%s\n" % hos + helper("builtOS", "other")
    if (i // 2) % 2 == 0:
        files["plat_arch_here.go"] = "//go:build mage && %s\n" % harch + helper("builtArch", "host")
    else:
        files["platarch_%s.go" % harch] = "//go:build mage\n" + helper("builtArch", "host")
    files["plat_arch_other.go"] = "//go:build mage && !%s\n" % harch + helper("builtArch", "other")
    return files


class Proj:
    def __init__(self, m, ctx, i, layout):
        files = {}
        plat = platform_files(i)
        if layout in ("plain", "both"):
            files["magefile.go"] = MAGEFILE.replace("@ORIGIN@", "top")
            files.update(plat)
        if layout in ("mfdir", "both"):
            files["magefiles/magefile.go"] = MAGEFILE.replace("@ORIGIN@", "mfdir")
            files.update({"magefiles/" + k: v for k, v in plat.items()})
        if HOST[0] == "linux":
            for pre in ([""] if layout == "plain" else (["magefiles/"] if layout == "mfdir" else ["", "magefiles/"])):
                files[pre + "tty_linux.go"] = TTY_GO
        self.layout = layout
        self.plat = sorted(plat)
        self.d = os.path.realpath(m.project(files, name="c11_%d" % i, probe=False))
        self.parent = os.path.dirname(self.d)
        self.work = os.path.join(self.d, "work")
        self.deep = os.path.join(self.d, "nested", "deep")
        side = os.path.realpath(os.path.join(ctx.tmp, "side_%d" % i))
        self.elsewhere = os.path.join(side, "else where")
        self.bin = os.path.join(side, "bin", "mage")
        self.cache = os.path.join(side, "cache")
        self.pay = os.path.join(side, "pay")
        for p in (self.work, self.deep, self.elsewhere, os.path.dirname(self.bin), self.cache, self.pay):
            os.makedirs(p, exist_ok=True)
        self.npay = 0
        # go wrappers reachable by a relative path from wherever mage is started, and through a directory with a space
        self.gow = os.path.join(self.d, "tools", "gow")
        self.gospace = os.path.join(side, "go dir", "gow")
        for w in (self.gow, self.gospace):
            os.makedirs(os.path.dirname(w), exist_ok=True)
            with open(w, "w") as f:
                f.write(GOWRAP_SH)
            os.chmod(w, 0o755)
        # symbolic links, so that the lexical shortening of a path (filepath.Clean) and what chdir(2) does differ:
        #   <project>/link -> <side>/area/deep   (link/.. is <side>/area, not the project)
        #   <parent>/lnk_<project> -> <project>
        self.area = os.path.join(side, "area")
        os.makedirs(os.path.join(self.area, "deep", "er"), exist_ok=True)
        os.symlink(os.path.relpath(os.path.join(self.area, "deep"), self.d), os.path.join(self.d, "link"))
        self.dlink = os.path.join(self.parent, "lnk_" + os.path.basename(self.d))
        os.symlink(os.path.basename(self.d), self.dlink)

    def start(self, dv):
        """-d variant -> (directory mage is started in, -d string or None)"""
        if dv == "none":
            return self.d, None
        if dv == "dot":
            return self.d, "."
        if dv == "rel":
            return self.parent, os.path.basename(self.d)
        if dv == "relslash":
            return self.parent, "./" + os.path.basename(self.d) + "/"
        if dv == "abs":
            return self.elsewhere, self.d
        if dv == "nested":
            return self.deep, "../.."
        b = os.path.basename(self.d)
        # spellings of one and the same directory
        if dv == "reldot":
            return self.parent, b + "/."
        if dv == "relslashes":
            return self.parent, ".//" + b + "//"
        if dv == "relupdown":
            return self.parent, b + "/../" + b
        if dv == "workup":
            return self.d, "work/.."
        if dv == "symlink":          # a symbolic link to the project directory (no ".." behind it: see the notes)
            return self.parent, os.path.basename(self.dlink)
        if dv == "symlinkslash":
            return self.parent, os.path.basename(self.dlink) + "/"
        if dv == "absdot":
            return self.elsewhere, self.d + "/./"
        raise ValueError(dv)

    def wstr(self, wv, cwd):
        if wv == "none":
            return None
        if wv == "rel":
            return os.path.relpath(self.work, cwd)
        if wv == "abs":
            return self.elsewhere
        if wv == "nested":
            return os.path.relpath(self.deep, cwd)
        if wv == "parent":
            return ".."
        # spellings; through the symbolic link the lexical and the operating system's resolution differ
        rel = os.path.relpath(self.d, cwd)
        pre = "" if rel == "." else rel + "/"
        tails = {"dotted": "work/.", "dslash": "nested//deep/", "updown": "work/../work", "dotslash": "./work",
                 "link": "link", "linkslash": "link/", "linkup": "link/..", "linkupslash": "link/../", "linkupdeep": "link/../deep",
                 "linkdown": "link/er", "sublinkup": "work/../link/../", "linkupup": "link/../..", "linkdot": "link/."}
        if wv in tails:
            return pre + tails[wv]
        if wv == "abslinkup":
            return self.d + "/link/.."
        if wv == "abslinkupdeep":
            return self.d + "/work/../link/../deep/er"
        raise ValueError(wv)


def base_env(m, proj, gocache):
    e = m.env(cache=proj.cache)
    out = {}
    for k in BASE_KEEP:
        if k in e:
            out[k.encode()] = e[k].encode("utf-8", "surrogateescape")
    out[b"GOCACHE"] = gocache.encode()
    out[b"MAGEFILE_CACHE"] = proj.cache.encode()
    return out


def run_proc(argv, cwd, env, stdin=b"", combined=False, timeout=240, sinkfile=None, stdin_kind="pipe", scratch=None):
    """stdin_kind: what kind of file the process finds as its stdin - "pipe" (the payload through a pipe), "file" (a
    regular file holding it), "socket" (one end of a unix socketpair, the payload written to the other end, then
    shut down: what `ssh host cmd < data` without a pty or a socket-activated service gives), "devnull"."""
    import socket, threading
    if sinkfile:
        # ONE open file passed as the process's stdout AND stderr (as `>log 2>&1` does)
        try:
            with open(sinkfile, "wb") as f:
                p = subprocess.run(argv, cwd=cwd, env=env, input=stdin, timeout=timeout, stdout=f, stderr=f)
            return {"rc": p.returncode, "out_b": open(sinkfile, "rb").read(), "err_b": b""}
        except subprocess.TimeoutExpired:
            return {"rc": 124, "out_b": open(sinkfile, "rb").read(), "err_b": b"[timeout]"}
    errdst = subprocess.STDOUT if combined else subprocess.PIPE
    closers, writer, inp, sin = [], None, None, None
    try:
        if stdin_kind == "pipe":
            sin, inp = subprocess.PIPE, stdin
        elif stdin_kind == "devnull":
            sin = subprocess.DEVNULL
        elif stdin_kind == "file":
            path = os.path.join(scratch, "stdin_%d_%d" % (os.getpid(), threading.get_ident()))
            with open(path, "wb") as f:
                f.write(stdin)
            sin = open(path, "rb")
            closers.append(sin)
        elif stdin_kind == "socket":
            ours, theirs = socket.socketpair()
            sin = theirs
            closers.append(theirs)

            def feed():
                try:
                    ours.sendall(stdin)
                    ours.shutdown(socket.SHUT_WR)
                except OSError:
                    pass
            writer = threading.Thread(target=feed)
        else:
            raise ValueError(stdin_kind)
        p = subprocess.Popen(argv, cwd=cwd, env=env, stdin=sin, stdout=subprocess.PIPE, stderr=errdst)
        for c in closers:
            c.close()
        closers = []
        if writer:
            writer.start()
        try:
            out, err = p.communicate(input=inp, timeout=timeout)
            rc = p.returncode
        except subprocess.TimeoutExpired:
            p.kill()
            out, err = p.communicate()
            rc, err = 124, (err or b"") + b"\n[timeout]"
        if writer:
            writer.join(10)
            ours.close()
        return {"rc": rc, "out_b": out or b"", "err_b": err or b""}
    finally:
        for c in closers:
            c.close()


# ---------------------------------------------------------------- configurations
def payload(rng, kind):
    if kind == "empty":
        return b""
    if kind == "text":
        return b"line one\nline two without newline"
    if kind == "nl":
        return b"\n\n\r\n"
    if kind in ("lines-even", "lines-odd"):
        return b"".join(b"%05d\n" % i for i in range(0 if kind == "lines-even" else 1, 12000, 2))
    if kind == "binary":
        n = rng.choice([1, 17, 4096, 70000])
        return bytes(rng.getrandbits(8) for _ in range(n - 3)) + b"\x00\x00\xff" if n > 3 else b"\x00"
    if kind == "big":
        blk = bytes(rng.getrandbits(8) for _ in range(4096))
        return (blk * 256)[:-1] + b"\x00"           # 1 MiB
    raise ValueError(kind)


def gen_cfg(rng, klass, layout, gowrap, quick):
    c = {"klass": klass, "layout": layout, "v": None, "debug": None, "l": None, "h": None, "t": None, "gocmd": None,
         "env": [], "dv": "none", "wv": "none", "stdin": "empty", "word": "probe", "off": None, "dd": False, "B": [], "twords": None, "stdin_kind": "pipe"}
    env = {}
    if klass == "tty":
        # a terminal session: the program is the foreground job of a fresh pty and its target reads what is typed
        c.update(word="tty", tty=True, typed=rng.choice(["hello tty", "two words \t tab", "x", ""]), v=None, debug=None)
        c["env"] = []
        return c
    if klass == "slowbuild":
        # -t to mage with a build phase made slow (the go command sleeps before `go build`), a target that works well
        # inside its timeout but outlives any clock the front end might have started before building
        c.update(t="6s", gocmd="@GOSLOW@", stdin="text", seed=rng.getrandbits(32), v=rng.choice([None, "-v"]), slow=True)
        env = {b"VERIF_GO_DELAY": b"15", b"VERIF_PROBE_WORK_MS": b"3000"}
        c["env"] = [[hx(k), hx(v)] for k, v in env.items()]
        return c
    if klass == "explicit-off":
        off = rng.choice(["list", "help", "t0", "tneg"])
        c["off"] = off
        if off == "list":
            c["l"] = False
            env[b"MAGEFILE_LIST"] = rng.choice([b"1", b"true"])
        elif off == "help":
            c["h"] = False
            env[b"MAGEFILE_HELP"] = rng.choice([b"1", b"T"])
        elif off == "t0":
            c["t"] = rng.choice(["0", "0s"])
            env[b"MAGEFILE_TIMEOUT"] = rng.choice([b"90s", b"1h"])
        else:
            c["t"] = "-5s"
        if rng.random() < 0.5:
            c["v"] = rng.choice(BOOL_FLAG[True] + BOOL_FLAG[False])
        c["env"] = [[hx(k), hx(v)] for k, v in env.items()]
        return c
    # -v / MAGEFILE_VERBOSE, -debug / MAGEFILE_DEBUG
    r = rng.random()
    if r < 0.3:
        c["v"] = rng.choice(BOOL_FLAG[True])
    elif r < 0.6:
        c["v"] = rng.choice(BOOL_FLAG[False])
    ev = rng.choice(ENV_BOOL_POOL)
    if ev is not None:
        env[b"MAGEFILE_VERBOSE"] = ev
    r = rng.random()
    if r < 0.25:
        c["debug"] = rng.choice(["-debug", "-debug=true", "-debug=1"])
    elif r < 0.5:
        c["debug"] = rng.choice(["-debug=false", "-debug=0"])
    ed = rng.choice(ENV_BOOL_POOL)
    if ed is not None:
        env[b"MAGEFILE_DEBUG"] = ed
    # go command: flag {absent, the default "go", a custom command} x variable {unset, "go", custom, "", garbage}
    # (a garbage variable only together with a flag: without one mage would have to build with it)
    # spellings of a custom command: absolute path, a path RELATIVE to the directory mage is started in (with a
    # separator), an absolute path through a directory with a space, a bare name found on PATH
    custom = rng.choice([gowrap, gowrap, "@GOREL@", "@GOREL@", "@GOSPACE@", "gobare"])
    gflag = rng.choice([None, None, None, "go", "go", custom, custom])
    gvars = [None, None, b"go", custom.encode(), gowrap.encode(), b""]
    if gflag is not None:
        gvars += [b"/nonexistent/go-from-the-variable", gowrap.encode()]
    gvar = rng.choice(gvars)
    c["gocmd"] = gflag
    if gvar is not None:
        env[b"MAGEFILE_GOCMD"] = gvar
    # timeout
    r = rng.random()
    if r < 0.3:
        c["t"] = rng.choice(T_SPELL[rng.choice(DEADLINES)])
    et = rng.choice(ENV_T_POOL)
    if et is not None and (r < 0.15 or r >= 0.3):
        env[b"MAGEFILE_TIMEOUT"] = et
    # list / help (switched ON only; the OFF spellings are the explicit-off class)
    if klass == "listhelp":
        how = rng.choice(["l", "h", "envl", "envh", "lh"])
        if how in ("l", "lh"):
            c["l"] = True
        if how in ("h", "lh"):
            c["h"] = True
        if how == "envl":
            env[b"MAGEFILE_LIST"] = rng.choice([b"1", b"true", b"T"])
        if how == "envh":
            env[b"MAGEFILE_HELP"] = rng.choice([b"1", b"TRUE"])
    else:
        r = rng.random()
        if r < 0.06:
            env[b"MAGEFILE_LIST"] = rng.choice([b"0", b"garbage", b"", b"false"])
        elif r < 0.12:
            env[b"MAGEFILE_HELP"] = rng.choice([b"0", b"nope", b""])
    # directories
    c["dv"] = rng.choice(["none", "none", "none", "dot", "rel", "relslash", "abs", "nested", "reldot", "relslashes", "relupdown", "workup", "symlink",
                          "symlinkslash", "absdot"])
    c["wv"] = rng.choice(["none"] * 6 + ["rel", "abs", "nested", "parent", "dotted", "dslash", "updown", "dotslash", "link", "linkslash", "linkup",
                                        "linkupslash", "linkupdeep", "linkdown", "sublinkup", "linkupup", "linkdot", "abslinkup", "abslinkupdeep"])
    # extra variables
    for k, v in rng.sample(EXTRA_POOL, rng.choice([0, 1, 2, 3, 3, 5, 8])):
        env[k] = v
    if b"PWD" not in env and rng.random() < 0.5:
        env[b"PWD"] = b"/nonexistent/caller-pwd"
    if klass == "hashfast":
        # MAGEFILE_HASHFAST=1 late in the run: the binary an earlier configuration of this project left in the cache is
        # run without rebuilding (Invoke's early return) - from another directory than the magefile directory
        env[b"MAGEFILE_HASHFAST"] = rng.choice([b"1", b"true"])
        c["dv"] = rng.choice(["rel", "abs", "nested", "reldot", "relslashes", "symlink", "absdot"])
        c["wv"] = rng.choice(["none", "none", "none", "rel", "linkup"])
        for k in (b"MAGEFILE_LIST", b"MAGEFILE_HELP"):
            env.pop(k, None)
    if klass == "alt":
        # a few thousand short writes alternating between stderr and stdout, both going to ONE sink
        c.update(word="echo", out="lines-odd", err="lines-even", combined=True, sink=rng.choice(["pipe", "file"]), seed=0,
                 v=None, debug=None, t=None, gocmd=None)
        if rng.random() < 0.35:
            c.update(script="e6,z%d,o6,z%d" % (rng.choice([50, 200]), rng.choice([0, 100])), repeat=rng.choice([150, 300]))
        else:
            c.update(script=rng.choice(["e6,o6", "e6,o6", "e12,o12", "e6,e6,o6,o6", "e6,o6,o6,e6"]), repeat=rng.choice([1000, 2000, 3000]))
        env = {k: v for k, v in env.items() if k not in (b"MAGEFILE_VERBOSE", b"MAGEFILE_DEBUG", b"MAGEFILE_TIMEOUT", b"MAGEFILE_LIST", b"MAGEFILE_HELP", b"MAGEFILE_GOCMD")}
        if rng.random() < 0.7:        # colour switches and terminal types must not add a byte to what the target writes
            env[b"MAGEFILE_ENABLE_COLOR"] = rng.choice([b"1", b"true"])
            env[b"TERM"] = rng.choice([b"xterm-256color", b"xterm", b"dumb", b"vt100"])
    elif klass == "echo":
        c["word"] = "echo"
        c["out"] = rng.choice(["empty", "text", "binary", "nl"] + ([] if quick and rng.random() < 0.7 else ["big"]))
        c["err"] = rng.choice(["empty", "text", "binary", "nl"] + ([] if quick and rng.random() < 0.7 else ["big"]))
        c["combined"] = rng.random() < 0.5
        if rng.random() < 0.6:
            env[b"MAGEFILE_ENABLE_COLOR"] = rng.choice([b"1", b"true", b"T"])
            env[b"TERM"] = rng.choice([b"xterm-256color", b"xterm", b"dumb", b"vt100"])
        c["script"] = ",".join("%s%d" % (rng.choice("oe"), rng.choice([0, 1, 2, 7, 100, 5000, 70000])) for _ in range(rng.choice([0, 1, 4, 12])))
        c["seed"] = rng.getrandbits(32)
        if rng.random() < 0.7:         # exact comparison needs a quiet front end and generated main
            c["v"] = None
            c["debug"] = None
            for k in (b"MAGEFILE_VERBOSE", b"MAGEFILE_DEBUG", b"MAGEFILE_TIMEOUT"):
                env.pop(k, None)
        for k in (b"MAGEFILE_LIST", b"MAGEFILE_HELP"):
            env.pop(k, None)
    else:
        c["stdin"] = rng.choice(["empty", "empty", "text", "binary", "nl"] + ([] if quick and rng.random() < 0.8 else ["big"]))
        c["seed"] = rng.getrandbits(32)

        gen_tail(rng, c, env, klass)
        if klass == "default":
            # no target word: the default target runs (and must read the caller's stdin like a named one)
            c["word"] = ""
            c["stdin"] = rng.choice(["text", "binary", "nl", "text", "binary"] + ([] if quick else ["big"]))
            if rng.random() < 0.4:        # only -v (or nothing at all) on the command line
                c.update(debug=None, t=None, gocmd=None, dv="none", wv="none")
                if env.get(b"MAGEFILE_GOCMD", b"").startswith(b"/nonexistent"):
                    del env[b"MAGEFILE_GOCMD"]
                if rng.random() < 0.5:
                    c["v"] = rng.choice(BOOL_FLAG[True])
            for k in (b"MAGEFILE_LIST", b"MAGEFILE_HELP"):
                env.pop(k, None)
    if c["word"] != "echo":
        # the kind of file mage finds as its stdin
        c["stdin_kind"] = rng.choice(["pipe", "pipe", "file", "socket", "socket"]) if c["stdin"] != "empty" else rng.choice(["pipe", "devnull", "file", "socket"])
    c["env"] = [[hx(k), hx(v)] for k, v in env.items()]
    return c


B_RENDER = {"v": ["-v"], "v0": ["-v=false"], "vT": ["--v=T"], "l": ["-l"], "h": ["-h"], "x": ["-x"], "xx": ["--nosuch=1"],
            "vj": ["-v=junk"], "tbad": ["-t", "xyz"], "tbad2": ["-t=1x"], "tmiss": ["-t"], "syn": ["-=x"], "help": ["--help"]}
B_BAD = {"x", "xx", "vj", "tbad", "tbad2", "tmiss", "syn"}


def render_b(B):
    """the compiled program's own flags, as words"""
    out = []
    for it in B:
        if it[0] == "t":
            out += ["-t", it[1]] if it[2] == "sep" else ["-t=" + it[1]]
        else:
            out += B_RENDER[it[0]]
    return out


AFTER_WORDS = ["-h", "--help", "-help", "--h", "-h=true", "-v", "-t", "-l", "--", "-debug", "-f", "-x"]
AW_COUNT = [0]
DD_COUNT = [0]


def gen_tail(rng, c, env, klass):
    """what follows mage's own flags: [--] [flags of the compiled program] [target words]"""
    c.update(dd=False, B=[], twords=None)
    if klass == "afterwords":
        # a flag-looking word at every position behind the first target: the last, a middle one, behind a target
        # without parameters; both front ends must treat it as a plain word
        w = AFTER_WORDS[AW_COUNT[0] % len(AFTER_WORDS)]
        pos = (AW_COUNT[0] // len(AFTER_WORDS) + AW_COUNT[0]) % 4
        AW_COUNT[0] += 1
        c["twords"] = [["probearg", w], ["probetwo", "needle", w], ["probetwo", w, "plain"], ["probe", w]][pos]
        c["stray"] = pos == 3
        for k in (b"MAGEFILE_LIST", b"MAGEFILE_HELP"):
            env.pop(k, None)
        return
    if klass != "dashdash":
        r = rng.random()
        if klass == "matrix" and r < 0.12:       # flag-like words behind the first target are words
            c["twords"] = ["probearg", rng.choice(["--", "-v", "-l", "-t", "-h", "-x", "plain", "a=b", "-"])]
        return
    shapes = ["flags", "bad", "list", "row1", "help", "flags", "last", "bad", "behind-target", "twice", "row4", "helpflag", "flags", "bad"]
    shape = shapes[DD_COUNT[0] % len(shapes)]          # every shape in every run, the rest of the configuration random
    DD_COUNT[0] += 1
    c["shape"] = shape
    c["dd"] = True
    for k in (b"MAGEFILE_LIST", b"MAGEFILE_HELP"):
        env.pop(k, None)
    target = rng.choice([["probe"], ["probe"], ["probearg", rng.choice(["x", "--", "-v"])]])
    if shape == "flags":
        B = []
        if rng.random() < 0.6:
            B.append([rng.choice(["v", "v0", "vT"])])
        if rng.random() < 0.6:
            B.append(["t", rng.choice(T_SPELL[rng.choice(DEADLINES)]), rng.choice(["sep", "eq"])])
        if rng.random() < 0.25:
            B.append([rng.choice(["v", "v0"])])        # a repeated flag: the last one wins
        if rng.random() < 0.2:
            B.append(["t", rng.choice(T_SPELL[rng.choice(DEADLINES)]), "sep"])
        c.update(B=B, twords=target)
    elif shape == "bad":
        B = [[rng.choice(["v", "v0"])]] if rng.random() < 0.4 else []
        B.insert(rng.choice([0, len(B)]), [rng.choice(sorted(B_BAD))])
        c.update(B=B, twords=target)
    elif shape == "list":
        c.update(B=[["l"]], twords=rng.choice([[], ["probe"]]))
    elif shape == "help":
        c.update(B=[["h"]], twords=["probe"])
    elif shape == "helpflag":
        c.update(B=[["help"]], twords=["probe"])
    elif shape == "last":                                # "--" is the last word: the default target runs
        c.update(B=[], twords=[])
        env.pop(b"MAGEFILE_IGNOREDEFAULT", None)
    elif shape == "behind-target":                       # no leading "--": a "--" behind a target word is that target's argument
        c.update(dd=False, B=[], twords=["probearg", "--"])
    elif shape == "twice":                               # a second "--" is consumed by the compiled program
        c.update(B=[], twords=["--"] + target)
    elif shape == "row1":                                # mage -v=false -t 5m -- -v -t 1h probe
        c.update(v="-v=false", t="5m", B=[["v"], ["t", "1h", "sep"]], twords=["probe"])
    elif shape == "row4":                                # mage -- -t -5s probe
        c.update(B=[["t", "-5s", "sep"]], twords=["probe"])
    if c["twords"] and c["stdin"] == "empty":
        c["stdin"] = rng.choice(["empty", "text"])


def flag_bool(sp):
    if sp is None:
        return None
    if "=" not in sp:
        return True
    return sp.split("=", 1)[1] in ("true", "1", "T", "t", "TRUE", "True")


# ---------------------------------------------------------------- running one configuration
def observe(r, stdin_sent):
    """projected observables of one process run"""
    out, err = r["out_b"], r["err_b"]
    o = {"rc": r["rc"], "mode": "unknown"}
    m = re.search(rb"^PROBE (\{.*\})\r?$", out, re.M)
    where = "stdout"
    if not m:
        m = re.search(rb"^PROBE (\{.*\})\r?$", err, re.M)
        where = "stderr"
    if m:
        js = json.loads(m.group(1))
        env = {}
        for e in js["env"]:
            kv = base64.b64decode(e)
            k, _, v = kv.partition(b"=")
            env[k] = v
        words = [js["target"].encode()] + [base64.b64decode(a) for a in js["args"]]
        # stderr up to the target's first own line (PROBE-START): the front end and the generated main;
        # from there to its next own line: mg announcing the dependency
        pre, dep, stage = [], [], 0
        for line in err.split(b"\n"):
            l = line.rstrip(b"\r")
            if stage == 0 and l == b"PROBE-START":
                stage = 1
            elif stage == 0:
                pre.append(line)
            elif stage == 1 and l in (b"PROBE-LOG", b"PROBE-ERR"):
                stage = 2
                break
            elif stage == 1:
                dep.append(line)
        if stage != 2:
            pre, dep = None, None      # the target's stderr markers are not on stderr at all
        mm = re.search(rb"^PROBE-ERR\r?\n", err, re.M)
        post = err[mm.end():] if mm else None
        o.update(mode="run", pre=pre, dep=dep, post=post, words=words, env=env, origin=js["origin"], built_os=js.get("built_os"), built_arch=js.get("built_arch"), cwd=os.path.realpath(js["cwd"]), verbose=js["verbose"], debug=js["debug"],
                 gocmd=base64.b64decode(js["gocmd"]), stdout_on=where,
                 stderr_on="stderr" if re.search(rb"^PROBE-ERR\r?$", err, re.M) else ("stdout" if re.search(rb"^PROBE-ERR\r?$", out, re.M) else None),
                 verbose_log=bool(re.search(rb"^PROBE-LOG\r?$", err + b"\n" + out, re.M)),
                 stdin_ok=(js["stdin_len"] == len(stdin_sent) and js["stdin_sha"] == hashlib.sha256(stdin_sent).hexdigest()),
                 stdin_len=js["stdin_len"])
        if js["has_deadline"]:
            rem = js["remaining_ns"]       # measured inside the child right after its context was made
            cand = [d for d in [SLOW_T] + DEADLINES if d - 30 * 10**9 < rem <= d]
            o["timeout"] = -1 if rem <= 0 else (cand[0] if cand else rem)
        else:
            o["timeout"] = 0
    elif b"context deadline exceeded" in err + out:
        o.update(mode="run", timeout=-1)
    elif b"Targets:" in out:
        o.update(mode="list", text=out)
    elif b"Usage:" in out:
        o.update(mode="help", text=out)
    elif b"[options] [target]" in out:
        # the flag package's error + usage, os.Exit(2): a rejected command line; the usage alone: -help / -h without a word
        o.update(mode="rejected" if r["rc"] == 2 else "usage", text=out)
    return o


GOWRAP_SH = "#!/bin/sh\n[ -n \"$VERIF_GOLOG\" ] && echo \"$1\" >> \"$VERIF_GOLOG\"\nexec go \"$@\"\n"
PATHBIN = [None]    # a directory put on PATH that holds the go wrapper `gobare`
GOSLOW = [None]     # path of a go command that delays `go build` by $VERIF_GO_DELAY seconds
GOWRAP = [None]     # path of the alternative go command of this run (a configuration names it symbolically)


def cfg_env(cfg):
    return {unhx(k): unhx(v).replace(b"@GOWRAP@", GOWRAP[0].encode()).replace(b"@HOSTOS@", HOST[0].encode()).replace(b"@HOSTARCH@", HOST[1].encode())
            for k, v in cfg["env"]}


def resolved(cfg):
    c = dict(cfg)
    if c.get("gocmd"):
        c["gocmd"] = c["gocmd"].replace("@GOWRAP@", GOWRAP[0]).replace("@GOSLOW@", GOSLOW[0])
    return c


def run_cfg(cfg, proj, m, conv, gocache, rng_payload):
    """runs one configuration through mage and through the compiled binary; returns the run records"""
    import random
    cfg = resolved(cfg)
    prng = random.Random(cfg.get("seed", 0))
    base = base_env(m, proj, gocache)
    own = cfg_env(cfg)
    cwd, dstr = proj.start(cfg["dv"])
    wstr = proj.wstr(cfg["wv"], cwd)
    gorel = os.path.relpath(proj.gow, cwd)
    if not gorel.startswith("."):
        gorel = "./" + gorel
    if proj.layout == "mfdir" or cfg["dv"] not in ("none", "dot", "workup"):
        # `go build` is run with cmd.Dir = the magefile directory, and os/exec evaluates a relative command path
        # relative to cmd.Dir: on the unchanged tree a relative -gocmd only builds when that directory is the start
        # directory (see the notes); elsewhere the absolute spelling of the same wrapper is used
        gorel = proj.gow
    subst = {"@GOREL@": gorel, "@GOSPACE@": proj.gospace}
    if cfg["gocmd"]:
        for k, v in subst.items():
            cfg["gocmd"] = cfg["gocmd"].replace(k, v)
    for k, v in subst.items():
        own = {kk: vv.replace(k.encode(), v.encode()) for kk, vv in own.items()}
    if cfg["gocmd"] == "gobare" or own.get(b"MAGEFILE_GOCMD") == b"gobare":
        own[b"PATH"] = PATHBIN[0].encode() + b":" + base[b"PATH"]
    proj.npay += 1
    golog = os.path.join(proj.pay, "golog%d" % proj.npay)
    if cfg["word"] != "echo":
        own[b"VERIF_GOLOG"] = golog.encode()
    args = []
    if dstr is not None:
        args += ["-d", dstr]
    if wstr is not None:
        args += ["-w", wstr]
    for k in ("v", "debug"):
        if cfg[k] is not None:
            args.append(cfg[k])
    if cfg["gocmd"] is not None:
        args += ["-gocmd", cfg["gocmd"]]
    if cfg["t"] is not None:
        args += ["-t", cfg["t"]]
    lh = []
    if cfg["l"] is not None:
        lh.append("-l" if cfg["l"] else "-l=false")
    if cfg["h"] is not None:
        lh.append("-h" if cfg["h"] else "-h=false")
    words = cfg["twords"] if cfg.get("twords") is not None else ([cfg["word"]] if cfg["word"] else [])
    B = cfg.get("B") or []
    tail_b = render_b(B) + words                                  # what the compiled program is handed
    tail_m = (["--"] if cfg.get("dd") else []) + tail_b           # ... behind mage's own flags
    expect_cwd = os.path.realpath(os.path.join(cwd, wstr if wstr else (dstr if dstr else ".")))
    runs = []
    if cfg.get("tty"):
        if HOST[0] != "linux":
            return {"tty": None}
        env = dict(base)
        env.update(own)
        typed = cfg["typed"].encode() + b"\n"
        return {"tty": {"mage": run_tty([m.bin] + args + ["tty"], cwd, env, typed), "binary": run_tty([proj.bin, "tty"], expect_cwd, env, typed)},
                "typed": typed}
    if cfg["word"] == "echo":
        proj.npay += 1
        po = os.path.join(proj.pay, "o%d" % proj.npay)
        pe = os.path.join(proj.pay, "e%d" % proj.npay)
        pout, perr = payload(prng, cfg["out"]), payload(prng, cfg["err"])
        open(po, "wb").write(pout)
        open(pe, "wb").write(perr)
        env = dict(base)
        env.update(own)
        env.update({b"VERIF_ECHO_OUT": po.encode(), b"VERIF_ECHO_ERR": pe.encode(), b"VERIF_ECHO_SCRIPT": cfg["script"].encode(),
                    b"VERIF_ECHO_REPEAT": str(cfg.get("repeat", 1)).encode()})
        sink = os.path.join(proj.pay, "sink%d" % proj.npay) if cfg.get("sink") == "file" else None
        r = run_proc([m.bin] + args + lh + words, cwd, env, combined=cfg["combined"], sinkfile=sink)
        res = {"echo": r, "pout": pout, "perr": perr, "env": env}
        if cfg.get("sink"):
            # reference: the compiled binary with the same sink
            res["echo_ref"] = run_proc([proj.bin] + words, expect_cwd, env, combined=True, sinkfile=(sink + "_ref") if sink else None)
        return res
    stdin = payload(prng, cfg["stdin"])
    env_m = dict(base)
    env_m.update(own)
    r = run_proc([m.bin] + args + lh + tail_m, cwd, env_m, stdin=stdin, stdin_kind=cfg.get("stdin_kind", "pipe"), scratch=proj.pay)
    tns = conv["dur"].get(cfg["t"]) if cfg["t"] is not None else None
    # the compiled program's own flags: on one command line the later flag wins
    bv = [it[0] != "v0" for it in B if it[0] in ("v", "v0", "vT")]
    bt = [conv["dur"].get(it[1]) for it in B if it[0] == "t"]
    own_flags = {"v": bv[-1] if bv else None, "t": bt[-1] if bt else None, "l": True if any(it[0] == "l" for it in B) else None,
                 "h": True if any(it[0] == "h" for it in B) else None}

    def merged(g):
        return dict(g, **{k: (own_flags[k] if own_flags[k] is not None else g[k]) for k in own_flags})
    g_m = merged({"v": flag_bool(cfg["v"]), "debug": flag_bool(cfg["debug"]), "gocmd": cfg["gocmd"], "t": tns, "l": cfg["l"], "h": cfg["h"]})
    g_b = merged({"v": flag_bool(cfg["v"]), "debug": None, "gocmd": None, "t": tns, "l": cfg["l"], "h": cfg["h"]})
    g_v = merged({"v": None, "debug": None, "gocmd": None, "t": None, "l": None, "h": None})
    runs.append({"route": "mage", "layout": proj.layout, "front_t": tns, "given": g_m, "argv": args + lh + tail_m, "env": env_m, "own": own, "cwd": cwd, "dstr": dstr, "wstr": wstr, "obs": observe(r, stdin), "raw": r})
    # the compiled binary, same options as its flags (-debug / -gocmd exist only as variables)
    own_b = dict(own)
    if cfg["debug"] is not None:
        own_b[b"MAGEFILE_DEBUG"] = b"1" if flag_bool(cfg["debug"]) else b"0"
    if cfg["gocmd"] is not None:
        own_b[b"MAGEFILE_GOCMD"] = cfg["gocmd"].encode()
    bargs = []
    if cfg["v"] is not None:
        bargs.append(cfg["v"])
    if cfg["t"] is not None:
        bargs += ["-t", cfg["t"]]
    env_b = dict(base)
    env_b.update(own_b)
    r = run_proc([proj.bin] + bargs + lh + tail_b, expect_cwd, env_b, stdin=stdin, stdin_kind=cfg.get("stdin_kind", "pipe"), scratch=proj.pay)
    runs.append({"route": "bin-flags", "layout": proj.layout, "given": g_b, "argv": bargs + lh + tail_b, "env": env_b, "own": own_b, "cwd": expect_cwd, "obs": observe(r, stdin), "raw": r})
    # the compiled binary, the options as MAGEFILE_* variables
    own_v = dict(own_b)
    if cfg["v"] is not None:
        own_v[b"MAGEFILE_VERBOSE"] = b"1" if flag_bool(cfg["v"]) else b"0"
    if cfg["l"]:
        own_v[b"MAGEFILE_LIST"] = b"1"
    if cfg["h"]:
        own_v[b"MAGEFILE_HELP"] = b"1"
    if cfg["t"] is not None and conv["dur"].get(cfg["t"]) and conv["dur"][cfg["t"]] > 0:
        own_v[b"MAGEFILE_TIMEOUT"] = conv["durstr"][conv["dur"][cfg["t"]]].encode()
    env_v = dict(base)
    env_v.update(own_v)
    r = run_proc([proj.bin] + tail_b, expect_cwd, env_v, stdin=stdin, stdin_kind=cfg.get("stdin_kind", "pipe"), scratch=proj.pay)
    runs.append({"route": "bin-vars", "layout": proj.layout, "given": g_v, "argv": tail_b, "env": env_v, "own": own_v, "cwd": expect_cwd, "obs": observe(r, stdin), "raw": r})
    # a "--" standing where the compiled program still expects flags ends ITS flags and is consumed
    acted = words[1:] if (words and words[0] == "--") else words
    return {"runs": runs, "expect_cwd": expect_cwd, "stdin": stdin, "base": base, "words": acted,
            "golog": open(golog, "rb").read() if os.path.exists(golog) else None,
            "expect_rejected": any(it[0] in B_BAD for it in B), "expect_usage": any(it[0] == "help" for it in B)}


# ---------------------------------------------------------------- the oracle: the property sentence
def var_true(env, k):
    return env.get(k) in TRUE_VALUES


def oracle(cfg, proj, res, conv):
    """returns [(clause, detail)]"""
    bad = []
    cfg = resolved(cfg)
    if "tty" in res:
        for route, r in (res["tty"] or {}).items():
            tag = "[%s tty, as the foreground job of a terminal session] " % route
            if not r["foreground"]:
                bad.append(("tty", tag + "harness: the program's process group is not the terminal's foreground group"))
            if r["problem"]:
                what = "hangs" if r["problem"].get("hang") else "has stopped processes %r" % r["problem"].get("stopped")
                bad.append(("tty", tag + "the process tree %s (the terminal's input never reaches the target); states: %r; output so far %r" % (
                    what, r["problem"]["tree"], r["out"][-120:])))
                continue
            m = re.search(rb"^TTY (\{.*\})$", r["out"], re.M)
            if r["rc"] != 0 or not m:
                bad.append(("tty", tag + "exit %r, output %r" % (r["rc"], r["out"][-300:])))
                continue
            js = json.loads(m.group(1))
            if base64.b64decode(js["read"]) != res["typed"]:
                bad.append(("stdin", tag + "the target read %r, %r was typed" % (base64.b64decode(js["read"]), res["typed"])))
            if js["tty"] != [True, True, True] or (js["rows"], js["cols"]) != (33, 101):
                bad.append(("tty", tag + "the target's streams are terminals: %r, window %dx%d (the terminal has 33x101)" % (js["tty"], js["rows"], js["cols"])))
            want = b"TTY-READY\nTTY-ERR\n" + m.group(0) + b"\n"
            if r["out"] != want and cfg["layout"] != "both":
                bad.append(("stdout-bytes", tag + "the terminal received %r, the target wrote %r" % (r["out"][:200], want[:200])))
        return bad
    if "echo" in res:
        r, pout, perr = res["echo"], res["pout"], res["perr"]
        own = cfg_env(cfg)
        # quiet: nothing but the target writes (no -v / -debug, no warnings of the generated main or the front end)
        quiet = (cfg["v"] is None and cfg["debug"] is None and cfg["layout"] != "both" and
                 not any(k in own for k in (b"MAGEFILE_VERBOSE", b"MAGEFILE_DEBUG", b"MAGEFILE_TIMEOUT", b"MAGEFILE_LIST", b"MAGEFILE_HELP")))
        if r["rc"] != 0:
            bad.append(("run-failed", "mage echo exited %d: %s" % (r["rc"], r["err_b"][-300:])))
        elif cfg["combined"]:
            # one pipe for both streams: the interleaving the target wrote
            o, e, parts = pout, perr, []
            for step in cfg["script"].split(",") * cfg.get("repeat", 1):
                if len(step) < 2 or step[0] == "z":
                    continue
                n = int(step[1:])
                if step[0] == "o":
                    parts.append(o[:n])
                    o = o[n:]
                else:
                    parts.append(e[:n])
                    e = e[n:]
            exp = b"".join(parts) + o + e
            got = r["out_b"]
            sinkname = {"file": "one open file as stdout and stderr", "pipe": "one pipe as stdout and stderr"}.get(cfg.get("sink"), "one pipe as stdout and stderr")
            if not (got == exp if quiet else got.endswith(exp)):
                if not quiet and len(got) > len(exp):       # the front end wrote first (warning, -v, -debug): judge what follows
                    got = got[len(got) - len(exp):]
                d = _firstdiff(got, exp)
                bad.append(("interleaving", "[mage echo, %s, script %s x%d] the bytes did not arrive in the order the target wrote them: %d bytes, expected %d, first difference at byte %d (got %r, written %r)" % (
                    sinkname, cfg["script"], cfg.get("repeat", 1), len(got), len(exp), d, got[max(0, d - 12):d + 18], exp[max(0, d - 12):d + 18])))
            if "echo_ref" in res and res["echo_ref"]["out_b"] != exp:
                bad.append(("interleaving", "[compiled binary echo, %s] reference run differs from the script: first difference at byte %d" % (sinkname, _firstdiff(res["echo_ref"]["out_b"], exp))))
        else:
            if r["out_b"] != pout:
                bad.append(("stdout-bytes", "stdout: %d bytes, expected %d, first difference at %d" % (len(r["out_b"]), len(pout), _firstdiff(r["out_b"], pout))))
            if not (r["err_b"] == perr if quiet else r["err_b"].endswith(perr)):
                bad.append(("stderr-bytes", "stderr: %d bytes, expected %d (quiet=%s)" % (len(r["err_b"]), len(perr), quiet)))
        return bad
    runs = {r["route"]: r for r in res["runs"]}
    own = cfg_env(cfg)
    off = cfg.get("off")
    OFF = "explicit-off-flag-not-forwarded"
    for route, r in runs.items():
        # effective values, read off the sentence: the option if given to this process, else the variable
        g, given_env = r["given"], r["env"]
        e_verbose = g["v"] if g["v"] is not None else var_true(given_env, b"MAGEFILE_VERBOSE")
        e_debug = g["debug"] if g["debug"] is not None else var_true(given_env, b"MAGEFILE_DEBUG")
        e_gocmd = g["gocmd"].encode() if g["gocmd"] else (given_env.get(b"MAGEFILE_GOCMD") or b"go")
        e_t = g["t"] if g["t"] is not None else (conv["dur"].get(given_env.get(b"MAGEFILE_TIMEOUT", b"").decode("latin-1")) or 0)
        e_list = g["l"] if g["l"] is not None else var_true(given_env, b"MAGEFILE_LIST")
        e_help = g["h"] if g["h"] is not None else var_true(given_env, b"MAGEFILE_HELP")
        o = r["obs"]
        tag = "[%s %s] " % (route, " ".join(r["argv"]))
        if res["expect_rejected"] or res["expect_usage"]:
            # a flag error among the compiled program's flags: status 2, usage, nothing runs - as on mage's own line;
            # --help: the usage, status 0
            want = ("rejected", 2) if res["expect_rejected"] else ("usage", 0)
            if (o["mode"], o["rc"]) != want:
                bad.append(("flag-error", tag + "the program did %r with status %d, the flags say %r with status %d" % (o["mode"], o["rc"], want[0], want[1])))
            continue
        if cfg.get("stray"):
            # a flag-looking word behind a target WITHOUT parameters is taken for the next target: the first one runs,
            # then the unknown one ends the run with status 2 - on both front ends alike
            if not (o["mode"] == "run" and o["rc"] == 2 and o.get("words") == [res["words"][0].encode()]):
                bad.append(("words", tag + "expected %r to run and the stray word to end the run with status 2; the program did %r %r with status %d" % (
                    res["words"][0], o["mode"], o.get("words"), o["rc"])))
            continue
        if o["rc"] != 0 and not (o.get("timeout") == -1):
            bad.append(("run-failed", tag + "exit %d, stderr: %r" % (o["rc"], r["raw"]["err_b"][-400:])))
            continue
        if o["mode"] == "unknown":
            bad.append(("run-failed", tag + "no probe line, listing or help in the output: %r / %r" % (r["raw"]["out_b"][-200:], r["raw"]["err_b"][-300:])))
            continue
        nowords = not res["words"]
        ignoredefault = var_true(given_env, b"MAGEFILE_IGNOREDEFAULT")
        if nowords:       # help without a word prints the usage; no word runs the default target (or lists when it is to be ignored)
            want_mode = "usage" if e_help else ("list" if (e_list or ignoredefault) else "run")
        else:
            want_mode = None if (e_list and e_help) else ("list" if e_list else ("help" if e_help else "run"))
        if want_mode and o["mode"] != want_mode:
            clause = OFF if (route == "mage" and off in ("list", "help")) else "same-effect"
            bad.append((clause, tag + "the program did %r, the options say %r" % (o["mode"], want_mode)))
            continue
        if o["mode"] != "run":
            continue
        # the deadline of the target's context: presence and rough size
        want_t = -1 if e_t < 0 else e_t
        if o.get("timeout") != want_t:
            clause = OFF if (route == "mage" and off in ("t0", "tneg")) else "timeout-forwarding"
            bad.append((clause, tag + "deadline %r, -t / MAGEFILE_TIMEOUT say %r" % (o.get("timeout"), want_t)))
        if o.get("timeout") == -1:
            continue
        # the words behind the flags reach the dispatcher as they are: the target named, its argument verbatim
        want_words = [w.encode() for w in res["words"]] or [b"probe"]
        if o["words"] != want_words:
            bad.append(("words", tag + "the target that ran and its argument: %r, the command line says %r" % (o["words"], want_words)))
        # accessors report the effective values
        if o["verbose"] != e_verbose:
            bad.append(("accessor-verbose", tag + "mg.Verbose()=%r, effective %r" % (o["verbose"], e_verbose)))
        if o["verbose_log"] != e_verbose:
            bad.append(("verbose-effect", tag + "std logger live=%r, effective verbose %r" % (o["verbose_log"], e_verbose)))
        # what -v / -debug do as seen from outside: the program announces the target (and its dependency) on stderr
        # before the target writes anything, the front end's debug stream is there or not - presence, not wording
        ann = announce_observable(r, conv)
        if ann is not None and o["pre"] is None:
            bad.append(("stream-wiring", tag + "the target's stderr lines are not on the caller's stderr"))
        elif ann == "quiet-front" and ((len(o["pre"]) > 0) != e_verbose if not nowords else (len(o["pre"]) > 0 and not e_verbose)):
            # (the default target, run for want of a word, is not announced by the generated main - on neither route)
            bad.append(("verbose-announcement", tag + "effective verbose %r, but stderr before the target's own output is %r" % (e_verbose, o["pre"][:3])))
        elif ann == "debug-front" and len(o["pre"]) == 0:
            bad.append(("debug-effect", tag + "effective debug, but nothing on stderr before the target's own output"))
        if ann is not None and o["dep"] is not None and (len(o["dep"]) > 0) != e_verbose:
            bad.append(("verbose-announcement", tag + "effective verbose %r, but between the target's start and its next own line (where mg announces the dependency) stderr has %r" % (e_verbose, o["dep"][:3])))
        if o["debug"] != e_debug:
            bad.append(("accessor-debug", tag + "mg.Debug()=%r, effective %r" % (o["debug"], e_debug)))
        if o["gocmd"] != e_gocmd:
            bad.append(("accessor-gocmd", tag + "mg.GoCmd()=%r, effective %r" % (o["gocmd"], e_gocmd)))
        # GOOS / GOARCH of the caller never influence how the magefile is built: always for the platform mage runs on
        if o["built_os"] != "host" or o["built_arch"] != "host":
            bad.append(("build-platform", tag + "caller's GOOS=%r GOARCH=%r: the magefile was built from the %s-OS / %s-architecture member of the platform-constrained pairs (host %s/%s)" % (
                r["env"].get(b"GOOS"), r["env"].get(b"GOARCH"), o["built_os"], o["built_arch"], HOST[0], HOST[1])))
        # the environment: unmodified apart from MAGEFILE_* variables
        given = r["env"]
        for k in sorted(set(given) | set(o["env"])):
            if k.startswith(b"MAGEFILE_") or k in VOLATILE:
                continue
            if given.get(k) != o["env"].get(k):
                bad.append(("env-passthrough", tag + "variable %r: caller has %r, target sees %r" % (k, given.get(k), o["env"].get(k))))
                break
        # stdin is the caller's
        if not o["stdin_ok"]:
            bad.append(("stdin", tag + "target read %d bytes from stdin, caller supplied %d (digest %s)" % (o["stdin_len"], len(res["stdin"]), "differs")))
        if o["stdout_on"] != "stdout" or o["stderr_on"] != "stderr":
            bad.append(("stream-wiring", tag + "target's stdout seen on %s, stderr on %s" % (o["stdout_on"], o["stderr_on"])))
        if route == "mage":
            if o["cwd"] != res["expect_cwd"]:
                bad.append(("cwd", tag + "target ran in %s, -w/-d say %s" % (o["cwd"], res["expect_cwd"])))
        # what the target wrote arrives byte for byte: nothing prepended, nothing appended, on either stream
        if not re.fullmatch(rb"PROBE \{[^\n]*\}\n", r["raw"]["out_b"]):
            bad.append(("stdout-bytes", tag + "stdout is not exactly the target's line: starts %r, ends %r" % (r["raw"]["out_b"][:40], r["raw"]["out_b"][-40:])))
        if o.get("post"):
            bad.append(("stderr-bytes", tag + "stderr carries %r after the target's last line" % o["post"][:80]))
    # the go command given (flag, else variable) is the one the magefile is built with: every wrapper logs its calls
    mr = runs["mage"]
    eg = mr["given"]["gocmd"].encode() if mr["given"]["gocmd"] else (mr["env"].get(b"MAGEFILE_GOCMD") or b"go")
    if eg != b"go" and mr["obs"]["mode"] in ("run", "list", "help") and mr["obs"]["rc"] == 0 and not var_true(mr["env"], b"MAGEFILE_HASHFAST"):
        if not res.get("golog") or b"build" not in res["golog"]:
            bad.append(("gocmd-build", "[mage %s] the go command %r was given, but its log shows no `build` call: %r" % (" ".join(mr["argv"]), eg, res.get("golog"))))
    # the same effect through both routes
    mo = runs["mage"]["obs"]
    for route in ("bin-flags", "bin-vars"):
        bo = runs[route]["obs"]
        if "rc" in mo and (mo["rc"] != 0 or bo["rc"] != 0):
            continue
        diffs = []
        if cfg.get("stray"):
            if (mo["mode"], mo["rc"], mo.get("words")) != (bo["mode"], bo["rc"], bo.get("words")):
                bad.append(("same-effect", "through mage %r: %r status %d words %r; through the compiled binary (%s %r): %r status %d words %r" % (
                    runs["mage"]["argv"], mo["mode"], mo["rc"], mo.get("words"), route, runs[route]["argv"], bo["mode"], bo["rc"], bo.get("words"))))
            continue
        am, ab = announce_observable(runs["mage"], conv), announce_observable(runs[route], conv)
        if am and ab and mo.get("pre") is not None and bo.get("pre") is not None:
            # byte for byte: the announcements carry no program name; behind a debug stream they are its tail
            same = (mo["pre"] == bo["pre"]) if am == "quiet-front" else (len(bo["pre"]) == 0 or mo["pre"][-len(bo["pre"]):] == bo["pre"])
            if not same:
                diffs.append(("stderr before the target's output", mo["pre"][-3:], bo["pre"][-3:]))
            if mo.get("dep") != bo.get("dep"):
                diffs.append(("stderr while the dependency runs", mo.get("dep"), bo.get("dep")))
        for k in ("mode", "verbose", "verbose_log", "debug", "gocmd", "timeout", "text", "words"):
            if k == "text" and mo.get("mode") in ("usage", "rejected"):
                continue       # the usage text names the program by the base name of its file (cache hash / "mage")
            if mo.get(k) != bo.get(k):
                diffs.append((k, mo.get(k), bo.get(k)))
        if mo.get("env") is not None and bo.get("env") is not None:
            for k in sorted(set(mo["env"]) | set(bo["env"])):
                if k in VOLATILE or k.startswith(b"MAGEFILE_"):
                    continue
                if mo["env"].get(k) != bo["env"].get(k):
                    diffs.append(("env " + repr(k), mo["env"].get(k), bo["env"].get(k)))
        if diffs:
            comp = {"list": "mode", "help": "mode", "t0": "timeout", "tneg": "timeout"}.get(off)
            known_shape = route == "bin-flags" and comp and all(d[0] == comp or (comp == "mode" and d[0] == "text") or (d[1] is None or d[2] is None) for d in diffs) and any(d[0] == comp for d in diffs)
            bad.append((OFF if known_shape else "same-effect",
                        "through mage %r and through the compiled binary (%s: %r) differ in %s" % (runs["mage"]["argv"], route, runs[route]["argv"], [(d[0], _short(d[1]), _short(d[2])) for d in diffs][:4])))
    return bad


def _short(x):
    s = repr(x)
    return s if len(s) < 120 else s[:117] + "..."


def _firstdiff(a, b):
    for i, (x, y) in enumerate(zip(a, b)):
        if x != y:
            return i
    return min(len(a), len(b))


# ---------------------------------------------------------------- Coq terms
def cs(b):
    return coq_str(bytes(b))


def opt_bool(b):
    return "None" if b is None else "(Some %s)" % coq_bool(b)


def coq_env(pairs):
    return coq_list(["(%s, %s)" % (cs(k), cs(v)) for k, v in pairs])


def announce_observable(run, conv):
    """Is the stretch of stderr before the target's first own line, in this run, written by nobody but the
    generated main's / mg's verbose announcements?  Returns None when something else may write there (then nothing is
    concluded from it), "quiet-front" when only the announcements can, "debug-front" when the front end's debug
    stream precedes them (mage route with debug on: presence and the tail are still comparable)."""
    env, route, g = run["env"], run["route"], run["given"]

    def malformed(k, table, skip_empty=True):
        v = env.get(k)
        if v is None or v == b"":
            return False
        return table.get(v if table is conv["bool"] else v.decode("latin-1")) is None
    # the generated main warns about a malformed variable it reads as a flag default
    keys = [b"MAGEFILE_LIST", b"MAGEFILE_HELP"] + ([] if route == "mage" else [b"MAGEFILE_VERBOSE"])
    if any(malformed(k, conv["bool"]) for k in keys):
        return None
    # (through mage a positive -t of the FRONT END replaces the variable before the generated main reads it)
    if not (route == "mage" and (run.get("front_t") or 0) > 0) and malformed(b"MAGEFILE_TIMEOUT", conv["dur"]):
        return None
    if route != "mage":
        return "quiet-front"
    if run["layout"] == "both":
        return None          # the front end warns about magefiles in both places
    e_debug = g["debug"] if g["debug"] is not None else var_true(env, b"MAGEFILE_DEBUG")
    return "debug-front" if e_debug else "quiet-front"


def coq_case(cfg, proj, res, run, conv, bools):
    cfg = resolved(cfg)
    o = run["obs"]
    own = run["own"]
    route = run["route"]
    resolve = []
    if route == "mage":
        d0 = run["dstr"] if run["dstr"] else "."
        for s in {".", d0, d0 + "/magefiles"} | ({run["wstr"]} if run["wstr"] else set()):
            resolve.append((s.encode(), os.path.realpath(os.path.join(run["cwd"], s)).encode()))
    # tables of the external functions, actual values from the Go standard library: every word of the command line
    # (and every "=value") that time.ParseDuration accepts, the variable's value, and the renderings of those durations
    cands = set()
    for w in run["argv"]:
        cands.add(w)
        if "=" in w:
            cands.add(w.split("=", 1)[1])
    if b"MAGEFILE_TIMEOUT" in own:
        cands.add(own[b"MAGEFILE_TIMEOUT"].decode("latin-1"))
    durstr = {}
    for w in list(cands):
        n = conv["dur"].get(w)
        if n is not None and n in conv["durstr"]:
            durstr[n] = conv["durstr"][n]
            cands.add(conv["durstr"][n])
    dur_tab = coq_list(["(%s, %s)" % (cs(w.encode("latin-1")), coq_opt(coq_Z(conv["dur"][w])) if conv["dur"].get(w) is not None else "None")
                        for w in sorted(cands) if w in conv["dur"]])
    keys = sorted(set(own) | set(SIX) | {b"GOOS", b"GOARCH", b"HOME", b"GOFLAGS", b"PWD", b"OLDPWD", b"NOSUCH_VARIABLE", b"MAGEFILE_CACHE", b"MAGEFILE_HASHFAST"})
    layout = "{| has_magefiles_dir := %s; top_has_magefiles := %s |}" % (coq_bool(proj.layout in ("mfdir", "both")), coq_bool(proj.layout in ("plain", "both")))
    mode = {"run": "(OMode MRun)", "list": "(OMode MList)", "help": "(OMode MHelp)", "usage": "(OMode MUsage)", "rejected": "ORejected"}.get(o["mode"], "(OMode MUsage)")
    stream = {"stdout": "(Some CallerStdout)", "stderr": "(Some CallerStderr)", None: "None"}
    if o["mode"] == "run" and o.get("timeout") != -1:
        build = os.path.join(proj.d, "magefiles") if o["origin"] == "mfdir" else proj.d
        ann = announce_observable(run, conv)
        obs = ("{| o_mode := OMode MRun; o_verbose_log := %s; o_announce := %s; o_verbose := %s; o_debug := %s; o_gocmd := %s; o_timeout := %s; o_cwd := %s; o_build := %s; "
               "o_env := %s; o_stdin := %s; o_stdout := %s; o_stderr := %s; o_words := %s |}") % (
            coq_bool(o["verbose_log"]), "None" if (ann != "quiet-front" or o["pre"] is None) else "(Some %s)" % coq_bool(len(o["pre"]) > 0),
            coq_bool(o["verbose"]), coq_bool(o["debug"]), cs(o["gocmd"]), coq_Z(o["timeout"]),
            cs(o["cwd"].encode()) if route == "mage" else '""', cs(build.encode()) if route == "mage" else '""',
            coq_list(["(%s, %s)" % (cs(k), coq_opt(cs(o["env"][k])) if k in o["env"] else "None") for k in keys]),
            "(Some CallerStdin)" if o["stdin_ok"] else "None", stream[o["stdout_on"]], stream[o["stderr_on"]],
            coq_list([cs(w) for w in o["words"]]))
    else:
        obs = "(let b := blank %s in {| o_mode := o_mode b; o_verbose_log := false; o_announce := None; o_verbose := false; o_debug := false; o_gocmd := \"\"; o_timeout := %s; o_cwd := \"\"; o_build := \"\"; o_env := []; o_stdin := None; o_stdout := None; o_stderr := None; o_words := [] |})" % (
            mode, coq_Z(o.get("timeout", 0) or 0))
    # the caller's environment: the entries shared by all runs (header), this project's cache, this run's own
    envterm = "(base ++ %s)" % coq_env([(b"MAGEFILE_CACHE", run["env"][b"MAGEFILE_CACHE"])] + [(k, v) for k, v in own.items() if k != b"MAGEFILE_CACHE"])
    return ("{| c_route := %s; c_words := %s; c_env := %s; c_layout := %s; c_default := \"probe\"; c_durs := %s; c_durstr := %s; "
            "c_bools := %s; c_resolve := %s; c_keys := %s; c_obs := %s |}") % (
        "ViaMage" if route == "mage" else "ViaBinary", coq_list([cs(w.encode("utf-8", "surrogateescape")) for w in run["argv"]]), envterm, layout, dur_tab,
        coq_list(["(%s, %s)" % (coq_Z(n), cs(t.encode())) for n, t in sorted(durstr.items())]),
        coq_list(["(%s, %s)" % (cs(t), opt_bool(conv["bool"][t])) for t in bools]),
        coq_list(["(%s, %s)" % (cs(a), cs(b)) for a, b in resolve]),
        coq_list([cs(k) for k in keys]), obs)


# ---------------------------------------------------------------- Go's flag package: cl_parse against a real flag.FlagSet
PW_FLAGS = ["v", "l", "h", "t", "debug", "d", "w", "gocmd", "f", "keep", "compile", "goos", "init", "version", "clean", "ldflags", "goarch",
            "x", "help", "V", "tt", "vv"]
PW_VALUES = ["true", "false", "1", "0", "T", "junk", "", "5m", "1h30m", "xyz", "0", "-5s", "90", "a b", "--", "-v", "x=y", "=", "é", "go"]
PW_WORDS = ["-", "--", "---x", "-=", "-=x", "--=x", "", "plain", "probe", "-help", "--help", "-h", "--h=false", "-x", "a=b", "- v", "-v-", "--v"]


def gen_parse_words(rng):
    n = rng.choice([0, 1, 1, 2, 3, 3, 4, 5, 6, 8])
    ws = []
    for _ in range(n):
        r = rng.random()
        if r < 0.55:
            name = rng.choice(PW_FLAGS)
            dash = rng.choice(["-", "-", "--"])
            form = rng.random()
            if form < 0.4:
                ws.append(dash + name)
            elif form < 0.7:
                ws.append(dash + name + "=" + rng.choice(PW_VALUES))
            else:
                ws += [dash + name, rng.choice(PW_VALUES)]
        elif r < 0.8:
            ws.append(rng.choice(PW_WORDS))
        else:
            ws.append(rng.choice(PW_VALUES))
    return ws


def parser_cases(ctx, binp, n, reqs=None):
    """word lists through a real flag.FlagSet (harness/c11conv) and through Model/FlagPkg.cl_parse"""
    rng = ctx.rng
    if reqs is None:
        reqs = [{"front": rng.random() < 0.6, "words": gen_parse_words(rng)} for _ in range(n)]
    cands = set()
    for q in reqs:
        for w in q["words"]:
            cands.add(w)
            for i, ch in enumerate(w):
                if ch == "=":
                    cands.add(w[i + 1:])
    cands = sorted(cands)
    rc, out, err = sh([binp], input=json.dumps({"parse": reqs, "durs": cands}).encode(), timeout=120)
    if rc != 0:
        raise BuildError("c11conv failed: " + err[-500:])
    a = json.loads(out)
    dur = dict(zip(cands, a["durs"]))
    items = []
    verd = {}
    for q, r in zip(reqs, a["parse"]):
        verd[r["verdict"]] = verd.get(r["verdict"], 0) + 1
        mine = set()
        for w in q["words"]:
            mine.add(w)
            for i, ch in enumerate(w):
                if ch == "=":
                    mine.add(w[i + 1:])
        tab = coq_list(["(%s, %s)" % (cs(w.encode()), coq_opt(coq_Z(dur[w])) if dur[w] is not None else "None") for w in sorted(mine)])
        sets = coq_list(["(%s, %s)" % (cs(nm.encode()), {"b": lambda v: "VB %s" % v, "d": lambda v: "VD %s" % coq_Z(int(v)), "s": lambda v: "VS %s" % cs(v.encode())}[k](v))
                         for nm, k, v in r["set"]])
        items.append("{| p_front := %s; p_words := %s; p_durs := %s; p_verdict := %s; p_set := %s; p_rest := %s |}" % (
            coq_bool(q["front"]), coq_list([cs(w.encode()) for w in q["words"]]), tab, {"ok": "VOk", "help": "VHelp", "bad": "VBad"}[r["verdict"]],
            sets, coq_list([cs(w.encode()) for w in r["rest"]])))
    return reqs, a["parse"], items, verd


# ---------------------------------------------------------------- the check
def stdconv(ctx, cfgs):
    """strconv.ParseBool / time.ParseDuration / Duration.String from the Go standard library (harness/c11conv)"""
    binp = go_build_harness(ctx, "c11conv", tags=None)
    bools = set(ENV_BOOL_POOL) - {None} | {b"1", b"0", b"t", b"f", b"true", b"false", b"TRUE", b"FALSE", b"True", b"False", b"T", b"F", b"", b"2", b"on"}
    durs = set()
    for c in cfgs:
        if c["t"] is not None:
            durs.add(c["t"])
        for w in render_b(c.get("B") or []) + (c.get("twords") or []):
            durs.add(w)
            if "=" in w:
                durs.add(w.split("=", 1)[1])
        for k, v in c["env"]:
            if unhx(k) == b"MAGEFILE_TIMEOUT":
                durs.add(unhx(v).decode("latin-1"))
            if unhx(k) in (b"MAGEFILE_VERBOSE", b"MAGEFILE_DEBUG", b"MAGEFILE_LIST", b"MAGEFILE_HELP"):
                bools.add(unhx(v))
    durs = sorted(durs)
    bools = sorted(bools)
    q = {"bools": [b.decode("latin-1") for b in bools], "durs": durs, "durstrs": []}
    rc, out, err = sh([binp], input=json.dumps(q).encode(), timeout=60)
    if rc != 0:
        raise BuildError("c11conv failed: " + err[-500:])
    a = json.loads(out)
    ns = sorted({n for n in a["durs"] if n is not None} | set(DEADLINES))
    q2 = {"bools": [], "durs": [], "durstrs": ns}
    rc, out2, err = sh([binp], input=json.dumps(q2).encode(), timeout=60)
    a2 = json.loads(out2)
    conv = {"bool": dict(zip(bools, a["bools"])), "dur": dict(zip(durs, a["durs"])), "durstr": dict(zip(ns, a2["durstrs"]))}
    # the renderings are themselves variable values on the bin-vars route
    q3 = {"bools": [], "durs": sorted(set(a2["durstrs"]) - set(durs)), "durstrs": []}
    rc, out3, err = sh([binp], input=json.dumps(q3).encode(), timeout=60)
    conv["dur"].update(dict(zip(q3["durs"], json.loads(out3)["durs"])))
    return conv, bools, binp


def run(ctx):
    ctx.prove(["Props/C11.vo", "Run/eval_C11.vo"], extra_props=["Compose_C11_C12_C05"])
    import extractlib; extractlib.fn_tie(ctx, ['SplitEnv', 'EnvWithGOOS'])   # pure functions translated from the current source, re-proved equal to the models' (tools/notes/Translator.md)
    ctx.trusted_base += [
        "checks/c11.py (project generator, probe target, runner, Coq printer, oracle) + lib/projlib.py (project layout, mage build)",
        "harness/c11conv: strconv.ParseBool / time.ParseDuration / Duration.String of the Go standard library feed the model's parameters",
        "build platform (GOOS/GOARCH of the caller never select the magefiles): theorem C11_build_isolated over C10's Model/Constraints.v; in this check observation + oracle only (platform-constrained magefile pairs in every project), Model/Flags.v has no build component",
        "Go's flag package (spelling of options -> values), os/exec + the kernel (environment block, chdir, pipes), path resolution by os.path.realpath",
        "PARTIAL: byte-exact transport of stdin/stdout/stderr is not modelled (only which stream is wired to which); it is carried by the Echo / stdin-digest runs of this check only",
    ]
    rng = ctx.rng
    quick = ctx.quick
    DD_COUNT[0] = 0
    AW_COUNT[0] = ctx.rng.randrange(48)
    m = projlib.Mage(ctx)
    # every MAGEFILE_* name in the non-test sources that no model knows: setting it must change nothing here
    try:
        import depslib
        for k in depslib.discover_knobs():
            for v in depslib.KNOB_VALUES[:4]:
                if (k.encode(), v.encode()) not in EXTRA_POOL:
                    EXTRA_POOL.append((k.encode(), v.encode()))
    except Exception as ex:
        ctx.notes.append("discover_knobs unavailable: %r" % ex)
    gowrap = os.path.join(os.path.realpath(ctx.tmp), "gowrap")
    with open(gowrap, "w") as f:
        f.write(GOWRAP_SH)
    os.chmod(gowrap, 0o755)
    PATHBIN[0] = os.path.join(os.path.realpath(ctx.tmp), "pathbin")
    os.makedirs(PATHBIN[0])
    with open(os.path.join(PATHBIN[0], "gobare"), "w") as f:
        f.write(GOWRAP_SH)
    os.chmod(os.path.join(PATHBIN[0], "gobare"), 0o755)
    GOWRAP[0] = gowrap
    GOSLOW[0] = os.path.join(os.path.realpath(ctx.tmp), "goslow")
    with open(GOSLOW[0], "w") as f:
        f.write(GOWRAP_SH.replace("exec go", "case \"$1\" in build) sleep \"${VERIF_GO_DELAY:-0}\";; esac\nexec go"))
    os.chmod(GOSLOW[0], 0o755)
    HOST[0], HOST[1] = sh(["go", "env", "GOHOSTOS", "GOHOSTARCH"], env=goenv(), check=True)[1].split()
    gowrap = "@GOWRAP@"
    gocache = goenv().get("GOCACHE") or sh(["go", "env", "GOCACHE"], env=goenv())[1].strip()
    # configurations
    nproj = 12 if quick else 16
    layouts = (["plain", "mfdir", "plain", "both"] * 4)[:nproj]
    counts = ({"slowbuild": 1, "matrix": 54, "dashdash": 20, "default": 10, "listhelp": 8, "explicit-off": 6, "afterwords": 12, "echo": 12, "alt": 6, "hashfast": 5, "tty": 2} if quick else
              {"slowbuild": 4, "matrix": 1500, "dashdash": 400, "default": 200, "listhelp": 120, "explicit-off": 40, "afterwords": 192, "echo": 200, "alt": 40, "hashfast": 100, "tty": 12})
    cfgs = []
    if ctx.replay and ctx.replay.get("case"):
        cfgs = [] if ctx.replay["case"].get("parser_words") is not None else [ctx.replay["case"]]
        layouts = [ctx.replay["case"]["layout"]]
        nproj = 1
    else:
        i = 0
        for klass, n in counts.items():
            for _ in range(n):
                cfgs.append(gen_cfg(rng, klass, layouts[i % nproj], gowrap, quick))
                i += 1
    ctx.log('mage built; %d configurations' % len(cfgs))
    conv, bools, convbin = stdconv(ctx, cfgs)
    ctx.log('stdconv done')
    # projects: one per worker (a project directory holds the generated main file while mage runs)
    projs = [Proj(m, ctx, i, layouts[i]) for i in range(nproj)]

    def compile_proj(p):
        e = m.env(cache=p.cache)
        r = m.run(p.d, ["-compile", p.bin], cache=p.cache)
        return r
    for p, r in zip(projs, pmap(compile_proj, projs)):
        if r["rc"] != 0 or not os.path.exists(p.bin):
            raise BuildError("mage -compile failed in the %s project: %s" % (p.layout, r["err"][-1500:]))
    ctx.log('projects compiled')
    by_proj = {i: [] for i in range(nproj)}
    nxt = {}
    for ci, c in enumerate(cfgs):
        cands = [i for i in range(nproj) if layouts[i] == c["layout"]]
        k = nxt.get(c["layout"], 0)
        nxt[c["layout"]] = k + 1
        by_proj[cands[k % len(cands)]].append(ci)
    results = [None] * len(cfgs)

    def work(pi):
        for ci in by_proj[pi]:
            results[ci] = run_cfg(cfgs[ci], projs[pi], m, conv, gocache, None)
        return None
    pmap(work, list(range(nproj)))
    ctx.log('runs done')
    which = {}
    for pi, lst in by_proj.items():
        for ci in lst:
            which[ci] = projs[pi]
    # oracle + Coq cases
    items, item_cfg = [], []
    dist = {"announcement_observable": {}, "routes": {}, "modes": {}, "clauses": {}, "v_flag": {}, "debug_flag": {}, "MAGEFILE_VERBOSE": {}, "MAGEFILE_DEBUG": {}, "gocmd": {}, "v_x_var": {}, "debug_x_var": {},
            "caller_GOOS_GOARCH": {}, "timeout": {}, "d": {}, "w": {}, "layout": {}, "tail": {}, "stdin": {}, "extras": {}, "echo": {}}

    def bump(d, k):
        dist[d][str(k)] = dist[d].get(str(k), 0) + 1
    seen = set()
    nontriv = 0
    nruns = 0
    for ci, c in enumerate(cfgs):
        p, res = which[ci], results[ci]
        for clause, detail in oracle(c, p, res, conv):
            bump("clauses", clause)
            if dist["clauses"][clause] <= 2:           # at most two replay files per clause; all are counted
                ctx.violation({"kind": "oracle", "clause": clause, "detail": detail}, case=c)
        own = cfg_env(c)
        bump("layout", c["layout"])
        bump("d", c["dv"])
        bump("w", c["wv"])
        if "tty" in res:
            nruns += 2 if res["tty"] else 0
            bump("echo", "terminal session, typed %r" % c["typed"])
            continue
        if "echo" in res:
            nruns += 1
            if "echo_ref" in res:
                nruns += 1
            bump("echo", "%s/%s/%s" % (c["out"], c["err"], ("one-" + c["sink"] + " %s x%d" % (c["script"], c["repeat"])) if c.get("sink") else ("one-pipe" if c["combined"] else "two-pipes")))
            continue
        bump("v_flag", c["v"])
        bump("debug_flag", c["debug"])
        bump("MAGEFILE_VERBOSE", own.get(b"MAGEFILE_VERBOSE"))
        bump("MAGEFILE_DEBUG", own.get(b"MAGEFILE_DEBUG"))
        def gclass(v):
            return "absent" if v is None else ("default" if v in ("go", b"go") else ("empty" if v in ("", b"") else ("garbage" if b"nonexistent" in (v if isinstance(v, bytes) else v.encode()) else "custom")))
        bump("gocmd", "flag %s x var %s" % (gclass(c["gocmd"]), gclass(own.get(b"MAGEFILE_GOCMD"))))
        bump("v_x_var", "flag %s x var %s" % (flag_bool(c["v"]), own.get(b"MAGEFILE_VERBOSE")))
        bump("debug_x_var", "flag %s x var %s" % (flag_bool(c["debug"]), own.get(b"MAGEFILE_DEBUG")))
        bump("timeout", ("flag " + c["t"] if c["t"] else "") + (" var %r" % own[b"MAGEFILE_TIMEOUT"] if b"MAGEFILE_TIMEOUT" in own else ""))
        if c.get("dd") or c.get("twords"):
            bump("tail", "%s%s %s" % ("-- " if c.get("dd") else "", " ".join(render_b(c.get("B") or [])), " ".join(c.get("twords") or [])))
        bump("stdin", c["stdin"] + ("" if c["word"] else " (default target, no word)"))
        for k in own:
            if not k.startswith(b"MAGEFILE_VERBOSE") and k not in SIX:
                bump("extras", k.decode("latin-1"))
        bump("caller_GOOS_GOARCH", "%s/%s" % (own.get(b"GOOS", b"<unset>").decode(), own.get(b"GOARCH", b"<unset>").decode()))
        for r in res["runs"]:
            nruns += 1
            bump("routes", r["route"])
            if r["obs"]["mode"] == "run" and r["obs"].get("timeout") != -1:
                bump("announcement_observable", "%s: %s" % (r["route"], announce_observable(r, conv) or "not (other writers on that stretch of stderr)"))
            bump("modes", r["obs"]["mode"])
            if not c.get("stray"):      # (what an unknown target word does is C04's model, not this one's)
                items.append(coq_case(c, p, res, r, conv, bools if not items else []))
                item_cfg.append((ci, r["route"]))
        h = case_hash([c[k] for k in ("layout", "v", "debug", "l", "h", "t", "gocmd", "env", "dv", "wv", "stdin", "off")])
        if h not in seen:
            seen.add(h)
            if c["v"] or c["debug"] or c["t"] or c["gocmd"] or own or c["dv"] != "none" or c["wv"] != "none":
                nontriv += 1
    base_items = sorted(base_env(m, projs[0], gocache).items())
    base_items = [(k, v) for k, v in base_items if k not in (b"MAGEFILE_CACHE", b"GOCACHE")]
    header = ("From Mage Require Import Base.Strs Model.Flags Run.eval_C11.\n"
              "Definition base : env := %s.\n" % coq_env(base_items))
    ctx.log('oracle done, %d model cases' % len(items))
    mism = ctx.coq_eval_shards("cases_C11", header, items, per_shard=max(8, (len(items) + NCPU - 1) // NCPU)) if items else []
    # Go's flag package: Model/FlagPkg.cl_parse against a real flag.FlagSet with the same definitions
    pmism, preqs, pans, pverd = [], [], [], {}
    if not (ctx.replay and ctx.replay.get("case")) or ctx.replay["case"].get("parser_words") is not None:
        fixed = None
        if ctx.replay and ctx.replay.get("case"):
            fixed = [{"front": ctx.replay["case"]["front"], "words": ctx.replay["case"]["parser_words"]}]
        preqs, pans, pitems, pverd = parser_cases(ctx, convbin, 320 if quick else 6000, fixed)
        pheader = "From Mage Require Import Base.Strs Model.Flags Run.eval_C11.\nDefinition mismatches := pmismatches.\n"
        pmism = ctx.coq_eval_shards("pcases_C11", pheader, pitems, per_shard=max(20, (len(pitems) + NCPU - 1) // NCPU))
        for idx, body in pmism[:3]:
            ctx.violation({"kind": "model-vs-implementation", "correspondence": "Run/eval_C11.pmismatches (Model/FlagPkg.cl_parse vs flag.FlagSet)",
                           "flag_set": "mage" if preqs[idx]["front"] else "generated main", "words": preqs[idx]["words"],
                           "flag.FlagSet": pans[idx], "model_says": body[:800]},
                          case={"parser_words": preqs[idx]["words"], "front": preqs[idx]["front"], "layout": "plain"}, found_input=False)
    if mism and not ctx.violations:
        for idx, body in mism[:3]:
            ci, route = item_cfg[idx]
            r = [x for x in results[ci]["runs"] if x["route"] == route][0]
            obs = {k: (v if not isinstance(v, (bytes, dict)) else _short(v)) for k, v in r["obs"].items()}
            ctx.violation({"kind": "model-vs-implementation", "correspondence": "Run/eval_C11.mismatches", "route": route, "argv": r["argv"],
                           "model_says": body[:1500], "implementation": obs}, case=cfgs[ci], found_input=False)
    ctx.log('model evaluated')
    cov = ctx.coverage
    cov["evaluations"] = nruns
    cov["distinct_nontrivial"] = nontriv
    cov["rule"] = ("one configuration = front-end flags x MAGEFILE_* variables x -d/-w variant x layout x extra variables x stdin payload; every configuration is "
                   "run through mage, through the compiled binary with the same flags, and through the compiled binary with the options as variables "
                   "(evaluations = process runs, each reproduced by the Coq model except the Echo runs); distinct by hash of the configuration; "
                   "non-trivial = at least one option, variable or directory given")
    cov["configurations"] = len(cfgs)
    cov["projects"] = {l: layouts.count(l) for l in set(layouts)}
    cov["platform_constrained_magefiles"] = {"c11_%d" % i: p.plat for i, p in enumerate(projs)}
    cov["host"] = "%s/%s" % (HOST[0], HOST[1])
    cov["distribution"] = dist
    cov["flag_package_cases"] = {"word_lists": len(preqs), "verdicts_of_flag.FlagSet": pverd, "mismatches": len(pmism)}
    cov["model_cases"] = len(items)
    cov["model_mismatches"] = len(mism)
    cov["traces_validated_against_impl"] = len(items) - len(mism)
    cov["parse_bool_strings_checked_against_strconv"] = len(bools)
    for ci, c in enumerate(cfgs[:3]):
        if "runs" in results[ci]:
            r = results[ci]["runs"][0]
            ctx.sample({"argv": r["argv"], "own_env": {k.decode("latin-1"): _short(v) for k, v in r["own"].items()}, "cwd": r["cwd"],
                        "obs": {k: v for k, v in r["obs"].items() if k in ("mode", "verbose", "debug", "timeout", "cwd", "verbose_log")}})
