"""C13 - engine property; theorems in coq/Props/C13.v over Model/Deps.v, trace acceptance against mg.Deps & co."""
from vlib import *
import depslib
from checks.c01 import depslib_trusted


def run(ctx):
    ctx.prove(["Props/%s.vo" % ctx.pid, "Run/eval_deps.vo"], extra_props=["Engine_bigstep"])   # + the small-step engine agrees with a big-step evaluator under every schedule (serial calls stop at the first failure: exactly the "needed" keys start, once)
    ctx.trusted_base += depslib_trusted()
    depslib.run_engine_check(ctx, ctx.pid, 400 if ctx.quick else 6000, serial_bias=(ctx.pid == "C13"))
    from checks.c01 import contention
    contention(ctx, parts=("ctxerr", "wide", "long", "ambient", "api", "custom"), rounds=200)      # a member failing with the context's own error stops a serial call like any other failure
