"""C13 - engine property; theorems in coq/Props/C13.v over Model/Deps.v, trace acceptance against mg.Deps & co."""
from vlib import *
import depslib
from checks.c01 import depslib_trusted


def run(ctx):
    ctx.prove(["Props/%s.vo" % ctx.pid, "Run/eval_deps.vo"])
    ctx.trusted_base += depslib_trusted()
    depslib.run_engine_check(ctx, ctx.pid, 400 if ctx.quick else 6000, serial_bias=(ctx.pid == "C13"))
    from checks.c01 import contention
    contention(ctx, parts=("ctxerr", "wide", "long"), rounds=200)      # a member failing with the context's own error stops a serial call like any other failure
