"""C14 - mg.F accepts exactly well-typed argument lists and calls faithfully.

Theorems: coq/Props/C14.v over Model/FnCheck.v + Model/FnId.v.
Correspondence: harness/unitrun (a pool of ~640 real Go functions, reflection-free on our side)
against the model evaluated by coqc (vm_compute) on the same (signature, argument list) cases.
Oracle: an independent reading of the property sentence in Python (well_typed / identity)."""
import json, base64, os, subprocess
from vlib import *

TY = {"int": "TInt", "bool": "TBool", "string": "TString", "dur": "TDur", "ctx": "TCtx", "err": "TErr",
      "ns": "(TNs 0)", "empty": "(TNs 1)", "myns": "(TNs 2)", "float64": "(TOther 1)", "int64": "(TOther 2)",
      "mystring": "(TOther 3)", "strslice": "(TSlice TString)", "intptr": "(TOther 4)", "iface": "(TOther 5)",
      "ctxstruct": "(TOther 6)", "ctxptr": "(TOther 7)", "ctxiface": "(TOther 8)", "fakedur": "(TOther 9)"}
SUP = ("int", "bool", "string", "dur")


def sig_term(s):
    ins = list(s["ins"])
    vt = None
    if s["variadic"]:
        vt = ins.pop()
    return "(Func {| ins := %s; vtail := %s; outs := %s |})" % (
        coq_list([TY[t] for t in ins]), coq_opt(TY[vt]) if vt else "None", coq_list([TY[t] for t in s["outs"]]))


def val_term(v):
    t = v["t"]
    if t == "int":
        return "(VInt %s)" % coq_Z(v["v"])
    if t == "dur":
        return "(VDur %s)" % coq_Z(v["v"])
    if t == "bool":
        return "(VBool %s)" % coq_bool(v["v"])
    if t == "string":
        return "(VStr %s)" % coq_str(base64.b64decode(v.get("b", "")))
    if t == "nil":
        return "VNil"
    return "(VOther %s)" % TY[t]


def recv_term(v):
    t = v["t"]
    if t in ("ns", "empty", "myns"):
        return "VEmpty"
    if t == "ctx":
        return "VCtxGiven" if v.get("v") == "given" else "(VOther TCtx)"
    return val_term(v)


STRS = [b"", b"a", b"hello world", b"\xff", b"\xfe", b"\xc3\x9c", b"a\"b", b"<&>", b"a,b", b"]", b"[1,2]",
        b"\x00", b"\xe2\x80\xa8", b"\\u00ff", b"true", b"5", b"null", b"\xff\xfe", b"\xf0\x9f\x98\x80", b"\xed\xa0\x80",
        b"-X main.version=1.2.3 -X main.commit=0123456789abcdef0123456789abcdef01234567", b"x" * 41, b"./a/very/deep/directory/structure/of/a/project/cmd/tool/" + b"y" * 200]


def gen_val(rng, t, salt=None):
    if t == "int":
        n = rng.choice([0, 1, -1, 5, 42, -7, 2**31, -2**40, 9, 10])
        return {"t": "int", "v": n}
    if t == "bool":
        return {"t": "bool", "v": rng.random() < 0.5}
    if t == "dur":
        return {"t": "dur", "v": rng.choice([0, 1, 1000, 10**9, -5, 3600 * 10**9, 5])}
    if t == "string":
        b = rng.choice(STRS)
        if rng.random() < 0.2:
            b = bytes(rng.randrange(256) for _ in range(rng.randrange(1, 6)))
        return {"t": "string", "b": base64.b64encode(b).decode()}
    if t == "iface":
        return {"t": "int64"}
    return {"t": t}


LOOKALIKE = {"int": ["int64", "dur", "float64", "nil", "string"], "string": ["mystring", "nil", "strslice", "int"],
             "dur": ["int", "int64", "nil", "fakedur", "fakedur"], "bool": ["int", "nil", "string"]}


# what a function returns: nil, an ordinary error, odd non-nil errors, and errors that LOOK transient (system errors, texts a
# retry heuristic would match) - mg.F's Run calls the function once whatever it returns
ERRMODES = ["nil", "err", "err", "typednil", "nilmap", "empty", "etxtbsy", "eagain", "eintr", "canceled", "deadline",
            "text:fork/exec /tmp/mage-bin: text file busy", "text:resource temporarily unavailable", "text:interrupted system call",
            "text:read tcp 10.0.0.1:443: connection reset by peer", "text:i/o timeout", "text:too many open files",
            "text:signal: killed", "text:exit status 1", "text:EOF", "text:retry", "text:context canceled", "text:TLS handshake timeout",
            "text:no space left on device", "text:stale NFS file handle", "text:running \"go\" failed with exit code 1"]


def right_args(rng, s):
    """the argument list the property sentence asks for (None when the signature admits none)."""
    ins = list(s["ins"])
    vt = ins.pop() if s["variadic"] else None
    if ins and ins[0] in ("ns", "empty", "myns"):
        ins = ins[1:]
    if ins and ins[0] == "ctx":
        ins = ins[1:]
    args = [gen_val(rng, t) for t in ins]
    if vt:
        k = rng.choice([0, 0, 1, 2, 3])
        args += [gen_val(rng, vt) for _ in range(k)]
    return args


def gen_case(rng, sigs, i, fn=None):
    if fn is None:
        fn = rng.randrange(len(sigs)) if rng.random() < 0.9 else rng.choice([-1, -2, -3])
    if fn < 0:
        args = [gen_val(rng, rng.choice(SUP)) for _ in range(rng.randrange(3))]
        return {"op": "F", "fn": fn, "args": args, "errmode": "err", "kind": "nonfunc"}
    s = sigs[fn]
    args = right_args(rng, s)
    kind = "right"
    r = rng.random()
    if r < 0.35 and args:
        j = rng.randrange(len(args))
        t = args[j]["t"]
        args[j] = {"t": rng.choice(LOOKALIKE.get(t, ["int", "string", "nil"]))}
        if args[j]["t"] in SUP:
            args[j] = gen_val(rng, args[j]["t"])
        kind = "wrongtype"
    elif r < 0.45 and args:
        del args[rng.randrange(len(args))]
        kind = "missing"
    elif r < 0.55:
        args.insert(rng.randrange(len(args) + 1), gen_val(rng, rng.choice(SUP)))
        kind = "surplus"
    elif r < 0.60:
        args = [{"t": "ctx"}] + args
        kind = "explicit-ctx"
    elif r < 0.63:
        args = [{"t": "ns"}] + args
        kind = "explicit-ns"
    return {"op": "F", "fn": fn, "args": args, "errmode": rng.choice(ERRMODES), "kind": kind}


# ---- oracle: the property sentence, independently of the Coq model
def oracle_well_typed(s, args):
    if s is None:
        return False
    if s["outs"] not in ([], ["err"]):
        return False
    ins = list(s["ins"])
    vt = ins.pop() if s["variadic"] else None
    if ins and ins[0] in ("ns", "empty", "myns"):
        ins = ins[1:]
    if ins and ins[0] == "ctx":
        ins = ins[1:]
    if any(t not in SUP for t in ins):
        return False
    if vt is not None and vt not in SUP:
        return False
    if len(args) < len(ins) or (vt is None and len(args) != len(ins)):
        return False
    want = ins + [vt] * (len(args) - len(ins))
    return all(a["t"] == w for a, w in zip(args, want))


def oracle_received(s, args):
    ins = list(s["ins"])
    out = []
    if ins and ins[0] in ("ns", "empty", "myns"):
        out.append("E")
        ins = ins[1:]
    if ins and ins[0] == "ctx":
        out.append("C")
    return out + [json.dumps(norm_val(a), sort_keys=True) for a in args]


def canon_recv(v):
    if v["t"] in ("ns", "empty", "myns"):
        return "E"
    if v["t"] == "ctx":
        return "C" if v.get("v") == "given" else "C?"
    return json.dumps(norm_val(v), sort_keys=True)


def norm_val(v):
    o = {"t": v["t"]}
    if "v" in v and v["v"] is not None:
        o["v"] = v["v"]
    if v.get("b"):
        o["b"] = v["b"]
    return o


def run(ctx):
    ctx.prove(["Props/C14.vo", "Run/eval_C14.vo"], extra_props=["Compose_C14_C01"])   # + composition C14 => C01 (engine keys = (function, arguments))
    import extractlib; extractlib.tables_tie(ctx, ['mg.argTypes'])   # literal data of the source re-proved equal to the models' (DESIGN 3.5)
    ctx.trusted_base += ["harness/unitrun (Go, reflection-free pool of functions generated by gen.py)",
                         "checks/c14.py (generator, Coq term printer, oracle)", "Go's reflect package behaves as Model/FnCheck.v's view of function types"]
    # identity by function NAME: functions whose runtime names differ only by the escaping of a dot in the import
    # path, instantiations of a generic function (known finding F23 is C01's) - probes of harness/depsrun
    import depslib
    depslib.build_depsrun(ctx)      # with the calls harness/apiprobe generates when the tree exports functions outside the known API
    from checks.c01 import contention
    contention(ctx, parts=("escaped", "custom", "ambient", "api"), rounds=50)
    binp = go_build_harness(ctx, "unitrun")
    sigs = json.load(open(os.path.join(ctx.tmp, "src_unitrun", "pool.json")))
    n = 3000 if ctx.quick else 60000
    npairs = 600 if ctx.quick else 8000
    rng = ctx.rng
    # instantiations of generic functions (harness/unitrun/op_generic.go) follow the generated pool; every 10th
    # case is one of them, so instantiations of ONE generic function meet in one process in random order
    gsigs = json.load(open(os.path.join(ctx.tmp, "src_unitrun", "pool_generic.json")))
    gbase = len(sigs)
    sigs = sigs + gsigs
    cases = [gen_case(rng, sigs, i, fn=(gbase + rng.randrange(len(gsigs))) if i % 10 == 3 else None) for i in range(n)]
    # every function of the pool once with exactly the argument list the property sentence asks for: rare signature shapes (no
    # parameters and an invalid result list, ...) are not left to the luck of the draw (the full sweep of the seeded changes
    # showed C14-4B missed on two seeds in a row)
    for fn, sg in enumerate(sigs):
        cases.append({"op": "F", "fn": fn, "args": right_args(rng, sg), "errmode": rng.choice(ERRMODES), "kind": "right"})
    for c in cases:
        if rng.random() < 0.2:
            c["ctxdone"] = True      # Run is handed a context that is already cancelled: same call, once, same error
        elif rng.random() < 0.04:
            c["ctxmid"] = True       # ... cancelled WHILE the function runs: Run returns the function's own result, after it finished
        c["verbose"] = rng.random() < 0.5     # verbose mode changes nothing about the call
    ctx.coverage["generic_instantiation_cases"] = sum(1 for c in cases if c["fn"] >= gbase)
    if ctx.replay and ctx.replay.get("case"):
        cases = [ctx.replay["case"]] + cases[:50]
    # pairs
    pairfns = [i for i, s in enumerate(sigs) if oracle_well_typed(s, right_args(rng, s)) and
               any(t in ("int", "string") for t in s["ins"][: len(s["ins"]) - (1 if s["variadic"] else 0)])]
    pairs = []
    for i in range(npairs):
        fn = rng.choice(pairfns)
        s = sigs[fn]
        a = right_args(rng, s)
        # salt the first int/string so that no key repeats across cases in this process
        for v in a:
            if v["t"] == "int":
                # variants below move it by at most 10: keys of different cases never meet; the salts alternate between valid
                # code points, values beyond the last code point, and negatives (an id printed with %q/%c would conflate those)
                v["v"] = [1000000 + 100 * i, 5000000 + 100 * i, -(5000000 + 100 * i)][i % 3]
                break
            if v["t"] == "string":
                v["b"] = base64.b64encode(b"case%d:" % i + base64.b64decode(v.get("b", ""))).decode()
                break
        b = json.loads(json.dumps(a))
        r = rng.random()
        if r < 0.3:
            pass
        elif r < 0.8 and b:
            j = rng.randrange(len(b))
            t = b[j]["t"]
            if t == "string":
                raw = base64.b64decode(b[j].get("b", ""))
                alt = rng.choice([raw + b"\xff", raw + b"\xfe", raw + b"x", raw[:-1] if raw else b"z", raw.replace(b"\xff", b"\xfe"),
                                  raw + b"\xef\xbf\xbd", raw.upper(),
                                  # spellings an id encoding might confuse with the value itself
                                  raw.hex().encode(), raw.hex().upper().encode(), base64.b64encode(raw), json.dumps(raw.decode("latin-1")).encode(),
                                  json.dumps(raw.decode("utf-8", "replace")).encode()[1:-1], raw.decode("utf-8", "replace").encode("utf-8"),
                                  # spellings a NORMALISATION (paths, case, blanks, Unicode forms, line ends) would conflate
                                  b"./" + raw, raw + b"/", raw + b"/.", raw + b"/x/..", raw.replace(b"/", b"//") if b"/" in raw else raw + b"//",
                                  raw.replace(b"/", b"\\") if b"/" in raw else raw + b"\\", raw.lower(), raw.swapcase(), raw + b" ", b" " + raw, raw + b"\n",
                                  raw + b"\r", raw + b"\t", raw.strip() if raw.strip() != raw else raw + b"\x00",
                                  raw.replace(b"\xc3\x9c", b"U\xcc\x88") if b"\xc3\x9c" in raw else raw + b"\xcc\x88",
                                  b"/" + raw, raw.replace(b":", b"/", 1), raw.replace(b"\\", b"/") if b"\\" in raw else raw + b"/../" + raw])
                b[j]["b"] = base64.b64encode(alt).decode()
            elif t == "int":
                b[j]["v"] = b[j]["v"] + rng.choice([1, -1, 10])
            elif t == "dur":
                b[j]["v"] = b[j]["v"] + 1
            elif t == "bool":
                b[j]["v"] = not b[j]["v"]
        elif s["variadic"]:
            vt = s["ins"][-1]
            b = b + [gen_val(rng, vt)]
        pairs.append({"op": "pair", "fn": fn, "a": a, "b": b, "verbose": rng.random() < 0.5})
    if ctx.replay and ctx.replay.get("pair"):
        pairs = [ctx.replay["pair"]] + pairs[:20]

    # one mg.F value Run concurrently with different contexts (faithful call: "plus the context ... where declared")
    conc = [{"op": "concrun", "raw": {"Workers": 8, "Rounds": 3000 if ctx.quick else 60000}}]
    reqs = cases + pairs + conc
    inp = "\n".join(json.dumps({k: v for k, v in r.items() if k != "kind"}) for r in reqs) + "\n"
    rc, out, err = sh([binp], input=inp.encode(), timeout=600)
    if rc != 0:
        raise BuildError("unitrun failed: " + err[-2000:])
    answers = [json.loads(l) for l in out.splitlines() if l.strip()]
    assert len(answers) == len(reqs), (len(answers), len(reqs))

    # ---- oracle on every case
    seen = set()
    nontriv = 0
    kinds = {}
    items = []
    for c, a in zip(cases, answers[:len(cases)]):
        s = sigs[c["fn"]] if c["fn"] >= 0 else None
        kinds[c["kind"]] = kinds.get(c["kind"], 0) + 1
        h = case_hash([c["fn"], c["args"]])
        if h not in seen:
            seen.add(h)
            if c["args"] or (s and s["ins"]):
                nontriv += 1
        want = oracle_well_typed(s, c["args"])
        accepted = not a["panic"]
        bad = None
        if accepted != want:
            bad = "mg.F %s but the argument list is %s" % ("succeeded" if accepted else "panicked", "well typed" if want else "not well typed")
        elif a["panic"] and not a.get("panic_is_error"):
            bad = "mg.F panicked with a non-error value"
        elif accepted:
            r = a["run"]
            experr = "pool" if (s["outs"] == ["err"] and c["errmode"] != "nil") else "nil"
            got = [canon_recv(v) for v in (r.get("received") or [])]
            exp = oracle_received(s, [norm_val(v) for v in c["args"]])
            if r["panic"]:
                bad = "Run panicked after mg.F accepted: " + r.get("msg", "")
            elif r["calls"] != 1:
                bad = "function called %d times" % r["calls"]
            elif r["err"] != experr:
                bad = "error result not returned unchanged: %s" % r["err"]
            elif got != exp:
                bad = "function received %s, expected %s" % (got, exp)
        if bad:
            ctx.violation({"kind": "oracle", "clause": bad, "sig": s, "args": c["args"]}, case=c)
        # Coq case
        if a["panic"]:
            obs = "OPanic"
        else:
            obs = "(OAccept %s %s)" % (coq_list([recv_term(v) for v in (a["run"].get("received") or [])]),
                                       coq_str(base64.b64decode(a["id"])))
        tgt = sig_term(s) if s else "NotFunc"
        items.append("{| c_target := %s; c_args := %s; c_obs := %s |}" % (tgt, coq_list([val_term(v) for v in c["args"]]), obs))
    pitems = []
    pn = 0
    for p, a in zip(pairs, answers[len(cases):]):
        same = [norm_val(v) for v in p["a"]] == [norm_val(v) for v in p["b"]]
        bad = None
        if a.get("panic"):
            bad = "unexpected panic: " + a["panic"]
        elif a["ideq"] != same:
            bad = "ids %s but argument lists %s" % ("equal" if a["ideq"] else "differ", "equal" if same else "differ")
        elif a["execs"] != (1 if same else 2):
            bad = "%d executions for %s argument lists" % (a["execs"], "equal" if same else "different")
        else:
            # run through mg.Deps (verbose or not): each execution received exactly the argument values of its mg.F
            got = sorted(json.dumps([canon_recv(v) for v in r]) for r in (a.get("received") or []))
            exp = sorted(json.dumps(oracle_received(sigs[p["fn"]], [norm_val(v) for v in x])) for x in ([p["a"]] if same else [p["a"], p["b"]]))
            if got != exp:
                bad = "run through mg.Deps%s the functions received %s, expected %s" % (" with MAGEFILE_VERBOSE=1" if p.get("verbose") else "", got, exp)
        if not same:
            pn += 1
        if bad:
            ctx.violation({"kind": "oracle-identity", "clause": bad, "sig": sigs[p["fn"]], "a": p["a"], "b": p["b"]}, extra={"pair": p})
        pitems.append("{| p_a := %s; p_b := %s; p_ideq := %s |}" % (coq_list([val_term(v) for v in p["a"]]),
                                                                  coq_list([val_term(v) for v in p["b"]]), coq_bool(a.get("ideq", False))))
    # ---- model vs implementation
    header = "From Mage Require Import Base.Strs Model.FnCheck Model.FnId Run.eval_C14.\n"
    mism = ctx.coq_eval_shards("cases_C14", header, items, per_shard=1000)
    pmism = ctx.coq_eval_shards("pcases_C14", header + "Definition mismatches := pmismatches.\n", pitems, per_shard=1000)
    had_oracle_violation = bool(ctx.violations)
    for idx, body in mism[:5]:
        if not had_oracle_violation:
            ctx.violation({"kind": "model-vs-implementation", "correspondence": "Run/eval_C14.mismatches (checkF/call_args/fn_id)",
                           "model_says": body[:500], "implementation": answers[idx]}, case=cases[idx], found_input=False)
    for idx, body in pmism[:5]:
        if not had_oracle_violation:
            ctx.violation({"kind": "model-vs-implementation", "correspondence": "Run/eval_C14.pmismatches (fn_id equality)",
                           "model_says": body[:500], "implementation": answers[len(cases) + idx]}, extra={"pair": pairs[idx]}, found_input=False)
    cov = ctx.coverage
    cov["evaluations"] = len(cases) + len(pairs)
    cov["distinct_nontrivial"] = nontriv + pn
    cov["rule"] = ("cases = (pool function, argument list) drawn as right / one wrong type (look-alikes first) / missing / surplus / explicit ctx or "
                   "namespace / non-function target; distinct by hash of (function, args); non-trivial = has arguments or parameters. "
                   "pairs = two argument lists for one function, equal or differing in one value (incl. invalid UTF-8 bytes) or in variadic length; "
                   "non-trivial pair = lists differ")
    cov["case_kinds"] = kinds
    cov["pool_signatures"] = len(sigs)
    cov["accepted"] = sum(1 for a in answers[:len(cases)] if not a["panic"])
    cov["model_mismatches"] = len(mism) + len(pmism)
    cov["traces_validated_against_impl"] = len(cases) + len(pairs)
    for c, a in list(zip(cases, answers))[:3]:
        ctx.sample({"sig": sigs[c["fn"]] if c["fn"] >= 0 else "non-function", "args": c["args"], "kind": c["kind"], "panic": a["panic"]})
    ctx.sample({"pair": pairs[0], "answer": answers[len(cases)]})
    # concurrent Runs of one mg.F value
    ca = answers[len(cases) + len(pairs)]
    cov["concurrent_runs"] = ca
    for name, r in sorted(ca.items()):
        if isinstance(r, dict) and r.get("wrong"):
            ctx.violation({"kind": "oracle-faithful-call", "clause": "%d of %d concurrent Runs of one mg.F value (%s with a context parameter) were handed the context or arguments of another call"
                           % (r["wrong"], r["calls"], name)}, case=conc[0])
    ctx.assumptions += ["reflect.Type reports NumIn/In/IsVariadic/NumOut/Out as the model's sig record does",
                        "encoding/json prints ints, bools and ASCII strings as Model/FnId.v says (compared byte for byte on every accepted case)"]
