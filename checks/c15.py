"""C15 - sh reports a command's outcome exactly.

Theorems: coq/Props/C15.v over Model/Sh.v.  Correspondence: every entry point of package sh
(Run, RunV, RunWith, RunWithV, Output, OutputWith, Exec) is called in-process (harness/unitrun op
"sh") against a helper child (harness/helperchild) that exits with a scripted code / kills itself,
writes scripted stdout/stderr payloads and reports its argv, environment and stdin digest; the
caller's os.Stdin/Stdout/Stderr are replaced by files for the call.  The Coq model is evaluated on
the same inputs (process environment as os.Environ() reported it, env map, command, arguments,
the child's own report) and must reproduce every observable.  sh.CmdRan / sh.ExitStatus /
mg.ExitStatus are also applied to raw error values (os/exec errors of every exit code, signals,
missing / non-executable commands, mg.Fatal, plain, nil).
Oracle: a direct Python reading of the property sentence on every observed call.

All strings of a case are Python str with one char per byte (latin-1)."""
import json, os, re, hashlib, errno, shutil, subprocess
from vlib import *

B = lambda s: s.encode("latin-1")
HX = lambda s: B(s).hex()

KEYS = ["C15_A", "C15_B", "C15_C", "c15_d", "C15_E_1", "_C15F"]
VALS = ["", "v", "inh", "a b", "x=y", "=", "==a=", "$C15_A", "${C15_B}", "$$", "val$", "\xc3\xa9", "\xff\xfe",
        "/tmp", "1", "line1\nline2", "tab\there", "'q' \"dq\"", "$", "a$C15_C=b"]
MAPVALS = ["", "map", "m v", "k=v", "$C15_B", "${C15_A}", "$", "\xc3\xbc", "\xfe", "0", "=x", "over ride"]
ARG_SIMPLE = ["$C15_A", "${C15_A}", "$C15_B", "${C15_B}", "$C15_C", "${c15_d}", "$c15_d", "$C15_E_1", "${_C15F}", "$_C15F",
              "$C15_NOT_SET", "${C15_NOT_SET}", "lit", "-flag", "a=b", " ", "/", ".", "x", "\xc3\xa9", "\xff",
              "$C15_Asuffix", "${C15_A}suffix", "$C15_A$C15_B", "$C15_A.$C15_B", "\\$C15_A", "$MAGEFILE_VERBOSE", "$PATH"]
ARG_ODD = ["$$", "${}", "$1", "${1}", "$*", "$#", "$-", "$?", "$@", "$!", "${", "${C15_A", "$}", "$ ", "$.", "${C15_A }", "${A=B}"]
TRAILERS = ["$", "", "", "", "", "", "", ""]
PAYLOADS = ["", "\n", "\n\n", "no newline", "line\n", "a\n\nb\n", "two\n\n", "\n\nlead", "\x00\xff\x01bin\x00\n", "\xff\xfe\x00",
            "\r\n", "x\r\n", " \n", "\n \n", "ends with space \n ", "\n" * 5]
VERB = [None, None, None, "0", "", "false", "1", "1", "true", "TRUE", "True", "t", "T", "yes", "2", "F", "tRUE", " 1", "on"]
TRUE_SET = {"1", "t", "T", "TRUE", "true", "True"}       # strconv.ParseBool's documentation
FNS = ["Run", "RunV", "RunWith", "RunWithV", "Output", "OutputWith", "Exec"]
WITH_ENV = {"RunWith", "RunWithV", "OutputWith", "Exec"}
WR = ["nil", "buf", "os", "nil", "buf", "os", "fail:0", "fail:3", "fail:64"]     # Exec's writers; fail:N accepts N bytes, then every Write fails
SIGNALS = [9, 15, 1, 2]        # candidates; only those that really kill the helper in this environment are used (probed per run)


def wfail_n(s):
    """N of a writer 'fail:N', else None"""
    return int(s[5:]) if s.startswith("fail:") else None
# every way a start can fail that the harness can construct (name -> command string)
NOSTART = {"missing-bare-name": "c15-no-such-command-xyz", "missing-path": "/nonexistent/c15-helper", "no-x-bit": "@NOEXEC@",
           "directory": "@BINDIR@", "exec-format-error": "@BADFMT@", "missing-interpreter": "@BADINTERP@",
           "empty-command": "", "through-regular-file": "@BIN@/x", "missing-relative": "./c15-nothing-here",
           "text-file-busy": "@TXTBSY@",
           # command words with blanks that cannot be started, each with a DECOY next to it: an executable (the helper itself, so
           # it would report) named like the first white-space separated field of the command
           "blank-in-missing-path-decoy": "@ODD@/nx/my tools/lint", "blank-in-no-x-file-decoy": "@ODD@/nx/a b",
           "blanks-in-missing-name-decoy": "@ODD@/nx/x y  z", "tab-in-missing-name-decoy": "@ODD@/nx/tab\tname",
           "newline-in-missing-name-decoy": "@ODD@/nx/nl\nname", "bare-name-with-blank-decoy-on-PATH": "c15decoy --version"}
# startable commands whose names / directories contain blanks, tabs and shell-significant characters (relative to @ODD@/ok)
ODD_OK = ["my tools/lint", "a b", "x;y", "$(x)", "it's", 'say "hi"', "tab\there", "star*", "back\\slash", " lead", "trail ", "new\nline",
          "a&b|c", "`tick`", "semi;colon dir/run me", "{brace}", "~tilde", "#hash"]       # a copy of the helper that the check holds open for writing during the whole run (ETXTBSY)
BIGARG = "@BIGARG@"            # an argument longer than the kernel's MAX_ARG_STRLEN (131072): execve fails with E2BIG
BIGLEN = 140000
MAX_REPORT = 6          # replay files written per run, at most 2 per kind of clause (the evidence counts all failing cases)


# ---------------------------------------------------------------- output volume and chunking: write plans
_PAT = {}


def pat(n, salt):
    """first n bytes of a stream's pattern (harness/helperchild pat): position dependent, '\n' at every 1000th position"""
    key = (n, salt)
    if key not in _PAT:
        _PAT[key] = bytes(10 if i % 1000 == 999 else 33 + (i * 131 + (i >> 8) * 17 + salt) % 94 for i in range(n)).decode("latin-1")
    return _PAT[key]


def plan_streams(plan):
    """what a helper child given this write plan writes to (stdout, stderr)"""
    steps = [st.split(",") for st in plan.split(";")]
    steps = [f for f in steps if len(f) == 3]
    if all(f[0] in ("o", "e") for f in steps):
        tot = {"o": 0, "e": 0}
        for f in steps:
            tot[f[0]] += int(f[1])
        return pat(tot["o"], 0), pat(tot["e"], 5)
    # o / e the pattern with newlines; O / E the pattern WITHOUT newlines (one long line); on / en newlines;
    # or / er "\r" progress output; oz / ez NUL bytes; offsets run per stream
    buf, salt = {"o": [], "e": []}, {"o": 0, "e": 5}
    off = {"o": 0, "e": 0}
    prog = "progress 12%\r"
    for f in steps:
        st, n = f[0][0].lower(), int(f[1])
        i0 = off[st]
        if f[0] in ("o", "e"):
            buf[st].append("".join("\n" if i % 1000 == 999 else chr(33 + (i * 131 + (i >> 8) * 17 + salt[st]) % 94) for i in range(i0, i0 + n)))
        elif f[0] in ("O", "E"):
            buf[st].append("".join(chr(33 + (i * 131 + (i >> 8) * 17 + salt[st]) % 94) for i in range(i0, i0 + n)))
        elif f[0] in ("on", "en"):
            buf[st].append("\n" * n)
        elif f[0] in ("or", "er"):
            buf[st].append("".join(prog[i % len(prog)] for i in range(i0, i0 + n)))
        elif f[0] in ("oz", "ez"):
            buf[st].append("\x00" * n)
        else:
            buf[st].append("?" * n)
        off[st] += n
    return "".join(buf["o"]), "".join(buf["e"])


_PS = {}
_plan_streams_raw = plan_streams


def plan_streams(plan):
    if plan not in _PS:
        _PS[plan] = _plan_streams_raw(plan)
    return _PS[plan]


def shape_plans():
    """payload SHAPES: single lines of 65535 .. 1 MiB bytes (with and without the trailing newline, followed by further
    writes), only "\\r" progress output, NUL bytes"""
    P = []
    for n in (65535, 65536, 65537, 200000, 1048576):
        P.append("E,%d,%d;en,1,1;e,20,20;o,5,5" % (n, n))          # ONE stderr line of n bytes, then more on both streams
        P.append("O,%d,%d;on,1,1;o,7,7" % (n, n))                  # the same on stdout
    P += ["E,65537,65537", "O,200000,200000", "E,70000,4096;en,1,1;E,70000,70000"]      # no trailing newline; a line arriving in chunks
    P += ["er,5000,13;or,3000,13", "or,65,13;on,1,1", "oz,4096,4096;ez,100,100;o,10,10", "ez,70000,70000;en,1,1;e,3,3"]
    return P


def volume_plans():
    P = []
    for n in (0, 1, 4095, 4096, 8191, 8192, 8193, 65536, 65537, 262144, 1048576):
        P.append("o,%d,%d" % (n, n))                                          # stdout in one write
    for n in (8192, 8193, 9000, 32769, 65537, 262144, 1048576):
        P.append("e,%d,%d;e,10,10;o,5,5;e,20,1" % (n, n))                     # a large stderr write, then further writes
    P += ["o,5000,1;e,5000,7", "o,20000,3", "e,12000,1", "e,9000,4500;o,3,1"]   # many small writes
    P.append(";".join("o,300,100;e,300,50" for _ in range(10)))               # interleaved
    P.append("o,100000,100000;e,100000,100000;o,10,10;e,10,10;o,70000,4096;e,70000,8192")
    P.append("e,1000,1000;o,1000,1000")                                       # both end in a newline
    return P


COQ_PLAN_LIMIT = 8200        # cases whose payloads are larger are judged by the oracle only (the Coq case file would be too large)


# ---------------------------------------------------------------- generation
def gen_arg(rng):
    n = rng.choice([1, 1, 1, 2, 2, 3])
    odd = rng.random() < 0.3
    return "".join(rng.choice(ARG_ODD if (odd and rng.random() < 0.6) else ARG_SIMPLE) for _ in range(n)) + (rng.choice(TRAILERS) if odd else "")


def gen_case(rng, exit_code=None, fn=None, good_cmd=False, signals=(9,)):
    fn = fn or rng.choice(FNS)
    c = {"fn": fn, "so": rng.choice(WR), "se": rng.choice(WR)}
    inherit = [[k, rng.choice(VALS)] for k in KEYS if rng.random() < 0.55]
    r = rng.random()
    if r < 0.12:
        env = None
    elif r < 0.2:
        env = []
    else:
        ks = [k for k in KEYS if rng.random() < 0.45]
        if rng.random() < 0.15:
            ks.append(rng.choice(["C15_NEW", "C15_NOT_SET", "1", "PATH_C15"]))
        rng.shuffle(ks)
        env = [[k, rng.choice(MAPVALS)] for k in ks]
    # the command
    r = rng.random() * (0.8 if good_cmd else 1.12)
    pgood = 1.0 if good_cmd else 0.9
    good, bad = "@BIN@", rng.choice(["/nonexistent/c15-helper", "@NOEXEC@", "@BINDIR@", "", "@BADFMT@", "@BADINTERP@"])
    if r < 0.30:
        cmd = "@BIN@"
    elif r < 0.62:
        cmd = rng.choice(["$C15_BIN", "${C15_BIN}"])
        where = rng.random() * (0.85 if good_cmd else 1.0)
        uses = fn in WITH_ENV and env is not None
        if where < 0.35 or not uses:
            inherit.append(["C15_BIN", good if rng.random() < pgood else bad])
        elif where < 0.6:
            env.append(["C15_BIN", good if rng.random() < pgood else bad])
        elif where < 0.85:
            inherit.append(["C15_BIN", bad]); env.append(["C15_BIN", good])     # the map repairs it
        else:
            inherit.append(["C15_BIN", good]); env.append(["C15_BIN", bad])     # the map breaks it
    elif r < 0.80:
        cmd = rng.choice(["$C15_DIR/helperchild", "${C15_DIR}/helperchild", "${C15_DIR}/$C15_NAME"])
        uses = fn in WITH_ENV and env is not None
        d = "@BINDIR@" if rng.random() < pgood else "/nonexistent"
        if uses and rng.random() < 0.5:
            env.append(["C15_DIR", d])
            if rng.random() < 0.5:
                inherit.append(["C15_DIR", "/nonexistent/other"])
        else:
            inherit.append(["C15_DIR", d])
        if "C15_NAME" in cmd:
            inherit.append(["C15_NAME", "helperchild"])
    else:
        cmd = rng.choice(["/nonexistent/c15-helper", "c15-no-such-command-xyz", "@NOEXEC@", "@BINDIR@", "$C15_NOT_SET", "@BADFMT@", "@BADINTERP@",
                          "@BIN@.missing", "@BIN@/x", "./c15-nothing-here"])
    c["cmd"] = cmd
    c["args"] = [gen_arg(rng) for _ in range(rng.choice([0, 1, 1, 2, 3, 5]))]
    c["verbose"] = rng.choice(VERB)
    if env is not None and rng.random() < 0.08:
        env.append(["MAGEFILE_VERBOSE", rng.choice(["1", "0"])])    # must NOT decide verbosity of the caller
    c["stdin"] = rng.choice(["", "stdin data\n", "\x00\x01\xff", "x" * 5000])
    c["exit"] = exit_code if exit_code is not None else rng.choice([0, 0, 0, 0, 0, 0, 1, 1, 2, 3, 94, 126, 127, 128, 137, 254, 255, rng.randrange(256)])
    c["sig"] = rng.choice(list(signals)) if (exit_code is None and rng.random() < 0.06) else 0
    c["out"] = rng.choice(PAYLOADS) if rng.random() < 0.9 else "".join(chr(rng.randrange(256)) for _ in range(rng.choice([1, 7, 40, 120]))) + rng.choice(["", "\n", "\n\n"])
    c["err"] = rng.choice(PAYLOADS)
    c["via_map"] = bool(fn in WITH_ENV and env is not None and rng.random() < 0.12)
    c["inherit"] = inherit
    c["env"] = env
    c["streams"] = "pipe" if rng.random() < 0.3 else "file"      # what the caller's os.Stdin/Stdout/Stderr are reassigned to for the call
    if c["streams"] == "file" and rng.random() < 0.3:
        c["stdin_kind"] = rng.choice(STDIN_KINDS[1:])
        if c["stdin_kind"] == "pty":
            c["stdin"] = "typed on a terminal\n"
    if rng.random() < 0.15:                                       # credential-looking names, values used in the command line
        nm, val = rng.choice(CRED_NAMES), rng.choice(CRED_VALS)
        where = rng.random()
        if where < 0.4 or env is None or fn not in WITH_ENV:
            inherit.append([nm, val])
        elif where < 0.7:
            env.append([nm, val])
        else:
            inherit.append([nm, "inherited-" + val]); env.append([nm, val])
        c["args"] = c["args"][:2] + [rng.choice(["$%s", "${%s}", "--password=$%s", "Authorization: Bearer ${%s}"]) % nm]
    return c


GROUP_FNS = [("Run", "nil", "nil"), ("RunWith", "nil", "nil"), ("Output", "nil", "nil"), ("OutputWith", "nil", "nil"),
             ("Exec", "buf", "nil"), ("Exec", "nil", "nil"), ("Exec", "buf", "buf")]
GROUP_FIXED = [
    # (inherited C15_A, [(fn index, env map or None)], plan)
    ("inherited", [(1, [["C15_A", "from A"]]), (0, None)], ["s0", "s1", "r0", "r1"]),           # B (no map) starts while A is in flight
    ("inherited", [(1, [["C15_A", "from A"]]), (2, None)], ["s0", "s1", "r1", "r0"]),
    (None, [(3, [["C15_A", "from A"]]), (2, None)], ["s0", "s1", "r0", "r1"]),                  # the variable is not inherited at all
    ("inherited", [(3, [["C15_A", "from A"]]), (4, [["C15_A", "from B"]])], ["s0", "s1", "r0", "r1"]),   # same key, A ends first
    ("inherited", [(4, [["C15_A", "from A"]]), (1, [["C15_A", "from B"]])], ["s0", "s1", "r1", "r0"]),   # nested
    ("inherited", [(0, None), (3, [["C15_A", "from B"]])], ["s0", "s1", "r0", "r1"]),           # the call without a map started first
    ("", [(1, [["C15_A", "from A"]]), (3, [["C15_A", ""], ["C15_B", "b of B"]]), (2, None)], ["s0", "s1", "s2", "r0", "r1", "r2"]),
    ("inherited", [(6, [["C15_A", "from A"]]), (5, []), (4, [["C15_A", "from C"]])], ["s0", "s1", "s2", "r2", "r0", "r1"]),
]


def gen_group(rng, fixed=None):
    """overlapping sh calls: every child reports its environment and argv and then stays in flight until released"""
    if fixed is not None:
        inh, members, plan = fixed
        inherit = ([["C15_A", inh]] if inh is not None else []) + [["C15_B", "b inherited"]]
        spec = [(GROUP_FNS[fi], (None if m is None else [list(kv) for kv in m])) for fi, m in members]
    else:
        n = rng.choice([2, 2, 3])
        inherit = [[k, rng.choice(VALS[:8])] for k in ("C15_A", "C15_B", "C15_C") if rng.random() < 0.6]
        spec = []
        for i in range(n):
            f = rng.choice(GROUP_FNS)
            r = rng.random()
            m = None if r < 0.25 else ([] if r < 0.35 else [[k, "%s of call %d" % (rng.choice(MAPVALS), i)] for k in ("C15_A", "C15_B", "C15_C") if rng.random() < 0.6])
            spec.append((f, m))
        starts = list(range(n)); rng.shuffle(starts)
        rel = list(range(n)); rng.shuffle(rel)
        plan = ["s%d" % i for i in starts] + ["r%d" % i for i in rel]
    calls = []
    for i, ((fn, so, se), m) in enumerate(spec):
        calls.append({"fn": fn, "so": so, "se": se, "env": m, "cmd": "@BIN@",
                      "args": ["call%d" % i, rng.choice(["$C15_A", "${C15_A}", "[$C15_A|$C15_B]", "$C15_B$C15_C", "lit"]), "${C15_B}"],
                      "exit": rng.choice([0, 0, 3, 7, 255]), "out": "out of call %d\n" % i})
    return {"group": True, "inherit": inherit, "order": plan, "calls": calls}


def group_member(c, i, dump, hold):
    """member i of a group as an ordinary single call (what the oracle and the model judge)"""
    m = c["calls"][i]
    return {"fn": m["fn"], "so": m["so"], "se": m["se"], "env": m["env"], "cmd": m["cmd"],
            "args": m["args"] + ["--c15-exit=%d" % m["exit"], "--c15-out=" + HX(m["out"]), "--c15-dump=" + dump, "--c15-hold=" + hold],
            "exit": m["exit"], "sig": 0, "out": m["out"], "err": "", "stdin": "", "via_map": False, "verbose": None,
            "inherit": c["inherit"], "member_of_group": i}


def gen_seq(rng, kind=None, n=None):
    """k commands one after the other in one process, ONE stdin for all of them: each reads exactly its portion"""
    kind = kind or rng.choice(["file", "pipe", "pty"])
    n = n or rng.choice([2, 2, 3, 4])
    lines = ["line %d for command %d\n" % (i, i) if i % 2 else "l%d\n" % i for i in range(n)] + ["left for the caller\n", "and more\n"]
    calls = []
    for i in range(n):
        fn, so, se = rng.choice(GROUP_FNS)
        r = rng.random()
        m = None if r < 0.3 else [[k, "%s %d" % (rng.choice(MAPVALS), i)] for k in ("C15_A", "C15_B") if rng.random() < 0.5]
        how = "line" if (kind == "pty" or rng.random() < 0.7) else str(rng.choice([1, 3, len(lines[i])]))
        calls.append({"fn": fn, "so": so, "se": se, "env": m, "cmd": "@BIN@" if rng.random() < 0.9 else "/nonexistent/c15-helper",
                      "args": ["cmd%d" % i, rng.choice(["$C15_A", "${C15_B}", "lit"])], "exit": rng.choice([0, 0, 0, 3, 255]),
                      "out": "out %d\n" % i, "read": how})
    return {"seq": True, "stdin_kind": kind, "stdin": "".join(lines), "calls": calls,
            "inherit": [[k, rng.choice(VALS[:8])] for k in ("C15_A", "C15_B") if rng.random() < 0.6]}


def seq_portions(c, started):
    """the portion of the caller's stdin each command of a sequence reads (None for one that was not started), and the rest"""
    data, pos, out = c["stdin"], 0, []
    for m, st in zip(c["calls"], started):
        if not st:
            out.append(None)
            continue
        if m["read"] == "line":
            j = data.find("\n", pos)
            end = len(data) if j < 0 else j + 1
        else:
            end = min(len(data), pos + int(m["read"]))
        out.append(data[pos:end])
        pos = end
    return out, data[pos:]


def seq_member(c, i, dump):
    m = c["calls"][i]
    return {"fn": m["fn"], "so": m["so"], "se": m["se"], "env": m["env"], "cmd": m["cmd"],
            "args": m["args"] + ["--c15-exit=%d" % m["exit"], "--c15-out=" + HX(m["out"]), "--c15-dump=" + dump, "--c15-read=" + m["read"]],
            "exit": m["exit"], "sig": 0, "out": m["out"], "err": "", "stdin": "", "via_map": False, "verbose": None,
            "inherit": c["inherit"], "member_of_group": i}


def gen_raw(rng, quick, signals=(9,)):
    out = []
    for k in range(256):
        out.append({"raw": True, "kind": "child", "cmd": "@BIN@", "exit": k, "sig": 0})
    for s in signals:
        out.append({"raw": True, "kind": "child", "cmd": "@BIN@", "exit": 0, "sig": s})
    for m in sorted(NOSTART.values()):
        out.append({"raw": True, "kind": "child", "cmd": m, "exit": 0, "sig": 0})
    codes = [0, 1, 2, 3, 94, 255, 256, -1, 1000, -2**31] + [rng.randrange(-300, 70000) for _ in range(10 if quick else 300)]
    for k in codes:
        for kind in ("fatal", "fatalf", "custom"):
            out.append({"raw": True, "kind": kind, "code": k})
    out.append({"raw": True, "kind": "plain"})
    out.append({"raw": True, "kind": "nil"})
    return out


# ---------------------------------------------------------------- running
class World:
    def __init__(self, ctx):
        self.ctx = ctx
        d = os.path.join(ctx.tmp, "b")
        os.makedirs(d, exist_ok=True)
        self.bindir = d
        self.bin = go_build_harness(ctx, "helperchild", tags=None, out=os.path.join(d, "helperchild"))
        self.noexec = os.path.join(ctx.tmp, "noexec")
        with open(self.noexec, "w") as f:
            f.write("#!/bin/sh\nexit 0\n")
        os.chmod(self.noexec, 0o644)
        # pass exec.LookPath (regular file, x bit) but the kernel refuses to execve them
        self.badfmt = os.path.join(ctx.tmp, "badfmt")          # neither ELF nor a #! script: ENOEXEC
        with open(self.badfmt, "wb") as f:
            f.write(b"\x00\x01this is not an executable format\n" * 8)
        os.chmod(self.badfmt, 0o755)
        self.badinterp = os.path.join(ctx.tmp, "badinterp")    # the #! interpreter does not exist: ENOENT from execve
        with open(self.badinterp, "w") as f:
            f.write("#!/nonexistent/c15-interpreter\nexit 0\n")
        os.chmod(self.badinterp, 0o755)
        # execve fails with ETXTBSY while some process has the file open for writing: this process does, until it exits
        self.txtbsy = os.path.join(ctx.tmp, "txtbsy")
        shutil.copy(self.bin, self.txtbsy)
        os.chmod(self.txtbsy, 0o755)
        self.txtbsy_fd = os.open(self.txtbsy, os.O_WRONLY)
        try:
            subprocess.run([self.txtbsy], env={}, stdin=subprocess.DEVNULL, stdout=subprocess.DEVNULL, stderr=subprocess.DEVNULL, timeout=20)
            self.txtbsy_effective = False        # this kernel starts it anyway: the shape is left out (recorded in the evidence)
        except OSError as ex:
            self.txtbsy_effective = (ex.errno == errno.ETXTBSY)
        # odd command words: startable ones (hard links to the helper, really named so) under o/ok, and unstartable ones
        # under o/nx with decoys named like their first field; a decoy for a bare name on PATH
        self.odd = os.path.join(ctx.tmp, "o")
        self.odd_ok = []
        for rel in ODD_OK:
            pth = os.path.join(self.odd, "ok", rel)
            os.makedirs(os.path.dirname(pth), exist_ok=True)
            os.link(self.bin, pth)
            self.odd_ok.append(pth)
        nx = os.path.join(self.odd, "nx")
        os.makedirs(nx)
        for decoy in ("my", "a", "x", "tab", "nl"):
            os.link(self.bin, os.path.join(nx, decoy))
        with open(os.path.join(nx, "a b"), "w") as f:
            f.write("#!/bin/sh\nexit 0\n")
        os.chmod(os.path.join(nx, "a b"), 0o644)
        os.makedirs(os.path.join(self.odd, "pb"))
        os.link(self.bin, os.path.join(self.odd, "pb", "c15decoy"))
        self.startable = set([self.bin] + self.odd_ok)
        self.unitrun = go_build_harness(ctx, "unitrun")
        # unitrun moves its request/answer protocol off descriptors 0 and 1 and points those at guard files (op_sh.go init)
        with open(os.path.join(ctx.tmp, "guard-stdin"), "w") as f:
            f.write("this is NOT the caller's stdin\n")
        self.base_env = {"PATH": "/usr/bin:/bin:" + os.path.join(self.odd, "pb"), "C15_FDGUARD": ctx.tmp}

    def subst(self, s):
        return s.replace("@BINDIR@", self.bindir).replace("@BIN@", self.bin).replace("@NOEXEC@", self.noexec).replace("@BADFMT@", self.badfmt).replace("@BADINTERP@", self.badinterp).replace("@TXTBSY@", self.txtbsy).replace("@ODD@", self.odd).replace("@KNOBFILE@", os.path.join(self.ctx.tmp, "knob", "knob.out"))


def make_request(w, c, workdir, idx):
    dump = os.path.join(workdir, "d%d" % idx)
    if c.get("group"):
        setenv = {k: w.subst(v) for k, v in c["inherit"]}
        calls, members = [], []
        for i in range(len(c["calls"])):
            di, hi = "%s.%d" % (dump, i), "%s.%d.go" % (dump, i)
            mc = group_member(c, i, di, hi)
            uses = mc["fn"] in WITH_ENV
            sub = {"fn": mc["fn"], "cmd": HX(w.subst(mc["cmd"])), "args": [HX(x) for x in mc["args"]], "so": mc["so"], "se": mc["se"],
                   "dump": di, "hold": hi}
            if uses and mc["env"] is not None:
                sub["env"] = {HX(k): HX(v) for k, v in mc["env"]}
            calls.append(sub)
            members.append((mc, [list(kv) for kv in mc["env"]] if (uses and mc["env"] is not None) else None))
        return {"op": "sh", "raw": {"fn": "group", "calls": calls, "plan": c["order"], "setenv": {HX(k): HX(v) for k, v in setenv.items()},
                                    "tmp": workdir}}, setenv, members
    if c.get("seq"):
        setenv = {k: w.subst(v) for k, v in c["inherit"]}
        calls, members = [], []
        for i in range(len(c["calls"])):
            di = "%s.%d" % (dump, i)
            mc = seq_member(c, i, di)
            uses = mc["fn"] in WITH_ENV
            sub = {"fn": mc["fn"], "cmd": HX(w.subst(mc["cmd"])), "args": [HX(x) for x in mc["args"]], "so": mc["so"], "se": mc["se"], "dump": di}
            if uses and mc["env"] is not None:
                sub["env"] = {HX(k): HX(v) for k, v in mc["env"]}
            calls.append(sub)
            members.append((mc, [list(kv) for kv in mc["env"]] if (uses and mc["env"] is not None) else None))
        return {"op": "sh", "raw": {"fn": "seq", "calls": calls, "stdin": HX(c["stdin"]), "stdin_kind": c["stdin_kind"],
                                    "setenv": {HX(k): HX(v) for k, v in setenv.items()}, "tmp": workdir}}, setenv, members
    if c.get("raw"):
        se = {}
        if c["kind"] == "child":
            se = {"C15X_EXIT": str(c["exit"])}
            if c["sig"]:
                se["C15X_SIG"] = str(c["sig"])
        return {"op": "sh", "raw": {"fn": "raw", "kind": c["kind"], "code": c.get("code", 0), "cmd": HX(w.subst(c.get("cmd", ""))), "args": [],
                                    "setenv": {HX(k): HX(v) for k, v in se.items()}, "tmp": workdir}}, se, None
    setenv = {}
    for k, v in c["inherit"]:
        setenv[k] = w.subst(v)
    envm = None
    if c["env"] is not None:
        envm = [[k, w.subst(v)] for k, v in c["env"]]
    if c.get("plan"):
        setenv["C15X_PLAN"] = c["plan"]
    else:
        setenv["C15X_OUT"] = HX(c["out"])
        setenv["C15X_ERR"] = HX(c["err"])
    setenv["C15X_DUMP"] = dump
    if c["sig"]:
        setenv["C15X_SIG"] = str(c["sig"])
    wait = ""
    if c.get("bg"):
        # a detached descendant outlives the child and writes late to the inherited stdout / stderr
        wait = dump + ".done"
        setenv["C15X_BG"] = str(c["bg"])
        setenv["C15X_BG_DONE"] = wait
        if c.get("late_out"):
            setenv["C15X_LATE_OUT"] = HX(c["late_out"])
        if c.get("late_err"):
            setenv["C15X_LATE_ERR"] = HX(c["late_err"])
    if c["via_map"]:
        setenv["C15X_EXIT"] = str((c["exit"] + 1) % 256)
        envm.append(["C15X_EXIT", str(c["exit"])])
    else:
        setenv["C15X_EXIT"] = str(c["exit"])
    if c["verbose"] is not None:
        setenv["MAGEFILE_VERBOSE"] = c["verbose"]
    uses = c["fn"] in WITH_ENV
    raw = {"fn": c["fn"], "cmd": HX(w.subst(c["cmd"])), "args": [HX("x" * BIGLEN if a == BIGARG else a) for a in c["args"]],
           "setenv": {HX(k): HX(v) for k, v in setenv.items()}, "unset": [], "stdin": HX(c["stdin"]), "stdin_kind": c.get("stdin_kind") or "file",
           "so": c["so"], "se": c["se"], "dump": dump, "tmp": workdir, "wait": wait, "streams": c.get("streams") or "file"}
    if uses and envm is not None:
        raw["env"] = {HX(k): HX(v) for k, v in envm}
    return {"op": "sh", "raw": raw}, setenv, (envm if uses else None)


def probe_signals(w):
    """the candidate signals that really terminate the helper child here (a signal can be inherited as ignored or blocked;
    what the standard library says about the raw os/exec error decides)"""
    cs = [{"raw": True, "kind": "child", "cmd": "@BIN@", "exit": 0, "sig": s} for s in SIGNALS]
    res = run_all(w, cs, nw=len(cs))
    return [s for s, (a, _, _) in zip(SIGNALS, res) if a["is_exit_error"] and not a["exited"] and a["signaled"]] or [9]


def run_all(w, cases, nw=None):
    """returns per case (answer, setenv, envm_used)"""
    ctx = w.ctx
    nw = nw or max(1, min(NCPU, (len(cases) + 39) // 40))
    chunks = [list(range(i, len(cases), nw)) for i in range(nw)]

    def work(wi):
        workdir = os.path.join(ctx.tmp, "w%d" % wi)
        os.makedirs(workdir, exist_ok=True)
        metas, lines = [], []
        for idx in chunks[wi]:
            rq, setenv, envm = make_request(w, cases[idx], workdir, idx)
            metas.append((idx, setenv, envm))
            lines.append(json.dumps(rq))
        rc, out, err = sh([w.unitrun], input=("\n".join(lines) + "\n").encode(), env=dict(w.base_env), cwd=workdir, timeout=1700)
        ans = [json.loads(l) for l in out.splitlines() if l.strip()]
        if rc != 0 or len(ans) != len(lines):
            raise BuildError("unitrun (op sh) failed rc=%d answers=%d/%d: %s" % (rc, len(ans), len(lines), err[-1500:]))
        return [(idx, a, se, em) for (idx, se, em), a in zip(metas, ans)]

    res = [None] * len(cases)
    for part in pmap(work, range(nw)):
        for idx, a, se, em in part:
            if a.get("error"):
                raise BuildError("unitrun op sh: " + a["error"])
            res[idx] = (a, se, em)
    return res


def unhex(s):
    return bytes.fromhex(s).decode("latin-1")


# ---------------------------------------------------------------- the oracle (the property sentence)
NAME = r"[A-Za-z_][A-Za-z0-9_]*"
SIMPLE = re.compile(r"\$\{(%s)\}|\$(%s)" % (NAME, NAME))


def py_expand(s, look):
    """$NAME and ${NAME} only; None when the string uses '$' in any other way (the oracle abstains)"""
    rest = SIMPLE.sub("", s)
    if "$" in rest:
        return None
    return SIMPLE.sub(lambda m: look(m.group(1) or m.group(2)), s)


def trim_one(b):
    return b[:-1] if b.endswith("\n") else b


STDIN_KINDS = ["file", "devnull", "socket", "pty", "dir", "closed"]     # the kind of file behind os.Stdin for the call ("pipe": streams)
CRED_NAMES = ["GITHUB_TOKEN", "AWS_SECRET_ACCESS_KEY", "DB_PASSWORD", "API_KEY", "NPM_TOKEN", "SSH_AUTH_SOCK", "HTTP_PROXY",
              "MY_SECRET", "PGPASSWORD", "X_AUTH_TOKEN_2"]      # names carry no meaning for sh - that is the point
CRED_VALS = ["ghp_0123456789abcdefXYZ", "wJalrXUtnFEMI/K7MDENG/bPxRfiCYEXAMPLEKEY", "hunter2!", "s3cr3t p4ss", "/tmp/ssh-XXXX/agent.123",
             "http://user:pw@proxy:3128", "abcd", "=tok=en=", "$NOT_EXPANDED_AGAIN"]


def stdin_expected(c, a):
    """what a reader of the descriptor behind os.Stdin gets"""
    kind = a.get("stdin_kind") or "file"
    if c.get("streams") == "pipe" or kind in ("file", "socket", "pty"):
        return c["stdin"]
    return ""           # /dev/null, a directory (EISDIR), a closed file (EBADF)


def wrote(d):
    """(stdout, stderr) the child reports having written: everything written to the stream, late writes of a descendant included"""
    if d.get("plan"):
        return plan_streams(d["plan"])
    return unhex(d["out"]) + unhex(d.get("late_out") or ""), unhex(d["err"]) + unhex(d.get("late_err") or "")


def intended(c):
    if c.get("plan"):
        return plan_streams(c["plan"])
    return c["out"] + c.get("late_out", ""), c["err"] + c.get("late_err", "")


def oracle(w, c, a, setenv, envm):
    """returns a list of violated clauses"""
    bad = []
    if a.get("hung"):
        # package sh must not wait for more of the caller's stdin than the command reads
        return ["the call did not return %s (os.Stdin is a %s; the command had %s)" % (
                "within 40 s" if a["hung"] == 2 else "until, after 20 s, the far side of the caller's stdin was closed",
                "pipe" if c.get("streams") == "pipe" else (a.get("stdin_kind") or "file"),
                "finished" if a.get("dump") else "not reported")]
    d = a["dump"]
    fn = c["fn"]
    parent = dict(w.base_env)
    parent.update(setenv)
    m = dict(envm) if envm is not None else {}
    started = d is not None
    exited = started and d["sig"] == 0
    k = d["exit"] if exited else None
    out, errp = wrote(d) if started else ("", "")
    # Exec given a writer whose Write fails: the stream could not be delivered
    nso, nse = (wfail_n(c["so"]), wfail_n(c["se"])) if fn == "Exec" else (None, None)
    copy_failed = (nso is not None and len(out) > nso) or (nse is not None and len(errp) > nse)
    # 0. whatever happened: a non-nil error never carries status 0 (mage would exit 0 on a failure), and the status is
    #    the exit code the command returned or, when it returned none (not started, killed by a signal) or 0, it is 1
    if not a["err_nil"]:
        if a["mg_status"] == 0 or a["sh_status"] == 0:
            bad.append("non-nil error (%s) with status mg=%d sh=%d; the command %s%s" % (a["err_text"][:60], a["mg_status"], a["sh_status"],
                       "exited %d" % k if exited else ("was killed by signal %d" % d["sig"] if started else "could not be started"),
                       ", a writer given to Exec failed" if copy_failed else ""))
        elif (not exited or k == 0) and (a["mg_status"] != 1 or a["sh_status"] != 1):
            bad.append("the command %s, so it returned no exit code to report, but the error's status is mg=%d sh=%d (want 1)" % (
                       ("exited 0 and a writer given to Exec failed" if exited else ("was killed by signal %d" % d["sig"] if started else "could not be started")),
                       a["mg_status"], a["sh_status"]))
    # 1. nil iff exit 0 (when a writer failed the sentence does not say; 0. applies)
    if copy_failed and exited and k == 0:
        pass
    elif a["err_nil"] != (exited and k == 0):
        bad.append("error is %s but the command %s" % ("nil" if a["err_nil"] else "non-nil: " + a["err_text"][:80],
                                                        "exited %d" % k if exited else ("was killed by signal %d" % d["sig"] if started else "could not be started")))
    # 2. status k
    if exited and not (copy_failed and k == 0):
        if a["mg_status"] != k or a["sh_status"] != k:
            bad.append("command exited %d, mg.ExitStatus=%d sh.ExitStatus=%d" % (k, a["mg_status"], a["sh_status"]))
        if a["ran"] is not None and a["ran"] is not True:
            bad.append("command exited %d but Exec's first result is false" % k)
    # 3. not started
    if not started:
        if a["ran"] is not None and a["ran"] is not False:
            bad.append("command %r%s could not be started (no child process reported) but Exec's first result is true" % (c["cmd"], " [%s]" % c["shape"] if c.get("shape") else ""))
        if a["mg_status"] != 1 or a["sh_status"] != 1:
            bad.append("command could not be started, status mg=%d sh=%d (want 1)" % (a["mg_status"], a["sh_status"]))
    # expansion: env map first, then the inherited environment
    look = lambda name: m[name] if name in m else parent.get(name, "")
    ecmd = py_expand(w.subst(c["cmd"]), look)
    if ecmd is not None:
        toolong = BIGARG in c["args"]
        should = (ecmd in w.startable) and not toolong
        if should != started:
            bad.append("command %r expands to %r which %s be started%s, but it was%s started" % (c["cmd"], ecmd, "can" if should else "cannot",
                       " (an argument of %d bytes exceeds the kernel's limit)" % BIGLEN if toolong else "", "" if started else " not"))
    if started:
        argv = [unhex(x) for x in d["argv"]]
        if ecmd is not None and argv[:1] != [ecmd]:
            bad.append("argv[0] = %r, expected %r" % (argv[:1], ecmd))
        if len(argv) - 1 != len(c["args"]):
            bad.append("child received %d arguments, %d were given" % (len(argv) - 1, len(c["args"])))
        else:
            for i, s in enumerate(c["args"]):
                e = py_expand(s, look)
                if e is not None and argv[i + 1] != e:
                    bad.append("argument %d %r reached the child as %r, expected %r (map overrides inherited)" % (i, s, argv[i + 1], e))
        # the child's environment: inherited, overridden by the map
        want = dict(parent)
        want.update(m)
        got = {}
        for x in d["env"]:
            kv = unhex(x)
            kk, _, vv = kv.partition("=")
            got[kk] = vv
        if got != want:
            diff = {kk: (got.get(kk), want.get(kk)) for kk in set(got) | set(want) if got.get(kk) != want.get(kk)}
            bad.append("child environment differs (got, expected): %r" % diff)
        # stdin is the caller's
        if d["stdin_sha"] != hashlib.sha256(B(stdin_expected(c, a))).hexdigest() and "member_of_group" not in c:
            bad.append("the child did not read the caller's stdin (os.Stdin is a %s: %d bytes read, %d to be read)" % (
                       "pipe" if c.get("streams") == "pipe" else (a.get("stdin_kind") or "file"), d["stdin_len"], len(stdin_expected(c, a))))
    # Output: exactly one trailing newline removed
    text = unhex(a["text"])
    if fn in ("Output", "OutputWith"):
        if text != trim_one(out):
            bad.append("%s returned %r for stdout %r (expected %r)" % (fn, text[-40:], out[-40:], trim_one(out)[-40:]))
    # routing
    os_out, os_err = unhex(a["os_stdout"]), unhex(a["os_stderr"])
    bo, be = unhex(a["buf_out"]), unhex(a["buf_err"])
    if fn != "Exec":
        verbose = parent.get("MAGEFILE_VERBOSE", "") in TRUE_SET
        shown = fn in ("RunV", "RunWithV") or (fn in ("Run", "RunWith") and verbose)
        if os_out != (out if shown else ""):
            bad.append("%s verbose=%r: caller's stdout got %r, child wrote %r (shown=%s)" % (fn, parent.get("MAGEFILE_VERBOSE"), os_out[-40:], out[-40:], shown))
        if os_err != errp:
            bad.append("%s: caller's stderr got %r, child wrote %r" % (fn, os_err[-40:], errp[-40:]))
    else:
        if (bo, os_out) != (out if c["so"] == "buf" else (out[:nso] if nso is not None else ""), out if c["so"] == "os" else ""):
            bad.append("Exec stdout writer %s: buffer %r os.Stdout %r, child wrote %r" % (c["so"], bo[-40:], os_out[-40:], out[-40:]))
        if (be, os_err) != (errp if c["se"] == "buf" else (errp[:nse] if nse is not None else ""), errp if c["se"] == "os" else ""):
            bad.append("Exec stderr writer %s: buffer %r os.Stderr %r, child wrote %r" % (c["se"], be[-40:], os_err[-40:], errp[-40:]))
    return bad


def oracle_raw(c, a):
    bad = []
    if c["kind"] != "child":
        return bad
    if a["is_exit_error"] and a["exited"]:
        if not a["sh_cmdran"] or a["sh_status"] != c["exit"]:
            bad.append("raw os/exec error of a command that exited %d: CmdRan=%s ExitStatus=%d" % (c["exit"], a["sh_cmdran"], a["sh_status"]))
    elif a["err_nil"]:
        if not a["sh_cmdran"] or a["sh_status"] != 0:
            bad.append("nil error: CmdRan=%s ExitStatus=%d" % (a["sh_cmdran"], a["sh_status"]))
    elif not a["is_exit_error"]:
        if a["sh_cmdran"] or a["sh_status"] != 1:
            bad.append("raw error of a command that could not be started: CmdRan=%s ExitStatus=%d" % (a["sh_cmdran"], a["sh_status"]))
    return bad


# ---------------------------------------------------------------- Coq terms
WSO = {"nil": "WNil", "buf": "WBuf", "os": "WOsStdout"}
WSE = {"nil": "WNil", "buf": "WBuf", "os": "WOsStderr"}


def cs(s):
    if len(s) > 1500:        # one long literal is a deeply nested term (coqc: stack overflow): spell it in pieces
        return '(String.concat "" [%s])' % "; ".join(cs(s[i:i + 1500]) for i in range(0, len(s), 1500))
    b = B(s)
    if all(32 <= c < 127 for c in b):
        return coq_str(b)
    return '(hx "%s")' % b.hex()


def pairs(l):
    return coq_list(["(%s, %s)" % (cs(k), cs(v)) for k, v in l])


def err_term(a):
    if a["err_nil"]:
        return "ENil"
    if a["has_status"]:
        return "(EFatal %s)" % coq_Z(a["mg_status"])
    return "EOther"


def child_term(exit_, sig, out, err):
    if sig:
        return "(Signaled %s %s %s)" % (coq_Z(sig), cs(out), cs(err))
    return "(Started %s %s %s)" % (coq_Z(exit_), cs(out), cs(err))


LONG_DIRECTIVES = ("C15X_OUT=", "C15X_ERR=", "C15X_DUMP=")     # left out of the Coq case on both sides (size); the oracle compares them


def uses_odd(c):
    return "@ODD@" in c["cmd"] or any("@ODD@" in kv[1] for kv in c["inherit"] + (c["env"] or []))


def case_term(w, c, a, envm):
    d = a["dump"]
    penv = []
    for x in a["environ"]:
        if unhex(x).startswith(LONG_DIRECTIVES):
            continue
        k, _, v = unhex(x).partition("=")
        penv.append((k, v))
    fn = c["fn"]
    if fn == "Exec" and (wfail_n(c["so"]) is not None or wfail_n(c["se"]) is not None):
        wt = lambda s, tab: "(XFail %d)" % wfail_n(s) if wfail_n(s) is not None else "(XW %s)" % tab[s]
        ent = "(XExec %s %s)" % (wt(c["so"], WSO), wt(c["se"], WSE))          # Model/Sh.exec_x
    else:
        ent = "(XE (FExec %s %s))" % (WSO[c["so"]], WSE[c["se"]]) if fn == "Exec" else "(XE F%s)" % fn
    if d is not None:
        child = child_term(d["exit"], d["sig"], *wrote(d))
        started = "(Some (%s, %s))" % (coq_list([cs(unhex(x)) for x in d["argv"]]), coq_list([cs(unhex(x)) for x in d["env"] if not unhex(x).startswith(LONG_DIRECTIVES)]))
        stdin_ok = d["stdin_sha"] == hashlib.sha256(B(stdin_expected(c, a))).hexdigest() or "member_of_group" in c
        if "stdin_ok_override" in c:
            stdin_ok = c["stdin_ok_override"]
    else:
        child = child_term(c["exit"], c["sig"], *intended(c))      # what it would have done
        started = "None"
        stdin_ok = True
    obs = ("{| o_ran := %s; o_err := %s; o_mg := %s; o_sh := %s; o_cmdran := %s; o_text := %s; o_started := %s; o_stdin_ok := %s; "
           "o_os_stdout := %s; o_os_stderr := %s; o_buf_out := %s; o_buf_err := %s |}") % (
        "None" if a["ran"] is None else "(Some %s)" % coq_bool(a["ran"]), err_term(a), coq_Z(a["mg_status"]), coq_Z(a["sh_status"]),
        coq_bool(a["sh_cmdran"]), cs(unhex(a["text"])), started, coq_bool(stdin_ok),
        cs(unhex(a["os_stdout"])), cs(unhex(a["os_stderr"])), cs(unhex(a["buf_out"])), cs(unhex(a["buf_err"])))
    return "{| c_penv := %s; c_envm := %s; c_fn := %s; c_cmd := %s; c_args := %s; c_startable := %s; c_child := %s; c_obs := %s |}" % (
        pairs(penv), pairs(envm or []), ent, cs(w.subst(c["cmd"])), coq_list(["(big %d)" % BIGLEN if x == BIGARG else cs(x) for x in c["args"]]), coq_list([cs(x) for x in ([w.bin] + (w.odd_ok if uses_odd(c) else []))]), child, obs)


def raw_term(c, a):
    if a["err_nil"]:
        shape = "ENil"
    elif a["is_exit_error"]:
        shape = "(EExitError (WExited %s))" % coq_Z(a["exit_code"]) if a["exited"] else "(EExitError (WSignaled 0))"
    elif a["has_status"]:
        shape = "(EFatal %s)" % coq_Z(c["code"])
    else:
        shape = "EOther"
    child = "None"
    if c["kind"] == "child":
        if a["is_exit_error"] or a["err_nil"]:
            child = "(Some %s)" % child_term(c["exit"], c["sig"], "", "")
        else:
            child = "(Some NotStarted)"
    return "{| r_child := %s; r_shape := %s; r_cmdran := %s; r_sh := %s; r_mg := %s |}" % (
        child, shape, coq_bool(a["sh_cmdran"]), coq_Z(a["sh_status"]), coq_Z(a["mg_status"]))


# ---------------------------------------------------------------- the check
def run(ctx):
    ctx.prove(["Props/C15.vo", "Run/eval_C15.vo"])
    import extractlib; extractlib.fn_tie(ctx, "C15")   # sh.ExitStatus, sh.CmdRan, mg.ExitStatus re-translated from the tree and proved equal to Model/Sh.v's (DESIGN 3.5)
    ctx.trusted_base += ["harness/unitrun op sh (in-process calls of package sh with os.Stdin/Stdout/Stderr replaced by files; reports os.Environ())",
                         "harness/helperchild (reports its own argv, environment, stdin digest, exit code / signal and payloads)",
                         "checks/c15.py (generator, Coq printer, oracle)",
                         "os.Expand, os/exec (environment de-duplication: last entry wins; error of Cmd.Run per child outcome), "
                         "syscall.WaitStatus.ExitStatus, strconv.ParseBool behave as Model/Sh.v and Base/Expand.v say (modelled, validated by this run)"]
    w = World(ctx)
    signals = probe_signals(w)
    rng = ctx.rng
    cases = []
    if ctx.replay and ctx.replay.get("case"):
        cases.append(ctx.replay["case"])
    # every exit code, cycling through the entry points
    reps = 1 if ctx.quick else 7
    for rep in range(reps):
        for k in range(256):
            cases.append(gen_case(rng, exit_code=k, fn=FNS[(k + rep) % 7], good_cmd=True))
    # every payload through both Output functions and one V / plain variant
    for p in PAYLOADS:
        for fn in ("Output", "OutputWith", "RunV", "Run"):
            c = gen_case(rng, fn=fn, good_cmd=True)
            c["out"], c["sig"] = p, 0
            cases.append(c)
    # the "could not be started" family, every shape through EVERY entry point, literally and (Exec) through a variable the
    # env map sets over a startable inherited value; expectation: error non-nil, ran=false, statuses 1, no output
    shapes_used = {k: v for k, v in NOSTART.items() if k != "text-file-busy" or w.txtbsy_effective}
    shapes_used["argument-too-long"] = "@BIN@"
    for si, (shape, cmdstr) in enumerate(sorted(shapes_used.items())):
        for j, fn in enumerate(["Exec", "Exec"] + FNS[:6]):
            c = gen_case(rng, fn=fn, good_cmd=True)
            c["sig"], c["via_map"] = 0, False
            if fn == "Exec":
                c["so"], c["se"] = [("buf", "buf"), ("os", "nil")][j]
            c["inherit"] = [kv for kv in c["inherit"] if kv[0] not in ("C15_BIN", "C15_DIR", "C15_NAME")]
            if j == 1:
                c["cmd"] = "${C15_BIN}"
                c["env"] = [kv for kv in (c["env"] or []) if kv[0] != "C15_BIN"] + [["C15_BIN", cmdstr]]
                c["inherit"].append(["C15_BIN", "@BIN@" if shape != "argument-too-long" else "/nonexistent/c15"])   # the map overrides the inherited value
            else:
                c["cmd"] = cmdstr
                c["env"] = [kv for kv in (c["env"] or []) if kv[0] not in ("C15_BIN", "C15_DIR")] if c["env"] is not None else None
            if shape == "argument-too-long":
                c["args"] = c["args"][:2] + [BIGARG]
            c["shape"] = shape
            cases.append(c)
    # a child that exits k while a detached descendant keeps the inherited stdout (resp. stderr) open for 1.2 s and then
    # writes a late line: the command exited k, whatever its descendants do (few: each costs 1.2 s of waiting)
    for k in (0, 3):
        for which, fns in (("out", [(f, "buf", "buf") for f in FNS]),
                           ("err", [("Exec", "buf", "buf"), ("Exec", "nil", "buf"), ("Output", "nil", "nil"), ("RunV", "nil", "nil")])):
            for fn, so, se in fns:
                c = gen_case(rng, exit_code=k, fn=fn, good_cmd=True)
                c["sig"], c["so"], c["se"], c["bg"] = 0, so, se, 1200
                c["streams"] = "file"
                c["late_out"] = "late line\n" if which == "out" else ""
                c["late_err"] = "late err\n" if which == "err" else ""
                c["out"] = rng.choice(["first\n", "", "no newline"])
                cases.append(c)
    # a child that kills itself with a signal (after writing its payloads): every usable signal through Exec and four wrappers
    for sg in signals:
        for fn, so, se in (("Exec", "buf", "buf"), ("Exec", "nil", "os"), ("Run", "nil", "nil"), ("Output", "nil", "nil"),
                           ("RunWithV", "nil", "nil"), ("OutputWith", "nil", "nil")):
            c = gen_case(rng, fn=fn, good_cmd=True)
            c["sig"], c["so"], c["se"] = sg, so, se
            cases.append(c)
    # Exec given writers that fail (at once / after n bytes / never reached) while the command succeeds or fails
    for k in (0, 0, 3, 255):
        for so, se in (("fail:0", "buf"), ("buf", "fail:0"), ("fail:2", "nil"), ("nil", "fail:5"), ("fail:0", "fail:0"),
                       ("fail:4000", "buf"), ("fail:1", "os"), ("os", "fail:1")):
            c = gen_case(rng, exit_code=k, fn="Exec", good_cmd=True)
            c["sig"], c["so"], c["se"] = 0, so, se
            c["out"] = rng.choice(["some output\n", "x", "", "a\n\nb\n", "\x00\xff\x01bin\x00\n"])
            c["err"] = rng.choice(["warning: something\n", "", "e"])
            cases.append(c)
    # output volume and chunking: 0 B .. 1 MiB in one write / many small writes / interleaved / followed by further
    # writes, every exit-code class, entry points in rotation (thorough: every plan through every entry point)
    plans = volume_plans()
    for pi, plan in enumerate(plans):
        for fi in (range(7) if not ctx.quick else ((pi % 7), (pi + 3) % 7)):
            c = gen_case(rng, exit_code=[0, 3, 255, 0, 1][(pi + fi) % 5], fn=FNS[fi], good_cmd=True)
            c["sig"], c["plan"], c["args"] = 0, plan, c["args"][:2]
            if c["fn"] == "Exec":
                c["so"], c["se"] = [("buf", "buf"), ("os", "os"), ("buf", "nil")][pi % 3]
            if ("1048576" in plan or "262144" in plan):
                c["streams"] = "file" if pi % 2 else "pipe"
            cases.append(c)
    # startable commands whose words contain blanks, tabs, quotes, `;`, `$(..)` ...: exactly that file must run;
    # literally and through a variable (inherited or in the map), entry points in rotation
    for oi, rel in enumerate(ODD_OK):
        for j in (0, 1):
            fn = FNS[(oi + 3 * j) % 7]
            c = gen_case(rng, fn=fn, good_cmd=True)
            c["sig"], c["via_map"] = 0, False
            c["inherit"] = [kv for kv in c["inherit"] if kv[0] not in ("C15_BIN", "C15_DIR", "C15_NAME")]
            c["env"] = [kv for kv in c["env"] if kv[0] not in ("C15_BIN", "C15_DIR")] if c["env"] is not None else None
            if j == 0:
                c["cmd"] = "@ODD@/ok/" + rel
            else:
                c["cmd"] = rng.choice(["$C15_BIN", "${C15_BIN}"])
                if fn in WITH_ENV and c["env"] is not None and oi % 2:
                    c["env"].append(["C15_BIN", "@ODD@/ok/" + rel])
                    c["inherit"].append(["C15_BIN", "/nonexistent/c15"])
                else:
                    c["inherit"].append(["C15_BIN", "@ODD@/ok/" + rel])
            c["odd"] = rel
            cases.append(c)
    # the KIND of file behind os.Stdin: every kind through every entry point
    for kind in STDIN_KINDS:
        for fn in FNS:
            c = gen_case(rng, fn=fn, good_cmd=True)
            c["sig"], c["streams"], c["stdin_kind"] = 0, "file", kind
            c["stdin"] = "typed on a terminal\n" if kind == "pty" else rng.choice(["stdin data\n", "\x00\x01\xff", "x" * 5000])
            cases.append(c)
    # environment NAMES: credential / configuration looking variables, inherited, in the map, or both, their values in the
    # command line through $VAR; every exit-code class through every entry point
    for ei, k in enumerate((0, 1, 2, 3, 94, 126, 255)):
        for fi, fn in enumerate(FNS):
            c = gen_case(rng, exit_code=k, fn=fn, good_cmd=True)
            c["sig"] = 0
            nm, val = CRED_NAMES[(ei * 7 + fi) % len(CRED_NAMES)], CRED_VALS[(ei + 2 * fi) % len(CRED_VALS)]
            uses = fn in WITH_ENV
            c["env"] = [kv for kv in (c["env"] or []) if kv[0] != nm] if (c["env"] is not None or uses) else None
            mode = (ei + fi) % 3 if uses else 0
            if mode == 0:
                c["inherit"].append([nm, val])
            elif mode == 1:
                c["env"].append([nm, val])
            else:
                c["inherit"].append([nm, "inherited-" + val]); c["env"].append([nm, val])
            c["args"] = c["args"][:1] + ["--token=$%s" % nm, "${%s}" % nm]
            cases.append(c)
    # CONCURRENT calls: pairs / triples of overlapping calls (the children stay in flight until released, in a scripted order)
    for fx in GROUP_FIXED:
        cases.append(gen_group(rng, fx))
    for _ in range(16 if ctx.quick else 400):
        cases.append(gen_group(rng))
    # payload SHAPES: very long single lines, "\r"-only output, NUL bytes
    shape_cases = []
    for pi, plan in enumerate(shape_plans()):
        for fi in (range(7) if not ctx.quick else ((pi % 7), (pi + 4) % 7)):
            c = gen_case(rng, exit_code=[0, 3, 0, 255, 1][(pi + fi) % 5], fn=FNS[fi], good_cmd=True)
            c["sig"], c["plan"], c["args"] = 0, plan, c["args"][:1]
            if c["fn"] == "Exec":
                c["so"], c["se"] = [("buf", "buf"), ("os", "os"), ("nil", "buf")][pi % 3]
            c["streams"] = "file" if pi % 2 else "pipe"
            c.pop("stdin_kind", None)
            shape_cases.append(c)
    cases += shape_cases
    # stdin SHARING: k commands in sequence, one stdin (file / pipe with everything written up front / pty typed ahead)
    seq_cases = [gen_seq(rng, kind, n) for kind in ("file", "pipe", "pty") for n in (2, 3)] + [gen_seq(rng) for _ in range(6 if ctx.quick else 200)]
    cases += seq_cases
    nrand = 150 if ctx.quick else 9000
    for _ in range(nrand):
        cases.append(gen_case(rng, signals=signals))
    # KNOB DISCOVERY: every environment variable the tree under test reads that no model knows (none on the unchanged tree):
    # a representative slice of all call families again with the knob set - names carry no meaning, nothing may change
    import depslib
    knobs = depslib.discover_knobs()[:8]
    n_knob_cases = 0
    if knobs:
        os.makedirs(os.path.join(ctx.tmp, "knob"), exist_ok=True)
        ordinary = [c for c in cases if not (c.get("group") or c.get("seq") or c.get("plan") or c.get("bg"))]
        slice_ = ordinary[::max(1, len(ordinary) // 40)][:40]
        slice_ += [c for c in cases if c.get("shape")][::8][:12]
        small = lambda c: len(plan_streams(c["plan"])[0]) + len(plan_streams(c["plan"])[1]) <= 300000
        slice_ += [c for c in shape_cases if small(c)]                                     # every payload shape
        slice_ += [c for c in cases if c.get("plan") and c not in shape_cases and small(c)][::5][:10]
        slice_ += [c for c in cases if c.get("group")][:5] + seq_cases[:8]
        slice_ += [c for c in cases if c.get("stdin_kind") in ("socket", "pty", "devnull")][:6]
        for kb in knobs:
            for val in ("1", "true", "@KNOBFILE@", "1s"):
                for c in slice_:
                    c2 = json.loads(json.dumps(c))
                    c2["inherit"] = [kv for kv in c2["inherit"] if kv[0] != kb] + [[kb, val]]
                    c2["knob"] = [kb, val]
                    cases.append(c2)
                    n_knob_cases += 1
    ncall = len(cases)
    cases += gen_raw(rng, ctx.quick, signals)
    ctx.log("built; %d cases" % len(cases))
    results = run_all(w, cases)
    ctx.log("implementation ran")

    items, raw_items, idx_call, idx_raw = [], [], [], []
    seen = set()
    nontriv = 0
    byfn, outcome, verb = {}, {"exit0": 0, "exit_nonzero": 0, "signaled": 0, "not_started": 0}, {"on": 0, "off": 0}
    codes_seen = set()
    shapes = {}
    cov_bg = [0]
    n_args = n_args_decided = n_bad = n_oracle_only = n_groups = n_group_calls = n_seqs = n_seq_calls = 0
    reported = {}

    def report(cl):
        kind = re.sub(r"[0-9]+|'[^']*'|\"[^\"]*\"", "#", cl)[:48]
        if sum(reported.values()) >= MAX_REPORT or reported.get(kind, 0) >= 2:
            return False
        reported[kind] = reported.get(kind, 0) + 1
        return True
    for i, (c, (a, setenv, envm)) in enumerate(zip(cases, results)):
        if c.get("raw"):
            for cl in oracle_raw(c, a):
                n_bad += 1
                if report(cl):
                    ctx.violation({"kind": "oracle", "clause": cl}, case=c)
            raw_items.append(raw_term(c, a))
            idx_raw.append(i)
            continue
        if c.get("seq"):
            # consecutive commands sharing the caller's stdin: each gets its own portion, the rest stays
            n_seqs += 1
            started = [ma["dump"] is not None for ma in a["group"]]
            want, rest = seq_portions(c, started)
            label = "%d commands in sequence, os.Stdin is a %s holding %r" % (len(c["calls"]), a.get("stdin_kind") or c["stdin_kind"], c["stdin"][:60])
            bads = []
            if a.get("hung"):
                n_bad += 1
                cl = "%s: a call did not return by itself (the far side of the caller's stdin had to be closed after 20 s)" % label
                if report(cl):
                    ctx.violation({"kind": "oracle", "clause": cl}, case=c)
                continue
            for mi, (ma, wp) in enumerate(zip(a["group"], want)):
                if ma.get("error"):
                    raise BuildError("unitrun op sh (seq): " + ma["error"])
                got = unhex(ma["dump"].get("stdin_hex") or "") if ma["dump"] is not None else None
                if got != wp:
                    bads.append("%s: command %d (%s, reads %s) read %r from stdin, its portion is %r" % (label, mi, c["calls"][mi]["fn"], c["calls"][mi]["read"], got, wp))
            if not bads and unhex(a.get("stdin_rest") or "") != rest:
                bads.append("%s: after the commands the caller's stdin still holds %r, expected %r" % (label, unhex(a.get("stdin_rest") or "")[:80], rest[:80]))
            if sorted(unhex(x) for x in a["environ"]) != sorted(unhex(x) for x in a.get("environ_after") or []):
                bads.append("%s: the process environment changed" % label)
            for cl in bads[:1]:
                n_bad += 1
                if report(cl):
                    ctx.violation({"kind": "oracle", "clause": cl}, case=c)
            for mi, ((mc, menvm), ma) in enumerate(zip(envm, a["group"])):
                ma = dict(ma, environ=a["environ"], os_stdout=a["os_stdout"], os_stderr=a["os_stderr"])
                for cl in oracle(w, mc, ma, setenv, menvm)[:1]:
                    n_bad += 1
                    cl = "%s: command %d (%s): %s" % (label, mi, mc["fn"], cl)
                    if report(cl):
                        ctx.violation({"kind": "oracle", "clause": cl}, case=c)
                mc = dict(mc, stdin_ok_override=(not bads))
                items.append(case_term(w, mc, ma, menvm))
                idx_call.append(i)
                n_seq_calls += 1
            continue
        if c.get("group"):
            # overlapping calls: every member is judged exactly like that call alone, against the process environment
            # BEFORE the group; and the process environment afterwards is the one before
            n_groups += 1
            before, after = sorted(unhex(x) for x in a["environ"]), sorted(unhex(x) for x in a.get("environ_after") or [])
            if before != after:
                n_bad += 1
                cl = "the process environment after the overlapping calls returned differs from before: %r" % sorted(set(before) ^ set(after))
                if report(cl):
                    ctx.violation({"kind": "oracle", "clause": cl, "order": c["order"]}, case=c)
            for mi, ((mc, menvm), ma) in enumerate(zip(envm, a["group"])):
                if ma.get("error"):
                    raise BuildError("unitrun op sh (group): " + ma["error"])
                ma = dict(ma, environ=a["environ"], os_stdout=a["os_stdout"], os_stderr=a["os_stderr"])
                for cl in oracle(w, mc, ma, setenv, menvm)[:1]:
                    n_bad += 1
                    cl = "overlapping calls %s, call %d (%s, env map %r): %s" % (" ".join(c["order"]), mi, mc["fn"], mc["env"], cl)
                    if report(cl):
                        ctx.violation({"kind": "oracle", "clause": cl}, case=c)
                items.append(case_term(w, mc, ma, menvm))
                idx_call.append(i)
                n_group_calls += 1
            continue
        for cl in oracle(w, c, a, setenv, envm)[:1]:
            n_bad += 1
            if report(cl):
                ctx.violation({"kind": "oracle", "clause": cl}, case=c)
        if c.get("plan") and sum(len(x) for x in plan_streams(c["plan"])) > COQ_PLAN_LIMIT:
            n_oracle_only += 1          # too large for a Coq case file: judged by the oracle alone
        else:
            items.append(case_term(w, c, a, envm))
            idx_call.append(i)
        d = a["dump"]
        byfn[c["fn"]] = byfn.get(c["fn"], 0) + 1
        if c.get("bg"):
            cov_bg[0] += 1
        if c.get("shape"):
            shapes[c["shape"]] = shapes.get(c["shape"], 0) + (1 if d is None else 0)
        if d is None:
            outcome["not_started"] += 1
        elif d["sig"]:
            outcome["signaled"] += 1
        elif d["exit"] == 0:
            outcome["exit0"] += 1
        else:
            outcome["exit_nonzero"] += 1
        if d is not None and not d["sig"]:
            codes_seen.add(d["exit"])
        verb["on" if (c["verbose"] in TRUE_SET) else "off"] += 1
        for s in c["args"]:
            n_args += 1
            if py_expand(s, lambda n: "") is not None:
                n_args_decided += 1
        h = case_hash(c)
        if h not in seen:
            seen.add(h)
            if c["exit"] != 0 or c["env"] or any("$" in x for x in c["args"]) or c["out"]:
                nontriv += 1

    header = "From Mage Require Import Base.Strs Base.Expand Model.Sh Run.eval_C15.\n"
    per = max(20, (len(items) + NCPU - 1) // NCPU)
    # deal the cases out to the shards like cards: the expensive ones (200 kB arguments) come in blocks
    nsh = max(1, (len(items) + per - 1) // per)
    perm = [i for r in range(nsh) for i in range(r, len(items), nsh)]
    items = [items[i] for i in perm]
    idx_call = [idx_call[i] for i in perm]
    mism = ctx.coq_eval_shards("cases_C15", header, items, per_shard=per)
    ctx.log("model evaluated on calls")
    header_raw = header + "Definition mismatches := mismatches_raw.\n"
    mism_raw = ctx.coq_eval_shards("cases_C15raw", header_raw, raw_items, per_shard=max(50, (len(raw_items) + NCPU - 1) // NCPU))
    if (mism or mism_raw) and not n_bad:
        for idx, body in mism[:3]:
            i = idx_call[idx]
            a = dict(results[i][0])
            a.pop("environ", None)
            ctx.violation({"kind": "model-vs-implementation", "correspondence": "Run/eval_C15.mismatches", "model_says": body[:600],
                           "implementation": a}, case=cases[i], found_input=False)
        for idx, body in mism_raw[:3]:
            i = idx_raw[idx]
            ctx.violation({"kind": "model-vs-implementation", "correspondence": "Run/eval_C15.mismatches_raw", "model_says": body[:300],
                           "implementation": {k: results[i][0][k] for k in ("sh_cmdran", "sh_status", "mg_status", "is_exit_error", "exited", "exit_code", "has_status")}},
                          case=cases[i], found_input=False)
    cov = ctx.coverage
    cov["evaluations"] = len(cases)
    cov["distinct_nontrivial"] = nontriv
    cov["rule"] = ("sh calls against the helper child: every exit code 0..255 (x%d entry-point rotations), every payload of a fixed edge-case set through "
                   "Output/OutputWith/RunV/Run, and random calls (entry point, inherited variables, env map overlapping them both ways, $VAR/${VAR}/special/"
                   "malformed references in command and arguments, MAGEFILE_VERBOSE spellings, signals, missing/non-executable/directory commands, "
                   "Exec writers nil/buffer/os); plus CmdRan/ExitStatus on raw error values. distinct by hash of the case; non-trivial = non-zero exit, "
                   "non-empty env map, an argument with '$', or a non-empty stdout payload") % reps
    cov["calls"] = ncall
    cov["raw_error_cases"] = len(raw_items)
    cov["by_function"] = byfn
    cov["outcomes"] = outcome
    cov["calls_with_late_writing_descendant"] = cov_bg[0]
    cov["calls_with_write_plan"] = sum(1 for c in cases if c.get("plan"))
    cov["calls_judged_by_oracle_only_too_large_for_coq"] = n_oracle_only
    cov["calls_with_streams_reassigned_to_pipes"] = sum(1 for c in cases if c.get("streams") == "pipe")
    kinds = {}
    for c, r in zip(cases, results):
        if not c.get("raw") and not c.get("group") and not c.get("seq") and not c.get("seq"):
            kk = "pipe" if c.get("streams") == "pipe" else (r[0].get("stdin_kind") or "file")
            kinds[kk] = kinds.get(kk, 0) + 1
    cov["stdin_kinds"] = kinds
    cov["calls_with_credential_like_names"] = sum(1 for c in cases if not c.get("raw") and not c.get("group") and not c.get("seq") and
                                                  any(kv[0] in CRED_NAMES for kv in (c["inherit"] + (c["env"] or []))))
    cov["calls_with_odd_startable_command_words"] = sum(1 for c, r in zip(cases, results) if c.get("odd") and r[0]["dump"] is not None)
    cov["knobs_discovered"] = knobs
    cov["calls_repeated_under_knobs"] = n_knob_cases
    cov["sequences_sharing_stdin"] = n_seqs
    cov["calls_in_sequences"] = n_seq_calls
    cov["groups_of_overlapping_calls"] = n_groups
    cov["calls_in_groups"] = n_group_calls
    cov["signals_usable_here"] = signals
    cov["calls_exec_with_failing_writer"] = sum(1 for c in cases if not c.get("raw") and not c.get("group") and not c.get("seq") and c["fn"] == "Exec" and (wfail_n(c["so"]) is not None or wfail_n(c["se"]) is not None))
    cov["not_startable_shapes_observed_not_started"] = shapes
    cov["text_file_busy_effective_here"] = w.txtbsy_effective
    cov["verbose"] = verb
    cov["exit_codes_observed"] = len(codes_seen)
    cov["exhaustive"] = "exit codes 0..255 (all observed: %s)" % (len(codes_seen) == 256)
    cov["arguments"] = {"total": n_args, "decided_by_oracle_expander": n_args_decided}
    cov["oracle_failures"] = n_bad
    cov["model_mismatches"] = len(mism) + len(mism_raw)
    cov["traces_validated_against_impl"] = len(cases) - len(mism) - len(mism_raw)
    for c, (a, _, _) in [x for x in zip(cases, results) if not (x[0].get("group") or x[0].get("seq") or x[0].get("raw"))][:3]:
        ctx.sample({"fn": c["fn"], "cmd": c["cmd"], "args": c["args"], "env": c["env"], "inherit": c["inherit"], "exit": c["exit"],
                    "answer": {k: a[k] for k in ("ran", "err_nil", "mg_status", "sh_status", "err_text")}})
