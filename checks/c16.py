"""C16 - sh calls do not modify their inputs and are repeatable.

Theorems: coq/Props/C16.v over Model/Slices.v (sh/cmd.go in a Go slice memory).
Correspondence: generated HISTORIES (initial environment, arrays of chosen length, operations
setenv (MAGEFILE_VERBOSE included) | mk = creation of a RunCmd/OutCmd closure over a slice of chosen
offset/len/cap, at any point | closure call | direct Run/RunV/RunWith/RunWithV/Output/OutputWith/Exec)
are executed in-process against the real sh package (harness/unitrun op "shslice", one process per
history; child harness/argvchild reports the argv it received, prints it, and fails/keeps quiet when
an argument --exit=N / --quiet scripts it).  Observed per call: argv, text handed back, bytes that
reached os.Stdout (fresh file per call), exit status of the error, every caller-visible array in
full, the env map.  The Coq model is evaluated on the same history and must predict all of it.
Concurrent part: 2-6 goroutines call one closure (or sh.Output/sh.Run directly) at once; the gate that
holds the children opens only when ALL of them are alive together (overlap is an observable); the
model is run under a random interleaving; in the thorough tier the harness is also built with -race.
Oracle (independent of the model): every call equals the reference of THAT CALL ALONE - argv =
[expand(x, env at call time) for x in cmd + baked + extra], text/os.Stdout/status = what the child
does with that argv routed as sh.Run / sh.Output route it under the environment of that call -
and arrays and env map before == after.
The COMMAND WORD is a history dimension: literal, $VAR for the directory / the program name / the whole
path, or a bare name found through PATH; PATH, those variables and the programs themselves (removed,
restored, chmod -x/+x: harness op "fs", which also bumps VERIF_FS_EPOCH in the environment) change
between calls; the child prints its own location.  Which program a word names at a moment is the
operating system's answer: the harness asks exec.LookPath right before every call and feeds the answers
to the model (parameter functions of the environment at the call and the argv); the oracle uses its own
lookup over its own record of the file-system operations."""
import copy, json, os, re, shutil
from vlib import *
import depslib

VARS = ["V", "W", "X", "Y"]
UNSET = "Z"                      # never set
VALUES = ["one", "two", "", "a b", "$W", "x-y", "3", "${V}", "val"]
CMDS_ABS = ["@CHILD@", "$CHILD", "${CHILD}", "$CHILDDIR/argvchild", "${CHILDDIR}/argvchild"]
# the command word as a history dimension: a directory, the program name or the whole path in a variable,
# a bare name resolved through PATH.  @D1@/tool, @D2@/tool, @D2@/other are copies of the child; @D0@ is empty.
# spellings relative to the current directory (the harness process runs in @D1@) and with . / .. components: what they name
# is decided by the kernel at the call, never by a lexical clean-up of the word
CMDS_REL = ["./tool", "././tool", "../d1/../d2/tool", "$TOOLDIR/../d2/tool", "$TOOLDIR/./tool", "../d2/other", "./$TOOL"]
CMDS = CMDS_ABS + ["$TOOLDIR/tool", "${TOOLDIR}/$TOOL", "$WHOLE", "tool", "$TOOL", "$TOOLDIR/tool", "tool", "$TOOL"] + CMDS_REL
CMD_VARS = {"TOOLDIR": ["@D1@", "@D2@", "@D1@", "@D2@", "@D2@", "@D0@"],
            "TOOL": ["tool", "tool", "tool", "other", "nosuch"],
            "WHOLE": ["@D1@/tool", "@D2@/tool", "@D2@/other", "@D1@/tool", "@D0@/tool"],
            "PATH": ["@D1@:@D2@", "@D2@:@D1@", "@D1@", "@D2@", "@D0@:@D2@", "@D1@:@D0@", "@D0@"]}
CMDS_TOOL = ["$TOOLDIR/tool", "${TOOLDIR}/$TOOL", "$WHOLE", "tool", "tool", "$TOOL"] + CMDS_REL
BIG = 500                        # calls with at least this many arguments are compared by count + digest in the Coq case
FS_EPOCH = "VERIF_FS_EPOCH"      # bumped by the harness with every file-system operation
TOOLFILES = ["@D1@/tool", "@D2@/tool"]      # the programs that fs operations remove / restore / chmod
WORDS = ["a", "-n", "x y", "", "lit", "b", "--flag=1", "$V", "${V}", "${V}x", "$V$W", "pre$V", "$V/$W", "$W", "$X",
         "${Y}", "$Z", "$V", "$W.txt", "k=$X"]
# control and blank characters, leading / trailing / embedded; non-ASCII text; a byte-order mark
CTRL_WORDS = ["a\r", "\r", "a\r\n", "a\n", "\n", "\ta", "a\t", " a", "a ", " ", "a\rb", "a\nb", "\ufeffbom", "\u00e9t\u00e9", "\u65e5\u672c", "x\r", "$V\r", "lit\r\n",
              "\x0b", "a\x1b[0m", "\x7f"]
# the well-known variables of a build environment are part of a history's state: each inherited / unset / empty / "/"
ENVVARS = ["HOME", "TMPDIR", "USER", "SHELL", "LANG", "LC_ALL", "TERM", "PWD"]
ENV_WORDS = ["$HOME", "${HOME}/x", "$TMPDIR/f", "$USER", "$PWD", "$LANG", "$HOME/.cache", "$SHELL", "$TERM-$LC_ALL"]
SHELL_WORDS = ["*", "*.txt", "?", "v?", "[a-z]*", "[ab].txt", "{a,b}", "{a,b}.txt", "~", "~/x", "`echo hi`", "$(echo hi)", ";", "a;b", "|", ">", "> out",
               "&", "&&", "'q'", '"dq"', "a\\b", "\\", "-rf", "--", "k=v", "=", "*$V", "$V*", "?$W", "\\$V", "#", "!", "a b*", "*/*", "./*"]
WORDS = WORDS + SHELL_WORDS[::2] + CTRL_WORDS[::3] + ENV_WORDS[::2]         # some of each in the general alphabet, all of them in dedicated arrays
# plain files of the working directories: names such patterns would match, names like the words themselves
STD_FILES = ["a.txt", "b.txt", "v1", "-rf", "k=v", "[a-z]x", "x y", "{a,b}"]
EXTRA_FILES = ["c.txt", "v2", "*", "*.txt", "~", "lit", "out", "a;b"]
FNS = ["Run", "RunV", "RunWith", "RunWithV", "Output", "OutputWith", "Exec"]
USES_MAP = {"RunWith", "RunWithV", "OutputWith", "Exec"}
FNSEL = {"Run": "FRun", "RunV": "FRunV", "RunWith": "FRunWith", "RunWithV": "FRunWithV", "Output": "FOutput",
         "OutputWith": "FOutputWith", "Exec": "FExec"}
VERBOSE = "MAGEFILE_VERBOSE"
VERBOSE_VALUES = ["1", "1", "true", "0", "", "t", "TRUE", "yes", "false"]
TRUE_SPELLINGS = ("1", "t", "T", "TRUE", "true", "True")          # strconv.ParseBool
SCRIPTS = ["--exit=3", "--exit=1", "--exit=255", "--quiet", "--exit=0", "--exit=42", "--kill", "--kill", "--exit=2"]   # argvchild: scripted failing / silent / signal-killed calls
PLAIN = [w for w in WORDS if "$" not in w]
SLOW_REF = "${Z}"                # Z is never set: expands to nothing, slowly when repeated
PAR_BOUND_MS = 15000             # how long all children of one concurrent case may take to be alive together
BAKED_COUNTS = [1, 2, 3, 4, 8, 16, 17, 19, 21, 33]
# env-map CONTENT as a dimension: entries with arbitrary bytes (name, value); none of these names is referenced
ODD_ENTRIES = [(b"", b"v"), (b"A=B", b"v"), (b"N\x00K", b"v"), (b"Q", b"a\x00b"), (b"LONG", b"x" * 1500), (b"U\xff", b"\xfe\xff"),
               (b"=", b""), (b"", b""), (b"Q", b"\x00")]
NILS = {"nil": True, "id": 0, "off": 0, "len": 0, "cap": 0}


def hx(b):
    return b.hex()


def emap_entries(o):
    """the env map of a direct call, byte-exact: sorted [(name bytes, value bytes)]"""
    m = {k.encode(): v.encode() for k, v in (o.get("emap") or {}).items()}
    for k, v in o.get("emap_odd") or []:
        m[bytes.fromhex(k)] = bytes.fromhex(v)
    return sorted(m.items())


def emap_refused(o):
    """os/exec (Go 1.20+) refuses an environment that contains a NUL byte: nothing is started (measured on the unchanged tree;
    an empty name, '=' in a name, very long and non-UTF-8 entries are handed on as they are)"""
    return o["fn"] in USES_MAP and any(b"\x00" in k or b"\x00" in v for k, v in emap_entries(o))


def py_expand(s, lookup):
    """independent os.Expand for the forms the generator emits: $NAME and ${NAME}; one pass"""
    return re.sub(r"\$\{(\w+)\}|\$(\w+)", lambda m: lookup(m.group(1) or m.group(2)), s, flags=re.ASCII)


# ------------------------------------------------------------------ generator
def gen_slice(rng, arrays, want_spare=False, nonempty=False, prefer_long=False):
    ids = [i for i, a in enumerate(arrays) if (len(a) >= 2 or not want_spare)]
    longs = [i for i in ids if len(arrays[i]) >= 15]
    if prefer_long and longs and rng.random() < 0.5:
        ids = longs
    i = rng.choice(ids or list(range(len(arrays))))
    n = len(arrays[i])
    off = rng.choice([0, 0, 0, rng.randint(0, n)])
    cap = rng.randint(0, n - off)
    if rng.random() < 0.5:
        cap = n - off
    ln = rng.randint(0, cap)
    if cap >= 15 and rng.random() < 0.6:
        ln = rng.randint(max(0, cap - 3), cap)           # long argument lists stay long
    if want_spare and cap >= 1:
        ln = rng.randint(0, cap - 1)
    elif rng.random() < 0.3:
        ln = cap
    elif nonempty and cap >= 1:
        ln = rng.randint(1, cap)
    return {"nil": False, "id": i, "off": off, "len": ln, "cap": cap}


def gen_arrays(rng, scripts=False):
    arrays = []
    for _ in range(rng.choice([1, 2, 2, 3, 3, 4, 5])):
        # lengths 0..41: short lists mostly, a quarter beyond any plausible cut-off (15..18, 31..34, 40, 41)
        n = rng.choice([0, 1, 2, 2, 3, 3, 4, 5, 6, 6, 9, 12]) if rng.random() < 0.75 else rng.choice([15, 16, 17, 17, 18, 20, 24, 31, 32, 33, 34, 40, 41])
        r0 = rng.random()
        words = PLAIN if r0 < 0.3 else (SHELL_WORDS if r0 < 0.42 else (CTRL_WORDS + ["lit", "a"] if r0 < 0.56 else (ENV_WORDS + ["a", "$V"] if r0 < 0.66 else WORDS)))
        # how often a cell scripts the child: failing calls must be as frequent as succeeding ones, for every length
        dens = rng.choice([0.0, 0.15, 0.3]) if n <= 12 else rng.choice([0.0, 0.03, 0.06, 0.1])
        arrays.append([rng.choice(SCRIPTS) if scripts and rng.random() < dens else rng.choice(words) for _ in range(n)])
    if all(len(a) < 2 for a in arrays):
        arrays.append([rng.choice(WORDS) for _ in range(3)])
    return arrays


def envvar_value(rng, k):
    """a well-known variable: as inherited by this process, unset (None), empty, "/" or some other plausible value"""
    return rng.choice([os.environ.get(k), None, None, "", "/", {"HOME": "/home/u", "TMPDIR": "/var/tmp", "USER": "u", "SHELL": "/bin/sh",
                                                                 "LANG": "C", "LC_ALL": "C.UTF-8", "TERM": "dumb", "PWD": "/work"}[k]])


def gen_env(rng, cmdvars=True):
    env = {v: rng.choice(VALUES) for v in VARS if rng.random() < 0.75}
    for k in ENVVARS:
        v = envvar_value(rng, k)
        if v is not None:
            env[k] = v
    if cmdvars:
        for k, vals in CMD_VARS.items():
            env[k] = rng.choice(vals)
    if rng.random() < 0.4:
        env[VERBOSE] = rng.choice(VERBOSE_VALUES)          # mage -v
    return env


def gen_closures(rng, arrays):
    cls = []
    for _ in range(rng.choice([1, 1, 1, 2, 2, 3])):
        baked = dict(NILS) if rng.random() < 0.1 else gen_slice(rng, arrays, want_spare=rng.random() < 0.6)
        cls.append({"kind": rng.choice(["run", "out", "out"]), "cmd": rng.choice(CMDS), "baked": baked})
    if len(cls) >= 2 and rng.random() < 0.5 and not cls[0]["baked"]["nil"]:
        # two closures over the same backing array
        b = cls[0]["baked"]
        cls[1]["baked"] = dict(b, len=rng.randint(0, b["cap"]))
    return cls


def gen_cmd_history(rng):
    """one closure whose command word depends on the environment (directory / name / whole path in a variable, or
    a bare name found through PATH) is called again and again while that environment and the programs themselves
    change; after each closure call the same command goes directly through sh.Output / sh.Run (the reference)"""
    arrays = gen_arrays(rng, scripts=rng.random() < 0.3)
    cmd = rng.choice(CMDS_TOOL)
    kind = rng.choice(["run", "out", "out"])
    baked = dict(NILS) if rng.random() < 0.3 else gen_slice(rng, arrays, want_spare=rng.random() < 0.5)
    ops = [{"op": "mk", "kind": kind, "cmd": cmd, "baked": baked}]
    fs = new_fs("@D1@/tool", "@D2@/tool", "@D1@")
    relevant = {"$TOOLDIR/tool": ["TOOLDIR"], "${TOOLDIR}/$TOOL": ["TOOLDIR", "TOOL"], "$WHOLE": ["WHOLE"],
                "tool": ["PATH"], "$TOOL": ["PATH", "PATH", "TOOL"],
                # for the relative spellings PATH is a control: it must NOT matter
                "./tool": ["PATH"], "././tool": ["PATH"], "../d1/../d2/tool": ["PATH"], "../d2/other": ["PATH"],
                "$TOOLDIR/../d2/tool": ["TOOLDIR", "PATH"], "$TOOLDIR/./tool": ["TOOLDIR", "PATH"], "./$TOOL": ["TOOL", "PATH"]}[cmd]
    for _ in range(rng.choice([2, 3, 3, 4, 5])):
        extra = dict(NILS) if rng.random() < 0.4 else gen_slice(rng, arrays, nonempty=True)
        ops.append({"op": "call", "c": 0, "extra": extra})
        if rng.random() < 0.5:
            ops.append({"op": "direct", "fn": "Output" if kind == "out" else "Run", "emap": None, "cmd": cmd,
                        "args": dict(NILS) if rng.random() < 0.5 else gen_slice(rng, arrays)})
        r = rng.random()
        if r < 0.7:
            k = rng.choice(relevant)
            ops.append({"op": "setenv", "k": k, "v": rng.choice(CMD_VARS[k])})
        elif r < 0.9:
            ops.append(gen_fs_op(rng, fs))
        else:
            ops.append({"op": "setenv", "k": rng.choice(VARS), "v": rng.choice(VALUES)})
    ops.append({"op": "call", "c": 0, "extra": dict(NILS)})
    return {"kind": "hist", "env": gen_env(rng), "arrays": arrays, "closures": [], "ops": ops}


def gen_big_history(rng, nmax):
    """argument-list TOTAL SIZE as a dimension: thousands of short arguments (tens of KB, far below ARG_MAX) through a
    closure (call-time and baked-in) and through the direct functions: one child per call, with all of them"""
    n = rng.randint(2000, nmax)
    prefix = rng.choice(["src/pkg/file-", "some/dir/name_", "obj/x86_64/o-", "f"]) if n < 4000 else rng.choice(["f", "pkg/f-", "src/pkg/file-"])
    if (len(prefix) + 4) * n < 33000:
        prefix = "src/generated/pkg/file-"
    arrays = [[prefix + str(i) for i in range(n)], [rng.choice(PLAIN + ["$V", "${V}x"]) for _ in range(3)]]
    big = {"nil": False, "id": 0, "off": 0, "len": n, "cap": n}
    small = {"nil": False, "id": 1, "off": 0, "len": rng.choice([0, 1, 2]), "cap": 3}
    k1, k2 = rng.choice(["out", "run"]), rng.choice(["out", "run"])
    ops = [{"op": "mk", "kind": k1, "cmd": rng.choice(CMDS_ABS), "baked": small},
           {"op": "call", "c": 0, "extra": big}]
    if rng.random() < 0.6:
        ops.append({"op": "setenv", "k": "V", "v": rng.choice(VALUES)})
    ops.append({"op": "direct", "fn": rng.choice(["Output", "Run", "OutputWith", "Exec"]), "emap": None, "cmd": rng.choice(CMDS_ABS), "args": big})
    if rng.random() < 0.7:
        ops += [{"op": "mk", "kind": k2, "cmd": rng.choice(CMDS_ABS), "baked": big}, {"op": "call", "c": 1, "extra": small}]
    if nmax > 3000:
        ops.append({"op": "call", "c": 0, "extra": dict(big, len=rng.randint(1500, n))})
    env = gen_env(rng)
    env.pop(VERBOSE, None)
    return {"kind": "hist", "env": env, "arrays": arrays, "closures": [], "ops": ops, "big": True}


def gen_glob_history(rng):
    """arguments with every character a shell would treat specially, baked in and per call, through one closure again and
    again and through the direct function, while the working directory changes and files that such patterns match appear and
    vanish: every word must reach the program verbatim, the same for closure and direct call, whatever the directory holds"""
    pool = SHELL_WORDS + ["$V", "lit"]
    arrays = [[rng.choice(pool) for _ in range(rng.choice([2, 3, 4, 6]))], [rng.choice(pool) for _ in range(rng.choice([1, 2, 3]))]]
    kind = rng.choice(["run", "out", "out"])
    cmd = rng.choice(CMDS_ABS + ["./tool", "$TOOLDIR/tool"])
    baked = {"nil": False, "id": 0, "off": 0, "len": rng.randint(1, len(arrays[0])), "cap": len(arrays[0])}
    extra = {"nil": False, "id": 1, "off": 0, "len": len(arrays[1]), "cap": len(arrays[1])}
    whole = {"nil": False, "id": 0, "off": 0, "len": len(arrays[0]), "cap": len(arrays[0])}
    ops = [{"op": "mk", "kind": kind, "cmd": cmd, "baked": baked}]
    fs = new_fs("@D1@/tool", "@D2@/tool", "@D1@")
    for _ in range(rng.choice([2, 3, 4])):
        ops.append({"op": "call", "c": 0, "extra": extra if rng.random() < 0.7 else dict(NILS)})
        if rng.random() < 0.5:
            ops.append({"op": "direct", "fn": "Output" if kind == "out" else "Run", "emap": None, "cmd": cmd, "args": whole})
        r = rng.random()
        if r < 0.45:
            op = {"op": "fs", "act": "chdir", "path": rng.choice(["@D1@", "@D2@", "@D0@"])}
        elif r < 0.9:
            op = {"op": "fs", "act": rng.choice(["create", "delete"]), "path": fs["cwd"] + "/" + rng.choice(STD_FILES + EXTRA_FILES)}
        else:
            op = {"op": "setenv", "k": "V", "v": rng.choice(VALUES + ["*", "?"])}
        if op["op"] == "fs":
            fs_apply(fs, op["path"], op["act"])
        ops.append(op)
    ops.append({"op": "call", "c": 0, "extra": extra})
    return {"kind": "hist", "env": gen_env(rng), "arrays": arrays, "closures": [], "ops": ops}


def gen_empty_history(rng):
    """EMPTY and non-empty argument lists, first and repeated calls of each closure, closure and direct function side by
    side: exactly one child per call - for the first call of a closure as for later ones, with no argument as with some"""
    arrays = [[rng.choice(WORDS) for _ in range(3)]]
    some = {"nil": False, "id": 0, "off": 0, "len": rng.choice([1, 2, 3]), "cap": 3}
    empty = rng.choice([dict(NILS), {"nil": False, "id": 0, "off": 0, "len": 0, "cap": 3}])
    cmd = rng.choice(CMDS_ABS + ["./tool", "tool"])
    k = rng.choice(["run", "out"])
    ops = [{"op": "mk", "kind": k, "cmd": cmd, "baked": dict(NILS)},
           {"op": "call", "c": 0, "extra": empty},                                  # first call, no argument at all
           {"op": "call", "c": 0, "extra": empty},                                  # again
           {"op": "direct", "fn": "Output" if k == "out" else "Run", "emap": None, "cmd": cmd, "args": empty},
           {"op": "call", "c": 0, "extra": some},
           {"op": "mk", "kind": "out" if k == "run" else "run", "cmd": cmd, "baked": some if rng.random() < 0.5 else dict(NILS)},
           {"op": "call", "c": 1, "extra": empty}, {"op": "call", "c": 1, "extra": empty},
           {"op": "direct", "fn": rng.choice(FNS), "emap": None, "cmd": cmd, "args": empty}]
    if rng.random() < 0.5:
        ops.insert(3, {"op": "setenv", "k": "PATH", "v": rng.choice(CMD_VARS["PATH"])})
    return {"kind": "hist", "env": gen_env(rng), "arrays": arrays, "closures": [], "ops": ops}


def with_knob(case, k, v):
    """the same case run with an environment variable that the tree under test reads and no model knows: whatever it is
    meant for, it must not change what the children are started with"""
    c = copy.deepcopy(case)
    c["knobs"] = {k: v}
    return c


def gen_history(rng):
    r = rng.random()
    if r < 0.04:
        return gen_empty_history(rng)
    r = rng.random()
    if r < 0.12:
        return gen_glob_history(rng)
    if r < 0.40:
        return gen_cmd_history(rng)
    arrays = gen_arrays(rng, scripts=True)
    cls = gen_closures(rng, arrays)
    mk = [{"op": "mk", "kind": c["kind"], "cmd": c["cmd"], "baked": c["baked"]} for c in cls]
    rng.shuffle(mk)
    ops = [mk.pop()]                      # closures are made at any point of the history, under the environment of that moment
    made = 1
    fs = new_fs("@D1@/tool", "@D2@/tool", "@D1@")
    for _ in range(rng.choice([1, 2, 3, 3, 4, 4, 5, 6, 8, 10])):
        r = rng.random()
        if mk and r < 0.25:
            ops.append(mk.pop())
            made += 1
        elif r < 0.05:
            ops.append({"op": "setenv", "k": VERBOSE, "v": rng.choice(VERBOSE_VALUES)})
        elif r < 0.10:
            k = rng.choice(ENVVARS + ["HOME", "HOME"])
            v = envvar_value(rng, k)
            ops.append({"op": "setenv", "k": k, "v": "", "unset": True} if v is None else {"op": "setenv", "k": k, "v": v})
        elif r < 0.19:
            ops.append({"op": "setenv", "k": rng.choice(VARS), "v": rng.choice(VALUES)})
        elif r < 0.30:
            k = rng.choice(["PATH", "PATH", "TOOLDIR", "TOOLDIR", "TOOL", "WHOLE"])     # which program the command word names changes
            ops.append({"op": "setenv", "k": k, "v": rng.choice(CMD_VARS[k])})
        elif r < 0.40:
            ops.append(gen_fs_op(rng, fs))
        elif r < 0.70:
            c = rng.randrange(made)
            if ops and ops[-1]["op"] == "call" and rng.random() < 0.5:
                c = ops[-1]["c"]
            extra = dict(NILS) if rng.random() < 0.3 else gen_slice(rng, arrays, nonempty=rng.random() < 0.8)
            ops.append({"op": "call", "c": c, "extra": extra})
        else:
            fn = rng.choice(FNS)
            emap = None
            if fn in USES_MAP or rng.random() < 0.3:
                emap = None if rng.random() < 0.2 else {v: rng.choice(VALUES) for v in VARS + [UNSET] if rng.random() < 0.35}
                if emap is not None and rng.random() < 0.3:          # caller maps that do mention the well-known variables
                    emap[rng.choice(ENVVARS)] = rng.choice(["/map", "", "/"])
            args = dict(NILS) if rng.random() < 0.1 else gen_slice(rng, arrays, prefer_long=True)
            d = {"op": "direct", "fn": fn, "emap": emap, "cmd": rng.choice(CMDS), "args": args}
            if fn in USES_MAP and rng.random() < 0.3:
                d["emap_odd"] = [[hx(k), hx(v)] for k, v in rng.sample(ODD_ENTRIES, rng.choice([1, 1, 2]))]
            ops.append(d)
    if not any(o["op"] in ("call", "direct") for o in ops):
        ops.append({"op": "call", "c": 0, "extra": dict(NILS)})
    return {"kind": "hist", "env": gen_env(rng), "arrays": arrays, "closures": [], "ops": ops}


def gen_mixed(rng):
    """a direct call WITH AN ENV MAP naming a variable is in flight (its child held at the gate) while a closure whose
    arguments reference that variable is called - possibly after the program itself has Setenv'd the variable - and the
    closure is called once more after everything has returned.  Every closure call is judged against the environment
    the PROGRAM set: env maps of other calls are not Setenv operations."""
    arrays = gen_arrays(rng)[:2]
    var = rng.choice(VARS)
    arrays.append(["pre$%s" % var, "${%s}" % var, rng.choice(PLAIN)])
    baked = {"nil": False, "id": len(arrays) - 1, "off": 0, "len": rng.choice([1, 2]), "cap": 3}
    arrays.append(["$%s" % var, "m-" + rng.choice(PLAIN), "${%s}x" % var])
    xs = {"nil": False, "id": len(arrays) - 1, "off": 0, "len": rng.choice([1, 2, 3]), "cap": 3}
    cls = [{"kind": "out", "cmd": rng.choice(CMDS_ABS), "baked": baked}]
    mapped = {"op": "direct", "fn": rng.choice(["OutputWith", "OutputWith", "Exec", "RunWith"]), "cmd": rng.choice(CMDS_ABS), "args": xs,
              "emap": {var: "mapped-" + rng.choice(["1", "x y", ""])}}
    if rng.random() < 0.3:
        mapped["emap"][rng.choice(VARS)] = "also"
    closure_call = {"op": "call", "c": 0, "extra": dict(NILS) if rng.random() < 0.4 else xs}
    calls = [mapped, closure_call] if rng.random() < 0.75 else [closure_call, mapped]
    stagger = [None, {"k": var, "v": "set-" + rng.choice(VALUES)} if rng.random() < 0.6 else None]
    if rng.random() < 0.4:
        calls.append({"op": "call", "c": 0, "extra": dict(NILS)})
        stagger.append({"k": var, "v": "again"} if rng.random() < 0.5 else None)
    ops = [{"op": "setenv", "k": var, "v": rng.choice(VALUES)}] if rng.random() < 0.7 else []
    ops.append({"op": "par", "c": 0, "calls": calls, "stagger": stagger, "reps": 1, "bound_ms": PAR_BOUND_MS, "shape": "mixed"})
    # after everything has returned: the closure again (and the mapped function again)
    ops.append({"op": "call", "c": 0, "extra": dict(NILS) if rng.random() < 0.5 else xs})
    if rng.random() < 0.5:
        ops.append(dict(mapped))
    env = gen_env(rng, cmdvars=False)
    env.pop(VERBOSE, None)
    return {"kind": "par", "env": env, "arrays": arrays, "closures": cls, "ops": ops, "scheds": [[]]}


def gen_par(rng, reps, alloc=False):
    """n goroutines call one closure at once.  The baked-in list has a length from BAKED_COUNTS (Go's
    allocator rounds the capacity of a copied slice up to a size class, so 17, 19, 21, 33 strings get
    spare room where 16 get none), some baked-in arguments are slow to expand (many references to an
    unset variable), so that the calls overlap INSIDE Exec and not only while the children are held."""
    arrays = gen_arrays(rng)[:2]
    nb = rng.choice(BAKED_COUNTS)
    spare = rng.choice([0, 0, 1, 2])
    slow_n = rng.choice([0, 200, 400, 400])
    if alloc:
        # always present: a closure over a baked-in list whose COPY gets spare capacity from the allocator's size classes,
        # called by several goroutines with one distinct argument each, expansion slow enough for the calls to overlap in Exec
        nb, slow_n = rng.choice([17, 19, 21, 33]), 400
    cells = []
    for i in range(nb + spare):
        w = rng.choice(WORDS)
        if slow_n and i < min(nb, 3):
            w = w + SLOW_REF * slow_n
        cells.append(w)
    arrays.append(cells)
    baked = {"nil": False, "id": len(arrays) - 1, "off": 0, "len": nb, "cap": nb + spare}
    # IDENTICAL call-time arguments are the main shape (the same question asked by several goroutines at once: every
    # call must start its own child); "staggered": identical calls started one after the other while the earlier
    # children are still running, with a Setenv of a referenced variable in between; "distinct": told apart by argument
    shape = rng.choice(["identical"] * 5 + ["distinct"] * 4 + ["staggered"] * 3 + ["mixed"] * 5)
    if alloc:
        shape = "distinct"
    if shape == "mixed":
        return gen_mixed(rng)
    n = rng.choice([2, 2, 3, 4, 6]) if shape != "staggered" else rng.choice([2, 2, 3])
    if alloc:
        n = rng.choice([3, 4, 6])
    extras = []
    stagger = None
    if shape == "distinct":
        for g in range(n):
            arrays.append(["G%d-%s" % (g, rng.choice(WORDS)), rng.choice(WORDS)])
            extras.append({"nil": False, "id": len(arrays) - 1, "off": 0, "len": 1 if alloc else rng.choice([1, 1, 2]), "cap": 2})
    else:
        var = rng.choice(VARS)
        same = ["same-" + rng.choice(WORDS), rng.choice(["$%s" % var, "${%s}x" % var, "pre$%s" % var]) if shape == "staggered" else rng.choice(WORDS)]
        ln = 2 if shape == "staggered" else rng.choice([0, 1, 1, 2])
        shared_slice = rng.random() < 0.5          # the very same slice handed to every call, or equal contents in separate arrays
        for g in range(n):
            if g == 0 or not shared_slice:
                arrays.append(list(same))
            extras.append({"nil": False, "id": len(arrays) - 1, "off": 0, "len": ln, "cap": 2})
        if shape == "staggered":
            stagger = [None] + [{"k": var, "v": rng.choice(VALUES)} if (g == 1 or rng.random() < 0.7) else None for g in range(1, n)]
            reps = 1
    kind = "out" if shape == "staggered" else rng.choice(["run", "out", "out"])
    cls = [{"kind": kind, "cmd": rng.choice(CMDS_ABS), "baked": baked}]
    ops = [{"op": "setenv", "k": rng.choice(VARS + [VERBOSE]), "v": rng.choice(VALUES)} for _ in range(rng.choice([0, 0, 1, 2]))]
    par = {"op": "par", "c": 0, "extras": extras, "reps": reps, "bound_ms": PAR_BOUND_MS, "shape": shape}
    if stagger:
        par["stagger"] = stagger
    if rng.random() < 0.25 and not alloc:
        # the reference behaviour: the same calls made directly, sh.Output/sh.Run(cmd, baked+extra...)
        par.update(parfn="Output" if shape == "staggered" else rng.choice(["Output", "Run"]), cmd=cls[0]["cmd"])
        done = set()
        for g, e in enumerate(extras):
            if e["id"] not in done:
                done.add(e["id"])
                arrays[e["id"]] = cells[:nb] + arrays[e["id"]]
            extras[g] = dict(e, len=nb + e["len"], cap=nb + 2)
    ops.append(par)
    env = gen_env(rng, cmdvars=False)
    if shape == "staggered":
        env.pop(VERBOSE, None)
        ops = [x for x in ops if not (x["op"] == "setenv" and x["k"] == VERBOSE)]
    return {"kind": "par", "env": env, "arrays": arrays, "closures": cls, "ops": ops,
            "scheds": [[rng.random() < 0.5 for _ in range(rng.choice([0, 3, 8, 20, 40, 200]))] for _ in range(reps)]}


# ------------------------------------------------------------------ running
def new_fs(t1, t2, cwd):
    """the oracle's record of the file system: the two programs that operations touch, and the working directory"""
    return {t1: {"present": True, "exec": True}, t2: {"present": True, "exec": True}, "cwd": cwd}


def gen_fs_op(rng, fs):
    """a program is removed / put back / made non-executable / executable again; the working directory changes; plain files
    (names that patterns would match, names like the words themselves) appear in or vanish from a directory"""
    r = rng.random()
    if r < 0.4:
        f = rng.choice(TOOLFILES)
        st = fs[f]
        act = rng.choice([a for a, okay in (("remove", st["present"]), ("restore", not st["present"]),
                                            ("chmod-x", st["present"] and st["exec"]), ("chmod+x", st["present"] and not st["exec"])) if okay])
    elif r < 0.7:
        f, act = rng.choice(["@D1@", "@D2@", "@D1@", "@D2@", "@D0@"]), "chdir"
    else:
        d = fs["cwd"] if rng.random() < 0.7 else rng.choice(["@D0@", "@D1@", "@D2@"])
        f, act = d + "/" + rng.choice(STD_FILES + EXTRA_FILES), rng.choice(["create", "delete"])
    fs_apply(fs, f, act)
    return {"op": "fs", "act": act, "path": f}


def fs_apply(fs, f, act):
    if act == "chdir":
        fs["cwd"] = f
        return
    if act in ("create", "delete"):
        return                      # plain files: they name no program
    st = fs[f]
    if act == "remove":
        st["present"] = False
    elif act == "restore":
        st["present"] = True
    elif act == "chmod-x":
        st["exec"] = False
    elif act == "chmod+x":
        st["exec"] = True


def lookpath(name, path, fs, known, cwd="/"):
    """independent exec.LookPath over the abstract file system: a word with a slash names that file (relative to the
    current directory, . and .. resolved: all directories involved exist, there are no symbolic links), a bare word the first
    PATH directory holding an executable file of that name"""
    def ok(p):
        if p in fs:
            return fs[p]["present"] and fs[p]["exec"]
        return p in known
    if name == "":
        return None
    if "/" in name:
        p = os.path.normpath(os.path.join(cwd, name))
        return p if ok(p) else None
    for d in (path.split(":") if path else []):
        p = (d or ".") + "/" + name
        if ok(p):
            return p
    return None


def concretize(x, child, dirs):
    """@CHILD@, @D0@.. -> the paths of this run"""
    s = json.dumps(x).replace("@CHILDDIR@", os.path.dirname(child)).replace("@CHILD@", child)
    for i, d in enumerate(dirs):
        s = s.replace("@D%d@" % i, d)
    return json.loads(s)


def prepare(case, child, dirs):
    """the concrete case of this run: paths filled in, the bookkeeping variables in the environment, every
    call annotated with the command word the harness has to look up right before it"""
    c = concretize(case, child, dirs)
    c["env"] = dict(c["env"], CHILD=child, CHILDDIR=os.path.dirname(child), **{FS_EPOCH: "0"})
    c["_child"], c["_dirs"], c["_abstract"] = child, dirs, case
    c["_knobs_env"] = {k: depslib.knob_value(v) for k, v in (case.get("knobs") or {}).items()}
    c["_knob_tmp"] = [os.path.dirname(p) for k, p in c["_knobs_env"].items() if case["knobs"][k] == "@FILE"] + \
                     [p for k, p in c["_knobs_env"].items() if case["knobs"][k] == "@DIR"]
    c["_known"] = {child, dirs[2] + "/other"}
    env = dict(c["env"])
    epoch = 0
    cls = list(c.get("closures") or [])
    for o in c["ops"]:
        if o["op"] == "setenv":
            env[o["k"]] = o["v"]
        elif o["op"] == "fs":
            epoch += 1
            o["epoch"] = str(epoch)
            env[FS_EPOCH] = o["epoch"]
        elif o["op"] == "mk":
            cls.append(o)
        elif o["op"] == "call":
            o["probe"] = [py_expand(cls[o["c"]]["cmd"], lambda k: env.get(k, ""))]
        elif o["op"] == "direct":
            emap = (o.get("emap") or {}) if o["fn"] in USES_MAP else {}
            o["probe"] = [py_expand(o["cmd"], lambda k: emap[k] if k in emap else env.get(k, ""))]
        elif o["op"] == "par":
            o["probe"] = sorted({py_expand(x["cmd"] if x["op"] == "direct" else cls[x["c"]]["cmd"], lambda k: env.get(k, "")) for x in par_calls(o)})
            env.update(par_envs(env, o)[-1])
    return c


def request(case, outfile, gate):
    raw = {"outfile": outfile, "gate": gate,
           "clear": VARS + [UNSET, VERBOSE, "CHILD", "CHILDDIR", "PATH", "TOOLDIR", "TOOL", "WHOLE"] + ENVVARS, "env": case["env"],
           "arrays": case["arrays"], "closures": case["closures"], "ops": case["ops"]}
    return {"op": "shslice", "raw": raw}


TOOLS = ((1, "tool"), (2, "tool"), (2, "other"))


def setup_tools(child, dirs):
    """@D1@/tool, @D2@/tool, @D2@/other: executable copies of the child; @D0@ empty.  Written ONCE, before any
    harness process is started (a program file that is open for writing anywhere cannot be executed)"""
    for d in dirs:
        os.makedirs(d, exist_ok=True)
    for k, name in TOOLS:
        f = os.path.join(dirs[k], name)
        if not os.path.exists(f):
            shutil.copyfile(child, f)
        os.chmod(f, 0o755)


def reset_tools(dirs):
    """undo the file-system operations of the previous history (programs: renames and modes only, nothing is written;
    plain files: the standard ones are there, the others are not)"""
    for k, name in TOOLS:
        f = os.path.join(dirs[k], name)
        if os.path.exists(f + ".gone"):
            os.replace(f + ".gone", f)
        os.chmod(f, 0o755)
    for d in dirs:
        for name in STD_FILES:
            if not os.path.exists(os.path.join(d, name)):
                with open(os.path.join(d, name), "w") as fh:
                    fh.write("x\n")
        for name in EXTRA_FILES:
            if os.path.exists(os.path.join(d, name)):
                os.remove(os.path.join(d, name))


def run_chunks(ctx, binp, child, cases, tag, jobs=None):
    """runs the (abstract) cases through `jobs` workers; returns (concrete cases, answers, stderr texts)"""
    jobs = min(jobs or NCPU, max(1, len(cases)))
    chunks = [list(range(i, len(cases), jobs)) for i in range(jobs)]
    alldirs = [[os.path.join(ctx.tmp, "tools_%s_%d" % (tag, ci), "d%d" % k) for k in range(3)] for ci in range(jobs)]
    for dirs in alldirs:
        setup_tools(child, dirs)
    def one(ci):
        # one harness PROCESS per case: a history starts from a fresh package state (pools, loggers),
        # so a replay file reproduces exactly what was seen; one set of tool directories per worker
        idx = chunks[ci]
        outfile = os.path.join(ctx.tmp, "argv_%s_%d.txt" % (tag, ci))
        gate = os.path.join(ctx.tmp, "gate_%s_%d" % (tag, ci))
        dirs = alldirs[ci]
        conc, ans, errs = [], [], []
        for i in idx:
            reset_tools(dirs)
            c = prepare(cases[i], child, dirs)
            open(outfile, "w").close()
            inp = json.dumps(request(c, outfile, gate)) + "\n"
            # a knob is in the process environment from the start (it may be read when the package is initialised)
            rc, out, err = sh([binp], input=inp.encode(), timeout=600, env=goenv(c["_knobs_env"] or None), cwd=dirs[1])
            for d in c["_knob_tmp"]:
                shutil.rmtree(d, ignore_errors=True)
            if rc != 0 and "DATA RACE" not in err:
                raise BuildError("unitrun (shslice) failed rc=%d: %s" % (rc, err[-2000:]))
            lines = [l for l in out.splitlines() if l.strip()]
            if len(lines) != 1:
                raise BuildError("unitrun (shslice): %d answers for one request: %s" % (len(lines), err[-2000:]))
            conc.append(c)
            ans.append(json.loads(lines[0]))
            errs.append(err)
        return idx, conc, ans, "\n".join(errs)
    answers = [None] * len(cases)
    concrete = [None] * len(cases)
    errs = []
    for idx, conc, ans, err in pmap(one, list(range(len(chunks))), jobs=jobs):
        for i, c, a in zip(idx, conc, ans):
            answers[i] = a
            concrete[i] = c
        errs.append(err)
    return concrete, answers, errs


# ------------------------------------------------------------------ oracle
def all_closures(case):
    return list(case.get("closures") or []) + [{"kind": o["kind"], "cmd": o["cmd"], "baked": o["baked"]} for o in case["ops"] if o["op"] == "mk"]


def is_verbose(env):
    return env.get(VERBOSE, "") in TRUE_SPELLINGS


def child_behaviour(argv, exe):
    """the operating system and harness/argvchild: (stdout, exit status) of a call that hands over argv when the
    command word names program exe (None: nothing startable -> nothing printed, sh.ExitStatus of the error is 1)"""
    if exe is None:
        return "", 1
    args = argv[1:]
    code = 0
    for a in args:
        m = re.fullmatch(r"--exit=(\d+)", a, flags=re.ASCII)
        if m and int(m.group(1)) <= 255:
            code = int(m.group(1))
    if "--kill" in args:
        code = 1          # started, printed, killed by a signal: not an exit error, sh.ExitStatus says 1
    return ("" if "--quiet" in args else exe + ": " + " ".join(args) + "\n"), code


def which(case, env, fs, argv):
    """the program the command word names NOW: environment and file system of this moment"""
    return lookpath(argv[0], env.get("PATH", ""), fs, case["_known"], cwd=fs.get("cwd", case["_dirs"][1]))


def trim_nl(t):
    return t[:-1] if t.endswith("\n") else t


def contents(arrays, s):
    return [] if s.get("nil") else arrays[s["id"]][s["off"]:s["off"] + s["len"]]


def expected_call(case, env, o, fs):
    """the reference of ONE call, from this call's arguments, the environment and the file system at this moment
    alone: (argv handed over, text handed back, bytes on os.Stdout, exit status of the error, program run or None)"""
    arrays = case["arrays"]
    emap = (o.get("emap") or {}) if o["fn"] in USES_MAP else {}
    look = lambda k: emap[k] if k in emap else env.get(k, "")
    argv = [py_expand(x, look) for x in [o["cmd"]] + contents(arrays, o["args"])]
    exe = None if emap_refused(o) else which(case, env, fs, argv)
    text, code = child_behaviour(argv, exe)
    fn = o["fn"]
    out = trim_nl(text) if fn in ("Output", "OutputWith") else (text if fn == "Exec" else None)
    stdout = text if (fn in ("RunV", "RunWithV") or (fn in ("Run", "RunWith") and is_verbose(env))) else ""
    return argv, out, stdout, code, exe


def expected_closure(case, env, c, extra, fs):
    cl = all_closures(case)[c]
    look = lambda k: env.get(k, "")
    argv = [py_expand(x, look) for x in [cl["cmd"]] + contents(case["arrays"], cl["baked"]) + contents(case["arrays"], extra)]
    exe = which(case, env, fs, argv)
    text, code = child_behaviour(argv, exe)
    if cl["kind"] == "out":
        return argv, trim_nl(text), "", code, exe          # like sh.Output
    return argv, None, (text if is_verbose(env) else ""), code, exe   # like sh.Run: os.Stdout if verbose AT THIS CALL


def par_extras(o):
    return o.get("extras") or [o["a"], o["b"]]


def par_calls(o):
    """the concurrent calls of a par operation as call / direct operations"""
    if o.get("calls"):
        return o["calls"]
    if o.get("parfn"):
        return [{"op": "direct", "fn": o["parfn"], "emap": None, "cmd": o["cmd"], "args": x} for x in par_extras(o)]
    return [{"op": "call", "c": o["c"], "extra": x} for x in par_extras(o)]


def par_envs(env, o):
    """the environment THE PROGRAM has set at the START of each concurrent call (staggered: a Setenv right before some of
    them).  Env maps of other calls in flight are not Setenv operations: they do not count."""
    envs, e = [], dict(env)
    for g, _ in enumerate(par_calls(o)):
        st = (o.get("stagger") or [])[g] if g < len(o.get("stagger") or []) else None
        if st:
            e = dict(e, **{st["k"]: st["v"]})
        envs.append(e)
    return envs


def par_expected(case, env, o, fs):
    """[(argv, text, ...)] per concurrent call, each under the environment at ITS start"""
    envs = par_envs(env, o)
    return [expected_call(case, envs[g], x, fs) if x["op"] == "direct" else expected_closure(case, envs[g], x["c"], x["extra"], fs)
            for g, x in enumerate(par_calls(o))]


def par_what(case, o):
    if o.get("calls"):
        return "[%s]" % ", ".join(("sh.%s with env map %r" % (x["fn"], x.get("emap"))) if x["op"] == "direct" else
                                  ("closure %d (%s)" % (x["c"], "OutCmd" if all_closures(case)[x["c"]]["kind"] == "out" else "RunCmd")) for x in o["calls"])
    if o.get("parfn"):
        return "sh.%s(%r, ...)" % (o["parfn"], o["cmd"])
    return "closure %d (%s)" % (o["c"], "OutCmd" if case["closures"][o["c"]]["kind"] == "out" else "RunCmd")


def par_nbaked(case, o):
    return 0 if (o.get("parfn") or o.get("calls")) else case["closures"][o["c"]]["baked"]["len"]


def short(x, n=700):
    """repr with the long slow-expansion runs abbreviated"""
    r = re.sub(r"(\$\{Z\}){20,}", lambda m: "${Z}*%d" % (len(m.group(0)) // len(SLOW_REF)), repr(x))
    r = re.sub(r"x{50,}", lambda m: "x*%d" % len(m.group(0)), r)
    return r if len(r) <= n else r[:n] + "..."


def brief(x, n=600):
    r = repr(x)
    return r if len(r) <= n else r[:n // 2] + " ... " + r[-n // 2:]


def oracle(case, ans):
    """the property sentence over what the implementation did. returns a list of failed clauses"""
    bad = []
    arrays = case["arrays"]
    if ans.get("error"):
        return ["harness error: " + ans["error"]]
    if ans["snap0"] != arrays:
        bad.append("harness: initial arrays differ from the request")
    env = dict(case["env"])
    fs = new_fs(case["_dirs"][1] + "/tool", case["_dirs"][2] + "/tool", case["_dirs"][1])
    for i, (o, ob) in enumerate(zip(case["ops"], ans["obs"])):
        if o["op"] == "setenv":
            env[o["k"]] = o["v"]
        elif o["op"] == "fs":
            fs_apply(fs, o["path"], o["act"])
            env[FS_EPOCH] = o["epoch"]
        elif o["op"] in ("call", "direct"):
            if o["op"] == "call":
                argv, out, stdout, code, exe = expected_closure(case, env, o["c"], o["extra"], fs)
                cl = all_closures(case)[o["c"]]
                what = "closure %d (%s, made by operation %d) called with %s" % (
                    o["c"], "OutCmd" if cl["kind"] == "out" else "RunCmd",
                    ([j for j, x in enumerate(case["ops"]) if x["op"] == "mk"] + [-1])[o["c"] - len(case.get("closures") or [])] if o["c"] >= len(case.get("closures") or []) else -1,
                    brief(contents(arrays, o["extra"]), 300))
                ref = "sh.Output" if cl["kind"] == "out" else "sh.Run"
            else:
                argv, out, stdout, code, exe = expected_call(case, env, o, fs)
                what = "sh.%s(%r, %s...)" % (o["fn"], o["cmd"], brief(contents(arrays, o["args"]), 300))
                ref = "this call alone"
                before = [[hx(k), hx(v)] for k, v in emap_entries(o)]
                was_nil = o.get("emap") is None and not o.get("emap_odd")
                if ob.get("emap_hex") != before or was_nil != bool(ob.get("emap_nil")):
                    bad.append("op %d: %s changed the env map: %s -> %s" % (i, what, short(emap_entries(o), 300),
                                                                           short([(bytes.fromhex(k), bytes.fromhex(v)) for k, v in ob.get("emap_hex") or []], 300)))
            if ob["argv"] != ([argv] if exe else []):
                bad.append("op %d: %s started %d child(ren) %s, expected %s (command word %r: environment - PATH=%r - and file system at the time of the call)" % (
                    i, what, len(ob["argv"]), brief(ob["argv"]), ("exactly one child, program %s, with the %d-element argv %s" % (exe, len(argv), brief(argv))) if exe else "no child: nothing startable is named",
                    argv[0], env.get("PATH")))
            if ob["status"] != code or bool(ob["err"]) != (code != 0):
                bad.append("op %d: %s returned error %r (exit status %d), the child exits with %d" % (i, what, ob["err"], ob["status"], code))
            if ob["out"] != out:
                bad.append("op %d: %s handed back %r, expected %r (%s with the same argv in the environment of this call; what earlier calls printed is not part of it)" % (
                    i, what, brief(ob["out"], 300), brief(out, 300), ref))
            if ob["stdout"] != stdout:
                bad.append("op %d: %s wrote %r to os.Stdout, expected %r (%s with the same argv; MAGEFILE_VERBOSE=%r at the time of this call)" % (
                    i, what, ob["stdout"], stdout, ref, env.get(VERBOSE)))
        elif o["op"] == "par":
            exp = par_expected(case, env, o, fs)
            for ri, rp in enumerate(ob.get("reps") or []):
                if rp.get("stalled"):
                    bad.append("op %d rep %d: %d %s calls of %s in flight, only %d children started (%d alive at the same time); after %d ms %d call(s) had neither started a child "
                               "nor returned while the other children were still running (held at the gate): a call did not start its own child while another call was in flight" % (
                                   i, ri, len(exp), o.get("shape", "concurrent"), par_what(case, o), len(rp["lines"]), rp["alive"], rp["waited_ms"],
                                   len(exp) - rp["alive"] - rp["returned_before_gate"]))
                if sorted(rp["lines"]) != sorted(e[0] for e in exp):
                    nb = par_nbaked(case, o)
                    bad.append("op %d rep %d: %d concurrent calls of %s (%d baked-in arguments): after cmd and the baked-in arguments the children received %s, the calls passed %s%s" % (
                        i, ri, len(exp), par_what(case, o), nb, short(sorted(l[1 + nb:] for l in rp["lines"]), 400), short(sorted(e[0][1 + nb:] for e in exp), 400),
                        "" if sorted(l[:1 + nb] for l in rp["lines"]) == sorted(e[0][:1 + nb] for e in exp) else "; cmd/baked part differs too: %s" % short(rp["lines"], 500)))
                for g, e in enumerate(exp):
                    if rp["outs"][g] != e[1]:
                        bad.append("op %d rep %d: concurrent call %d handed back %s, expected %s (its own arguments)" % (i, ri, g, short(rp["outs"][g]), short(e[1])))
                    if rp["errs"][g]:
                        bad.append("op %d rep %d: concurrent call %d returned an error: %r" % (i, ri, g, rp["errs"][g][:200]))
                if rp["snap"] != arrays:
                    bad.append("op %d rep %d: caller-visible arrays changed by concurrent calls: %s -> %s" % (i, ri, short(arrays), short(rp["snap"])))
                for g, x in enumerate(par_calls(o)):
                    if x["op"] == "direct" and (rp.get("emaps_hex") or [None] * (g + 1))[g] != [[hx(k), hx(v)] for k, v in emap_entries(x)]:
                        bad.append("op %d rep %d: concurrent call %d (sh.%s) changed its env map: %s -> %r" % (i, ri, g, x["fn"], short(emap_entries(x), 200), rp.get("emaps_hex")[g]))
            env = par_envs(env, o)[-1]
        if ob["snap"] != arrays:
            bad.append("op %d (%s): caller-visible arrays changed: %s -> %s" % (i, o["op"], brief(short(arrays, 10**7)), brief(short(ob["snap"], 10**7))))
            break
    return bad


# ------------------------------------------------------------------ Coq terms
def t_slice(s):
    return "(S_ 0 0 0 0)" if s.get("nil") else "(S_ %d %d %d %d)" % (s["id"], s["off"], s["len"], s["cap"])


def t_cell(x):
    m = re.search(r"(?:\$\{Z\}){20,}", x)
    if not m:
        return coq_str(x)
    return "(String.append %s (String.append (rep_str %s %d) %s))" % (
        coq_str(x[:m.start()]), coq_str(SLOW_REF), len(m.group(0)) // len(SLOW_REF), t_cell(x[m.end():]))


def digest_str(h, s):
    for c in s.encode("utf-8", "surrogateescape"):
        h = (h * 31 + c) % 4294967296
    return h


def digest_list(h, l):
    for x in l:
        h = (digest_str(h, x) * 31 + 1) % 4294967296
    return h


def big_rule(l):
    """(prefix, n) if the cells are prefix0, prefix1, ... (the generator's very long arrays)"""
    if len(l) < BIG or not l[0].endswith("0"):
        return None
    prefix = l[0][:-1]
    return (prefix, len(l)) if all(x == prefix + str(i) for i, x in enumerate(l)) else None


def t_strs(l):
    r = big_rule(l)
    if r:
        return "(big_cells %s %d)" % (coq_str(r[0]), r[1])
    return coq_list([t_cell(x) for x in l])


def t_heap(h):
    return coq_list([t_strs(a) for a in h])


def t_env(d, order=None):
    ks = order if order is not None else sorted(d)
    return coq_list(["(%s, %s)" % (coq_str(k), coq_str(d[k])) for k in ks])


def t_bytes_env(entries):
    return coq_list(["(%s, %s)" % (coq_str(k), coq_str(v)) for k, v in entries])


def t_cls(cls):
    return coq_list(["(C_ %s %s %s)" % ("KOut" if c["kind"] == "out" else "KRun", coq_str(c["cmd"]), t_slice(c["baked"])) for c in cls])


def t_op(o):
    if o["op"] == "mk":
        return "(MkClosure %s %s %s)" % ("KOut" if o["kind"] == "out" else "KRun", coq_str(o["cmd"]), t_slice(o["baked"]))
    if o["op"] == "setenv":
        # os.Unsetenv is SetEnv k "" for the model: os.Getenv - all that package sh reads - cannot tell them apart
        return "(SetEnv %s %s)" % (coq_str(o["k"]), coq_str(o["v"]))
    if o["op"] == "fs":
        return "(SetEnv %s %s)" % (coq_str(FS_EPOCH), coq_str(o["epoch"]))
    if o["op"] == "call":
        return "(CallClosure %d %s)" % (o["c"], t_slice(o["extra"]))
    return "(CallDirect %s %s %s %s)" % (FNSEL[o["fn"]], t_bytes_env(emap_entries(o)), coq_str(o["cmd"]), t_slice(o["args"]))


def t_optstr(x):
    return "None" if x is None else "(Some %s)" % coq_str(x)


def full_env(case):
    return dict(case["env"])


def t_lookup(case, ans):
    """the operating system's answers, keyed by (file-system epoch, PATH, command word) at the time of each call"""
    env = dict(case["env"])
    seen, out = set(), []
    for o, ob in zip(case["ops"], ans["obs"]):
        if o["op"] == "setenv":
            env[o["k"]] = o["v"]
        elif o["op"] == "fs":
            env[FS_EPOCH] = o["epoch"]
        for name, res in sorted((ob.get("lookups") or {}).items()):
            key = (env.get(FS_EPOCH, ""), env.get("PATH", ""), name)
            if key not in seen:
                seen.add(key)
                out.append("(%s, %s, %s, %s)" % (coq_str(key[0]), coq_str(key[1]), coq_str(key[2]), t_optstr(res)))
    return coq_list(out)


def hist_term(case, ans):
    obs = []
    for o, ob in zip(case["ops"], ans["obs"]):
        if sum(len(a) for a in ob["argv"]) >= BIG:
            # a very long call: the case file carries the number of children and digests instead of the lists
            dig = "(Some (%d, %d%%N, %s))" % (len(ob["argv"]), digest_list(0, [x for a in ob["argv"] for x in a]),
                                             "None" if ob["out"] is None else "(Some %d%%N)" % digest_str(0, ob["out"]))
            obs.append("{| i_argv := []; i_out := None; i_stdout := %s; i_status := %d; i_digest := %s; i_snap := %s; i_emap := %s |}" % (
                coq_str(ob.get("stdout") or ""), ob.get("status") or 0, dig,
                "h0_" if ob["snap"] == case["arrays"] else t_heap(ob["snap"]),
                t_bytes_env([(bytes.fromhex(k), bytes.fromhex(v)) for k, v in ob.get("emap_hex") or []])))
            continue
        obs.append("{| i_argv := %s; i_out := %s; i_stdout := %s; i_status := %d; i_digest := None; i_snap := %s; i_emap := %s |}" % (
            coq_list([t_strs(a) for a in ob["argv"]]), t_optstr(ob["out"]), coq_str(ob.get("stdout") or ""), ob.get("status") or 0,
            "h0_" if ob["snap"] == case["arrays"] else t_heap(ob["snap"]),
            t_bytes_env([(bytes.fromhex(k), bytes.fromhex(v)) for k, v in ob.get("emap_hex") or []])))
    # the caller's arrays are written once per case (let-bound); an unchanged snapshot refers to them
    return "(let h0_ := %s in {| c_lookup := %s; c_env := %s; c_heap := h0_; c_cls := %s; c_ops := %s; c_obs := %s |})" % (
        t_heap(case["arrays"]), t_lookup(case, ans), t_env(full_env(case)), t_cls(case["closures"]), coq_list([t_op(o) for o in case["ops"]]), coq_list(obs))


def stagger_history(case, ans, oi, o, ob, rp):
    """a staggered repetition as a HISTORY for the model: call, Setenv, call, ... and whatever follows the par operation -
    each call is predicted under the environment the program has set at its own start (by C16_concurrent the interleaving of
    the memory actions does not matter; env maps of other calls in flight are not Setenv operations)"""
    calls = par_calls(o)
    exp = [e[0] for e in par_expected(case, par_env_before(case, oi), o, {})]
    rest = list(rp["lines"])
    mine = []
    for g, e in enumerate(exp):
        if e in rest:
            rest.remove(e)
            mine.append([e])
        else:
            mine.append(None)
    mine = [m if m is not None else ([rest.pop(0)] if rest else []) for m in mine]
    for g, x in enumerate(calls):
        if x["op"] == "direct" and emap_refused(x):
            mine[g] = []                  # nothing started, nothing reported
    ops, obs = list(case["ops"][:oi]), list(ans["obs"][:oi])
    for g, x in enumerate(calls):
        st = (o.get("stagger") or [])[g] if g < len(o.get("stagger") or []) else None
        if st:
            ops.append({"op": "setenv", "k": st["k"], "v": st["v"]})
            obs.append({"argv": [], "out": None, "stdout": "", "status": 0, "snap": rp["snap"], "emap_hex": []})
        ops.append(x)
        obs.append({"argv": mine[g], "out": rp["outs"][g], "stdout": "", "status": rp["status"][g], "snap": rp["snap"],
                    "emap_hex": (rp.get("emaps_hex") or [[]] * (g + 1))[g] if x["op"] == "direct" else [], "lookups": ob.get("lookups")})
    return dict(case, ops=ops + list(case["ops"][oi + 1:])), {"obs": obs + list(ans["obs"][oi + 1:])}


def par_env_before(case, oi):
    env = full_env(case)
    for o in case["ops"][:oi]:
        if o["op"] == "setenv":
            env[o["k"]] = o["v"]
    return env


def par_terms(case, ans):
    """the calls of one repetition are compared pairwise with the two-goroutine model: (0,1), (2,3), ...;
    staggered repetitions as histories.  Returns (concurrent items, history items)"""
    env = full_env(case)
    out, hist_items = [], []
    for o, ob in zip(case["ops"], ans["obs"]):
        if o["op"] == "setenv":
            env[o["k"]] = o["v"]
            continue
        if o["op"] != "par":
            continue
        if o.get("stagger"):
            for rp in (ob.get("reps") or [])[:1]:
                c2, a2 = stagger_history(case, ans, case["ops"].index(o), o, ob, rp)
                hist_items.append(hist_term(c2, a2))
            continue
        extras = par_extras(o)
        exp = [e[0] for e in par_expected(case, dict(env), o, {})]
        if o.get("parfn"):
            t_call = lambda x: "(CallDirect %s [] %s %s)" % (FNSEL[o["parfn"]], coq_str(o["cmd"]), t_slice(x))
        else:
            t_call = lambda x: "(CallClosure %d %s)" % (o["c"], t_slice(x))
        pairs = [(g, g + 1) for g in range(0, len(extras) - 1, 2)]
        if len(extras) % 2:
            pairs.append((len(extras) - 1, 0))
        reps = ob.get("reps") or []
        for ri, rp in enumerate(reps):
            if 0 < ri < len(reps) - 1:
                continue        # the model sees the first and the last repetition (the oracle judges all of them)
            lines = list(rp["lines"])
            # attribute the children to the calls (the oracle has already judged the multiset)
            mine = {}
            rest = list(lines)
            for g, e in enumerate(exp):
                if e in rest:
                    mine[g] = e
                    rest.remove(e)
            for g in range(len(exp)):
                if g not in mine:
                    mine[g] = rest.pop(0) if rest else []
            for (ga, gb) in pairs:
                out.append("(let h0_ := %s in {| cc_lookup := %s; cc_env := %s; cc_heap := h0_; cc_cls := %s; cc_a := %s; cc_b := %s; cc_sched := %s; cc_argv_a := %s; cc_argv_b := %s; "
                           "cc_out_a := %s; cc_out_b := %s; cc_snap := %s |})" % (
                               t_heap(case["arrays"]), t_lookup(case, ans), t_env(env), t_cls(case["closures"]),
                               t_call(extras[ga]), t_call(extras[gb]),
                               coq_list([coq_bool(x) for x in case["scheds"][ri % len(case["scheds"])]]),
                               t_strs(mine[ga]), t_strs(mine[gb]), t_optstr(rp["outs"][ga]), t_optstr(rp["outs"][gb]),
                               "h0_" if rp["snap"] == case["arrays"] else t_heap(rp["snap"])))
    return out, hist_items


def abstract(case):
    return {k: v for k, v in case.items() if not k.startswith("_")}


# ------------------------------------------------------------------ the check
def run(ctx):
    ctx.prove(["Props/C16.vo", "Run/eval_C16.vo"], extra_props=["Compose_C16_C15"])   # + composition C16 <-> C15 (same argv/env reaches the child; repeatable in outcome)
    import extractlib; extractlib.fn_tie(ctx, ['joinArgs'])   # pure functions translated from the current source, re-proved equal to the models' (tools/notes/Translator.md)
    ctx.trusted_base += [
        "harness/unitrun op shslice (in-process calls of package sh; slices built as arrays[id][off:off+len:off+cap]; deep snapshots of whole arrays) and harness/argvchild (reports os.Args)",
        "checks/c16.py (history generator, Coq printer, oracle with its own $NAME/${NAME} expansion)",
        "Go semantics assumed by Model/Slices.v: append stores in place when capacity allows and allocates otherwise, a variadic call passes the slice itself, "
        "make returns zeroed fresh arrays, os.Expand as Base/Expand.v, exec.Command copies the argument cells when it is called; atomic actions are single-cell loads and stores",
        "the process environment is constant while two concurrent calls overlap (C16_concurrent)",
        "which program a command word names (exec.LookPath through PATH, the file system of the moment), whether it starts, what it prints and how it exits "
        "are PARAMETERS of the model: functions of the environment at the time of the call and of the argv (Model/Slices.v child_out/child_exit); their values are fed per case "
        "from exec.LookPath called by the harness right before each call (keyed by file-system epoch, PATH, command word) and from harness/argvchild's behaviour; "
        "the oracle uses its own lookup over its own record of the file-system operations",
    ]
    knobs = []
    binp = go_build_harness(ctx, "unitrun")
    child = go_build_harness(ctx, "argvchild", tags=None, out=os.path.join(ctx.tmp, "argvchild"))
    rng = ctx.rng
    if ctx.replay and ctx.replay.get("case"):
        cases = [dict(ctx.replay["case"])]
    else:
        nh = 260 if ctx.quick else 6000
        npar = 28 if ctx.quick else 300
        reps = 4 if ctx.quick else 10
        nalloc = 6 if ctx.quick else 60
        nbig, bigmax = (3, 2300) if ctx.quick else (24, 6000)     # the model's list memory makes a copy of n cells cost n^2
        hists = [gen_history(rng) for _ in range(nh)]
        pars = [gen_par(rng, reps) for _ in range(npar)]
        cases = (hists + [gen_empty_history(rng) for _ in range(4)] + [gen_big_history(rng, bigmax) for _ in range(nbig)] +
                 pars + [gen_par(rng, reps, alloc=True) for _ in range(nalloc)])
        # KNOB DISCOVERY: every environment variable the tree under test reads and no model knows (none on the unchanged tree)
        # becomes an environment dimension: a slice of the histories is run again under each of them
        knobs = depslib.discover_knobs()
        for k in knobs:
            for v in ["1", "true", "@FILE", "1s"]:
                sl = [gen_empty_history(rng) for _ in range(5 if ctx.quick else 20)] + hists[:10 if ctx.quick else 60] + pars[:2 if ctx.quick else 10]
                cases += [with_knob(c, k, v) for c in sl]
    ctx.log("built; running %d cases" % len(cases))
    cases, answers, _ = run_chunks(ctx, binp, child, cases, "n")
    ctx.log("implementation ran")

    # oracle on everything the implementation did
    nviol = 0
    for c, a in zip(cases, answers):
        bad = oracle(c, a)
        if bad and nviol < 5:
            nviol += 1
            what = {"kind": "oracle", "clause": bad[0], "all": bad[:6]}
            if c["_abstract"].get("knobs"):
                what["under_environment_knob"] = c["_abstract"]["knobs"]     # a variable the tree reads and no model knows
            ctx.violation(what, case=c["_abstract"], extra={"implementation": a})

    # the model on the same histories
    hist = [(c, a) for c, a in zip(cases, answers) if c["kind"] == "hist" and not a.get("error")]
    pars = [(c, a) for c, a in zip(cases, answers) if c["kind"] == "par" and not a.get("error")]
    header = "From Mage Require Import Base.Strs Base.Expand Model.Slices Run.eval_C16.\n"
    bighist = [(c, a) for c, a in hist if c.get("big")]
    hist = [(c, a) for c, a in hist if not c.get("big")]
    items = [hist_term(c, a) for c, a in hist]
    bigitems = [hist_term(c, a) for c, a in bighist]
    pitems, powner = [], []
    for c, a in pars:
        ts, hs = par_terms(c, a)
        pitems += ts
        powner += [(c, a)] * len(ts)
        items += hs
        hist += [(c, a)] * len(hs)
    # the three groups of case files are evaluated at the same time (the very long cases take longest)
    jobs3 = [lambda: ctx.coq_eval_shards("cases_C16big", header, bigitems, per_shard=1) if bigitems else [],
             lambda: ctx.coq_eval_shards("cases_C16", header, items, per_shard=max(20, (len(items) + NCPU - 1) // NCPU)) if items else [],
             lambda: ctx.coq_eval_shards("cases_C16par", header + "Definition mismatches := mismatches_conc.\n", pitems,
                                         per_shard=max(20, (len(pitems) + NCPU - 1) // NCPU)) if pitems else []]
    bmism, mism, pmism = pmap(lambda f: f(), jobs3, jobs=3)
    mism = list(mism) + [(len(hist) + i, body) for i, body in bmism]
    hist = hist + bighist
    ctx.log("model evaluated")
    if (mism or pmism) and not ctx.violations:
        for idx, body in mism[:3]:
            c, a = hist[idx]
            ctx.violation({"kind": "model-vs-implementation", "correspondence": "Run/eval_C16.mismatches",
                           "model_says (first differing operation, model's observation)": body[:600]},
                          case=c["_abstract"], found_input=False, extra={"implementation": a})
        for idx, body in pmism[:3]:
            c, a = powner[idx]
            ctx.violation({"kind": "model-vs-implementation", "correspondence": "Run/eval_C16.mismatches_conc", "model_says": body[:600]},
                          case=c["_abstract"], found_input=False, extra={"implementation": a})

    # thorough: the same concurrent cases (and some histories) under the race detector
    race = {"built": False, "reports": 0}
    if not ctx.quick and not ctx.replay:
        try:
            rbin = go_build_harness(ctx, "unitrun", race=True, out=os.path.join(ctx.tmp, "bin_unitrun_race"))
            race["built"] = True
        except BuildError as ex:
            ctx.notes.append("unitrun could not be built with -race here (%s); race detection skipped" % str(ex)[-200:])
            rbin = None
        if rbin:
            rcases = [c["_abstract"] for c in cases if c["kind"] == "par"] + [c["_abstract"] for c in cases if c["kind"] == "hist"][:200]
            rcases, ranswers, errs = run_chunks(ctx, rbin, child, rcases, "r", jobs=8)
            race["cases"] = len(rcases)
            for err in errs:
                race["reports"] += err.count("WARNING: DATA RACE")
            if race["reports"]:
                first = next(e for e in errs if "WARNING: DATA RACE" in e)
                pc = next((c for c in rcases if c["kind"] == "par"), rcases[0])
                ctx.violation({"kind": "data-race", "clause": "the race detector reports a data race during concurrent sh calls",
                               "report": first[first.index("WARNING: DATA RACE"):][:1500]}, case=pc["_abstract"])
            for c, a in zip(rcases, ranswers):
                bad = oracle(c, a)
                if bad and nviol < 8:
                    nviol += 1
                    ctx.violation({"kind": "oracle", "clause": bad[0], "all": bad[:6], "under": "-race"}, case=c["_abstract"], extra={"implementation": a})

    # coverage
    cov = ctx.coverage
    seen, nontriv = set(), 0
    kinds = {"setenv": 0, "fs": 0, "mk": 0, "call": 0, "direct": 0, "par": 0}
    byfn, cmdforms = {}, {}
    feat = {"call_without_extra": 0, "call_after_setenv": 0, "repeated_call_of_one_closure": 0, "baked_with_spare_capacity": 0,
            "extra_aliases_baked_array": 0, "offset_slices": 0, "closures_sharing_an_array": 0, "dollar_in_baked": 0, "env_map_overrides": 0,
            "par_repetitions": 0, "closure_calls_with_empty_argument_list": 0, "first_calls_of_a_closure": 0, "calls_with_shell_special_arguments": 0, "env_maps_with_odd_entries": 0, "env_maps_refused_by_os_exec": 0, "failing_calls": 0, "output_family_call_after_failed_call_with_output": 0,
            "runcmd_called_under_other_verbose_than_made": 0, "calls_not_started": 0,
            "closure_called_again_with_another_program_named": 0, "closure_started_then_not_or_vice_versa": 0, "calls_in_verbose_mode": 0, "verbose_direct_calls_without_dollar": 0, "concurrent_slow_expansion_cases": 0}
    par_baked, par_goroutines, par_targets, par_shapes = {}, {}, {}, {}
    len_outcome, children, fsacts = {}, {}, {}
    overlap = {"repetitions": 0, "all_children_alive_together": 0, "max_wait_ms": 0}
    for c, a in zip(cases, answers):
        for ob in (a.get("obs") or []):
            for rp in ob.get("reps") or []:
                overlap["repetitions"] += 1
                overlap["all_children_alive_together"] += (not rp.get("stalled")) and rp["alive"] == len(rp["outs"])
                overlap["max_wait_ms"] = max(overlap["max_wait_ms"], rp["waited_ms"])
    for c, a in zip(cases, answers):
        h = case_hash(c["_abstract"])
        ncalls = 0
        calls_of = {}
        setenv_seen = False
        verbose = c["env"].get(VERBOSE, "")
        allcls = all_closures(c)
        mk_verbose = [None] * len(c.get("closures") or [])     # verbose setting under which each closure was made
        last_prog = {}                                         # closure -> program its command word named at its previous call
        failed_with_output = False
        for o, ob in zip(c["ops"], (a.get("obs") or [])):
            kinds[o["op"]] += 1
            if o["op"] == "fs":
                fsacts[o["act"]] = fsacts.get(o["act"], 0) + 1
            if o["op"] in ("call", "direct") and ob.get("argv"):
                feat["calls_with_shell_special_arguments"] += any(any(ch in x for ch in "*?[{~`;|>&'\"\\") for x in ob["argv"][0][1:])
            if o["op"] == "mk":
                mk_verbose.append(verbose in TRUE_SPELLINGS)
            if o["op"] in ("call", "direct"):
                outfam = (o["op"] == "call" and allcls[o["c"]]["kind"] == "out") or (o["op"] == "direct" and o["fn"] in ("Output", "OutputWith"))
                feat["output_family_call_after_failed_call_with_output"] += outfam and failed_with_output
                if ob.get("status") and ob.get("out"):
                    failed_with_output = True
                feat["failing_calls"] += bool(ob.get("status"))
                nargs = (len(ob["argv"][0]) - 1) if ob.get("argv") else (len(contents(c["arrays"], o["args"])) if o["op"] == "direct" else
                                                                       len(contents(c["arrays"], allcls[o["c"]]["baked"])) + len(contents(c["arrays"], o["extra"])))
                outcome = ("not-startable" if not ob.get("argv") else "killed-by-signal" if "--kill" in ob["argv"][0][1:] else
                           "exit-nonzero" if ob.get("status") else "success")
                bucket = "%s/%s args" % (o["op"], "0-5" if nargs <= 5 else "6-16" if nargs <= 16 else "17-41")
                len_outcome.setdefault(bucket, {}).setdefault(outcome, 0)
                len_outcome[bucket][outcome] += 1
                children[str(len(ob.get("argv") or []))] = children.get(str(len(ob.get("argv") or [])), 0) + 1
                feat["calls_not_started"] += not ob.get("argv")
                if o["op"] == "call":
                    prog = (list((ob.get("lookups") or {}).values()) + [None])[0]
                    if o["c"] in last_prog and last_prog[o["c"]] != prog:
                        feat["closure_called_again_with_another_program_named"] += 1
                        feat["closure_started_then_not_or_vice_versa"] += (prog is None) != (last_prog[o["c"]] is None)
                    last_prog[o["c"]] = prog
            if o["op"] == "setenv":
                setenv_seen = True
                if o["k"] == VERBOSE:
                    verbose = o["v"]
            is_verbose = verbose in TRUE_SPELLINGS
            if o["op"] in ("call", "direct"):
                feat["calls_in_verbose_mode"] += is_verbose
            if o["op"] == "call":
                ncalls += 1
                calls_of[o["c"]] = calls_of.get(o["c"], 0) + 1
                cl = allcls[o["c"]]
                feat["runcmd_called_under_other_verbose_than_made"] += (cl["kind"] == "run" and mk_verbose[o["c"]] is not None and mk_verbose[o["c"]] != is_verbose)
                feat["call_without_extra"] += o["extra"]["len"] == 0
                feat["closure_calls_with_empty_argument_list"] += o["extra"]["len"] == 0 and (cl["baked"].get("nil") or cl["baked"]["len"] == 0)
                feat["first_calls_of_a_closure"] += calls_of[o["c"]] == 1
                feat["call_after_setenv"] += setenv_seen
                feat["baked_with_spare_capacity"] += cl["baked"]["cap"] > cl["baked"]["len"]
                feat["extra_aliases_baked_array"] += (not o["extra"]["nil"] and not cl["baked"]["nil"] and o["extra"]["id"] == cl["baked"]["id"])
                feat["offset_slices"] += cl["baked"]["off"] > 0 or o["extra"]["off"] > 0
                feat["dollar_in_baked"] += any("$" in x for x in contents(c["arrays"], cl["baked"]))
                acmd = all_closures(c["_abstract"])[o["c"]]["cmd"]
                cmdforms[acmd] = cmdforms.get(acmd, 0) + 1
            if o["op"] == "direct":
                ncalls += 1
                byfn[o["fn"]] = byfn.get(o["fn"], 0) + 1
                feat["env_map_overrides"] += bool(o.get("emap")) and o["fn"] in USES_MAP
                feat["env_maps_with_odd_entries"] += bool(o.get("emap_odd"))
                feat["env_maps_refused_by_os_exec"] += emap_refused(o)
                cs = contents(c["arrays"], o["args"])
                feat["verbose_direct_calls_without_dollar"] += is_verbose and len(cs) > 0 and not any("$" in x for x in cs)
            if o["op"] == "par":
                feat["par_repetitions"] += o["reps"]
                par_shapes[o.get("shape", "distinct")] = par_shapes.get(o.get("shape", "distinct"), 0) + 1
                tgt = "mixed closure + mapped direct" if o.get("calls") else o.get("parfn") or ("OutCmd" if c["closures"][o["c"]]["kind"] == "out" else "RunCmd")
                par_targets[tgt] = par_targets.get(tgt, 0) + 1
                nb = c["closures"][o["c"]]["baked"]["len"]
                par_baked[nb] = par_baked.get(nb, 0) + 1
                ng = len(par_calls(o))
                par_goroutines[ng] = par_goroutines.get(ng, 0) + 1
                feat["concurrent_slow_expansion_cases"] += any(SLOW_REF * 20 in x for x in contents(c["arrays"], c["closures"][o["c"]]["baked"]))
        feat["repeated_call_of_one_closure"] += any(v >= 2 for v in calls_of.values())
        ids = [cl["baked"]["id"] for cl in allcls if not cl["baked"]["nil"]]
        feat["closures_sharing_an_array"] += len(ids) != len(set(ids))
        if h not in seen:
            seen.add(h)
            if c["kind"] == "par" or (ncalls >= 2 and any("$" in x for arr_ in c["arrays"] for x in arr_)):
                nontriv += 1
    cov["evaluations"] = len(items) + len(bigitems) + len(pitems)
    cov["very_long_calls"] = {"histories": len(bigitems), "arguments": sorted(len(c["arrays"][0]) for c, _ in bighist if c.get("big")),
                              "bytes": sorted(sum(len(x) + 1 for x in c["arrays"][0]) for c, _ in bighist if c.get("big"))}
    cov["distinct_nontrivial"] = nontriv
    cov["rule"] = ("histories: 1-5 arrays of 0-6 cells ($V, ${V}, mixed and literal words in every cell, spare cells included), 1-3 closures "
                   "(RunCmd/OutCmd; the command word literal, $VAR for the directory / the program name / the whole path, or a bare name resolved through PATH - with "
                   "PATH, those variables and the programs themselves (removed, restored, chmod) changing between calls; baked slice of random offset/len/cap, often spare capacity, sometimes two closures on one array), "
                   "2-12 operations setenv (V..Y and MAGEFILE_VERBOSE in ParseBool spellings) | mk (closure creation at any point) | closure call (extra nil or any slice, may alias the baked array) | the seven direct functions with env maps; "
                   "argument words include every character a shell would treat specially (* ? [a-z] {a,b} ~ backquotes $(..) ; | > & quotes backslashes leading - =); "
                   "the WORKING DIRECTORY is part of the state: three directories populated with files such patterns match (a.txt, b.txt, v1, -rf, k=v, ...), "
                   "chdir and creation/removal of such files between calls (12% of the histories are dedicated to this); "
                   "arrays of 0-41 cells (a quarter around and beyond 16/32); 40% of the arrays hold no $ reference at all; 0-20% of the cells of an array script the child "
                   "(--exit=N: print then fail, --kill: print then die by SIGKILL, --quiet); the number of children started by a call is the length of its argv list; "
                   "observed per call: argv, text handed back, bytes on os.Stdout (fresh file per call), exit status, all arrays, env map; "
                   "concurrent cases: IDENTICAL call-time arguments as the main shape (every call must start its own child: the per-case journal has one line per child), "
                   "staggered identical calls with a Setenv of a referenced variable between their starts while the earlier children are held, and calls told apart by argument; "
                   "2-6 goroutines released together on one closure with 1,2,3,4,8,16,17,19,21 or 33 baked-in arguments (caller slice with 0-2 spare cells), "
                   "1-2 extra arguments each, baked-in arguments that are slow to expand (thousands of ${Z}) so the calls overlap inside Exec, gate-held children, the gate opens only when ALL children of the case are alive together (overlap is an observable, bound 15 s), "
                   "a quarter of the concurrent cases call sh.Output/sh.Run directly (reference behaviour); "
                   "each pair of calls of each repetition is one model evaluation; "
                   "distinct by hash of the abstract case; non-trivial = concurrent case, or >=2 calls and a $ reference in some cell")
    cov["histories"] = len(hist)
    cov["concurrent_cases"] = len(pars)
    cov["operations"] = kinds
    cov["by_function"] = byfn
    cov["concurrent_baked_counts"] = {str(k): v for k, v in sorted(par_baked.items())}
    cov["calls_by_length_and_outcome"] = len_outcome
    cov["children_started_per_call"] = children
    cov["knobs_discovered"] = knobs
    cov["cases_run_under_a_knob"] = sum(1 for c in cases if c.get("knobs"))
    cov["file_system_operations"] = fsacts
    cov["concurrent_targets"] = par_targets
    cov["concurrent_shapes"] = par_shapes
    cov["concurrent_overlap"] = overlap
    cov["concurrent_goroutines"] = {str(k): v for k, v in sorted(par_goroutines.items())}
    cov["closure_cmd_forms"] = cmdforms
    cov["features"] = {k: int(v) for k, v in feat.items()}
    cov["model_mismatches"] = len(mism) + len(pmism)
    cov["traces_validated_against_impl"] = len(items) + len(pitems) - len(mism) - len(pmism)
    cov["race_detector"] = race
    for c, a in list(zip(cases, answers))[:2] + [x for x in zip(cases, answers) if x[0]["kind"] == "par"][:1]:
        ctx.sample({"case": c["_abstract"], "observed": a["obs"][:3]})
