"""C17 - target.Path/Glob/Dir report exactly when a rebuild is needed.

Theorems: coq/Props/C17.v over Model/Newer.v.  Correspondence: random trees built on disk with
nanosecond mtimes (equal stamps and +-1ns differences frequent), all eight functions called
in-process (harness/unitrun op "target"), model evaluated on the same trees by coqc.
Oracle: a direct Python reading of the property sentence over the same tree."""
import json, os, re
from vlib import *

BASE = 1600000000 * 10**9
TIMES = [BASE, BASE + 1, BASE + 2, BASE - 1, BASE + 10**9, BASE - 10**9, BASE + 5, BASE + 1000]
NAMES = ["a", "b", "B", "a.txt", "a-b", "d1", "d2", "src", "out", "x.go", "y.go", "z", "lib", "c",
         "app", "app.go", "application", "build", "build-tools", "out.d",
         "out1.bin", "notes.txt", "notes.txt ", " lead", "drafts ", "q?", "gen", "gen-1.src", "gen[1].src", "-1.src", "[1].src", "release notes.md"]      # glob metacharacters and surrounding blanks are ordinary name characters      # names that are string prefixes of their siblings


def gen_tree(rng, depth, maxdepth):
    """nested dict: ('f', mtime) or ('d', mtime, {name: node})"""
    if depth >= maxdepth or rng.random() < 0.45:
        return ("f", rng.choice(TIMES))
    n = rng.choice([0, 1, 2, 2, 3, 4])
    names = rng.sample(NAMES, n)
    return ("d", rng.choice(TIMES), {nm: gen_tree(rng, depth + 1, maxdepth) for nm in names})


def build(path, node):
    if node[0] == "f":
        open(path, "w").close()
    else:
        os.makedirs(path, exist_ok=True)
        for nm, ch in node[2].items():
            build(os.path.join(path, nm), ch)
    os.utime(path, ns=(node[1], node[1]))


def tree_term(node):
    if node[0] == "f":
        return "(File %s)" % coq_Z(node[1])
    es = sorted(node[2].items(), key=lambda kv: kv[0].encode())
    return "(Dir %s %s)" % (coq_Z(node[1]), coq_list(["(%s, %s)" % (coq_str(n), tree_term(c)) for n, c in es]))


def lookup(node, comps):
    for c in comps:
        if node[0] != "d" or c not in node[2]:
            return None
        node = node[2][c]
    return node


def through_file(node, path):
    """ENOTDIR: the path goes through (or puts a trailing slash on) a regular file"""
    cs = comps(path)
    for i, c in enumerate(cs):
        if node[0] != "d":
            return True
        if c not in node[2]:
            return False
        node = node[2][c]
    return node[0] == "f" and path.endswith("/")


def all_paths(node, prefix=""):
    out = [prefix] if prefix else []
    if node[0] == "d":
        for n, c in node[2].items():
            out += all_paths(c, (prefix + "/" + n) if prefix else n)
    return out


def nodes(node):
    out = [node[1]]
    if node[0] == "d":
        for c in node[2].values():
            out += nodes(c)
    return out


def py_expand(s, env):
    # only the simple forms the generator emits: $NAME and ${NAME}
    return re.sub(r"\$\{(\w+)\}|\$(\w+)", lambda m: env.get(m.group(1) or m.group(2), ""), s)


def comps(p):
    return [c for c in p.split("/") if c not in ("", ".")]


def oracle(root, env, fn, dst, sources, target, globs):
    """the property sentence. returns 'yes'/'no'/'error' (or None when it does not decide)"""
    def st(p, expand=True):
        q = py_expand(p, env) if expand else p
        if q == "" or through_file(root, q):
            return None
        return lookup(root, comps(q))
    if fn in ("Path", "Glob", "Dir"):
        d = st(dst)
        if through_file(root, py_expand(dst, env)):
            return None      # ENOTDIR on the destination: the property sentence does not decide (the code reports the stat error)
        if d is None:
            return "yes"
        t = d[1]
        if fn == "Dir" and d[0] == "d":
            t = max(nodes(d))
    else:
        t = target
    # expand sources into the list of things compared, in order, with errors in place
    seq = []   # entries: ('err',) or ('times', [..])
    for s in sources:
        if fn in ("Glob", "GlobNewer"):
            m = globs.get(s)
            if m is None or len(m) == 0:
                seq.append(("err",))
                continue
            for f in m:
                n = st(f)
                seq.append(("err",) if n is None else ("times", [n[1]]))
        else:
            n = st(s)
            if n is None:
                seq.append(("err",))
            elif fn in ("Dir", "DirNewer"):
                seq.append(("times", nodes(n)))
            else:
                seq.append(("times", [n[1]]))
    for e in seq:
        if e[0] == "err":
            return "error"
        if any(m > t for m in e[1]):
            return "yes"
    return "no"


FNS = ["Path", "Glob", "Dir", "PathNewer", "GlobNewer", "DirNewer", "NewestModTime", "OldestModTime"]
FNSEL = {"Path": "FPath", "Glob": "FGlob", "Dir": "FDir", "PathNewer": "FPathNewer", "GlobNewer": "FGlobNewer",
         "DirNewer": "FDirNewer", "NewestModTime": "FNewest", "OldestModTime": "FOldest"}


def gen_case(rng, root, i):
    paths = all_paths(root) or ["a"]
    dirs = [p for p in paths if lookup(root, comps(p))[0] == "d"]
    # $V names a real directory (or file) of this tree more often than not, so that expanded
    # destinations and sources of every kind (missing, file, directory) are exercised
    v = rng.choice(["d1", "src", "a", "nosuch"])
    r = rng.random()
    if dirs and r < 0.45:
        v = rng.choice(dirs)
    elif r < 0.65:
        v = rng.choice(paths)
    env = {"V": v, "W": rng.choice(["b", "x.go", ""])}
    if dirs and rng.random() < 0.3:
        # a directory-valued variable ENDING in the separator, to be glued to further name characters (the make idiom $(OUTDIR)app):
        # the value is substituted verbatim
        dd = rng.choice(dirs)
        kids = [p[len(dd) + 1:] for p in paths if p.startswith(dd + "/") and "/" not in p[len(dd) + 1:]]
        env["S"] = dd + "/"
        env["K"] = rng.choice(kids) if kids else "nosuch"
    fn = rng.choice(FNS)
    def pick_src():
        r = rng.random()
        if r < 0.70:
            return rng.choice(paths)
        if r < 0.80:
            return rng.choice(["missing", "d1/nope", "zz/y", "", " ", "$UNSETVAR", "notes.txt  ", "out[1].bin"])
        if r < 0.90:
            return rng.choice(["$V", "${V}", "$V/$W", "./$V"] + (["${S}${K}", "${S}$K", "$S$K"] if "S" in env else []))
        return "./" + rng.choice(paths)
    if fn in ("Glob", "GlobNewer"):
        def pick_glob():
            r = rng.random()
            if r < 0.4:
                return rng.choice(["*", "*/*", "d?", "*.go", "*/*.go", "[ab]*", "src/*", "d1/*"])
            if r < 0.5:
                return rng.choice(["nomatch*", "[", "zz/*"])
            if r < 0.7:
                # backslash ESCAPES (filepath.Match: '\\c' matches the character c): the literal spelling of a name with
                # metacharacters, and needless escapes of ordinary characters - with and without a separator in the pattern
                q = rng.choice(paths)
                if rng.random() < 0.6:
                    q = q.rsplit("/", 1)[-1] if rng.random() < 0.7 else q
                special = "".join(("\\" + ch) if (ch in "*?[]\\-" or (ch not in "/" and rng.random() < 0.25)) else ch for ch in q)
                return special
            return rng.choice(paths)
        sources = [pick_glob() for _ in range(rng.choice([1, 1, 2, 3]))]
    else:
        sources = [pick_src() for _ in range(rng.choice([0, 1, 1, 2, 3, 4]))]
    if fn in ("Dir", "DirNewer") and rng.random() < 0.35:
        files = [p for p in paths if "/" in p]
        if files:
            f = rng.choice(files)
            parent = f.rsplit("/", 1)[0]
            sources = rng.choice([[f, parent], [parent, f], [f, parent, f], [f, "./" + parent]])
    if fn in ("NewestModTime", "OldestModTime"):
        sources = [s for s in sources if "$" not in s] or [rng.choice(paths)]
    r = rng.random()
    dst = rng.choice(paths) if r < 0.65 else (rng.choice(["missing-dst", "d1/none", "out[1].bin", "a*", "?", "notes.txt  ", "[ab]"]) if r < 0.78 else rng.choice(["$V", "${V}", "./$V", "$V/", "$W"] + (["${S}${K}", "$S$K", "${S}$K"] * 2 if "S" in env else [])))
    if fn in ("Path", "Glob", "Dir") and rng.random() < 0.3:
        # the destination lies INSIDE a source that is walked / matched, next to siblings whose names extend its name
        # (app, app.go, application/): everything beneath the source counts, the destination's namesakes included
        sib = [(p, q) for p in paths for q in paths if p != q and q.startswith(p) and q.rsplit("/", 1)[0] == p.rsplit("/", 1)[0] and "/" in p + "/"]
        sib = [(p, q) for p, q in sib if p.count("/") == q.count("/")]
        if sib:
            p, q = rng.choice(sib)
            parent = p.rsplit("/", 1)[0] if "/" in p else "."
            dst = p
            if fn == "Dir":
                sources = rng.choice([[parent], ["."], [parent, q], ["./" + parent if parent != "." else "."]])
            elif fn == "Path":
                sources = rng.choice([[q], [p, q], [q, p]])
            else:
                sources = rng.choice([[(parent + "/" if parent != "." else "") + "*"], [q]])
    target = rng.choice(TIMES) + rng.choice([0, 0, 1, -1])
    return {"env": env, "fn": fn, "dst": dst, "sources": sources, "target": target}


def walk_order(node, prefix):
    """the entries beneath (and including) prefix in filepath.Walk order: pre-order, names in byte order"""
    out = [prefix]
    if node[0] == "d":
        for nm in sorted(node[2], key=lambda x: x.encode()):
            out += walk_order(node[2][nm], prefix + "/" + nm)
    return out


def set_mtime(node, comps_, t):
    """a copy of the tree with the entry at comps_ stamped t"""
    if not comps_:
        return ("f", t) if node[0] == "f" else ("d", t, node[2])
    kids = dict(node[2])
    kids[comps_[0]] = set_mtime(kids[comps_[0]], comps_[1:], t)
    return ("d", node[1], kids)


def big_cases(ctx, rng, trees, reqs, ti):
    """a LARGE tree (about 2100 entries) in which exactly one entry decides, at a sample of walk positions (powers of two,
    multiples of 1000 and 1024 and their neighbours, the ends, random ones): everything beneath a source counts, wherever
    it sits.  Judged by the oracle only (the tree is too large to print into a Coq case file a hundred times)."""
    OLD, NEW, OLDER = BASE - 10**9, BASE + 10**9, BASE - 2 * 10**9
    big = ("d", OLD, {"pkg%02d" % i: ("d", OLD, {"src": ("d", OLD, {"f%02d.go" % j: ("f", OLD) for j in range(46)})}) for i in range(44)})
    root = ("d", OLD, {"big": big, "out": ("f", BASE), "outdir": ("d", BASE, {"o": ("f", BASE)})})
    d = os.path.join(ctx.tmp, "tbig%d" % ti)
    build(d, root)
    order = walk_order(big, "big")
    n = len(order)
    pos = {1, 2, 3, n - 1, n, 1000, 2000} | {2**k + dlt for k in range(5, 12) for dlt in (-1, 0, 1)} | {1024 * k for k in (1, 2)} | {rng.randrange(1, n + 1) for _ in range(12 if ctx.quick else 200)}
    prev = None
    for p in sorted(x for x in pos if 1 <= x <= n):
        path = order[p - 1]
        for stamp, calls in [(NEW, [("DirNewer", "", ["big"]), ("Dir", "out", ["big"]), ("Dir", "outdir", ["big", "out"]), ("NewestModTime", "", ["big"]), ("Dir", "big", ["out"])]),
                             (OLDER, [("OldestModTime", "", ["big", "out"])])]:
            t = set_mtime(root, comps(path), stamp)
            trees.append(t)
            touch = ([{"path": prev, "mtime": OLD}] if prev and prev != path else []) + [{"path": path, "mtime": stamp}]
            prev = path
            for k, (fn, dst, srcs) in enumerate(calls):
                reqs.append({"env": {"V": "big", "W": ""}, "fn": fn, "dst": dst, "sources": srcs, "target": BASE, "tree": len(trees) - 1, "root": d,
                             "touch": touch if k == 0 else [], "oracle_only": True, "position": p})
    ctx.coverage["large_tree_entries"] = n
    ctx.coverage["large_tree_deciding_positions"] = len(pos)


def run(ctx):
    ctx.prove(["Props/C17.vo", "Run/eval_C17.vo"])
    ctx.trusted_base += ["harness/unitrun op target (in-process calls of package target)",
                         "checks/c17.py (tree generator, disk builder, Coq printer, oracle)",
                         "os.Stat/filepath.Walk/filepath.Glob/os.ExpandEnv behave as Model/Newer.v and Base/Expand.v say (filepath.Glob's actual results are fed to the model)"]
    binp = go_build_harness(ctx, "unitrun")
    rng = ctx.rng
    ntrees = 150 if ctx.quick else 3000
    per = 10
    trees = []
    reqs = []
    for ti in range(ntrees):
        root = ("d", rng.choice(TIMES), {nm: gen_tree(rng, 1, rng.choice([2, 3, 4, 5])) for nm in rng.sample(NAMES, rng.choice([1, 2, 3, 4, 5]))})
        if ti % 50 == 7:
            # a very deep tree (150 levels, far below PATH_MAX): the deciding entry sits at the bottom; everything beneath a source counts
            node = ("f", BASE + 10**9)
            for lvl in range(150):
                node = ("d", BASE - 10**9, {"n": node})
            root[2]["deep"] = node
            root[2].setdefault("out", ("f", BASE))
        wide_i = None
        if ti % 15 == 4:
            # a WIDE directory: a pattern with 9..40 matches of which exactly one (at every sorted position in turn) is newer
            n = rng.choice([9, 10, 12, 16, 17, 33, 40])
            wide_i = (ti // 15 + 3) % n if rng.random() < 0.7 else rng.randrange(n)
            root[2]["wide"] = ("d", BASE - 10**9, {"f%02d" % k: ("f", BASE + 10**9 if k == wide_i else BASE - 10**9) for k in range(n)})
            root[2]["out"] = ("f", BASE)
        d = os.path.join(ctx.tmp, "t%d" % ti)
        build(d, root)
        trees.append(root)
        tix = len(trees) - 1
        if wide_i is not None:
            for fn, dst, srcs in [("Glob", "out", ["wide/*"]), ("GlobNewer", "", ["wide/*"]), ("Glob", "out", ["wide/f*", "out"]), ("Glob", "out", ["wide/f?" + "?"]),
                                  ("Dir", "out", ["wide"]), ("DirNewer", "", ["wide"]), ("Path", "out", sorted(root[2]["wide"][2]) and ["wide/" + k for k in sorted(root[2]["wide"][2])])]:
                reqs.append({"env": {"V": "wide", "W": ""}, "fn": fn, "dst": dst, "sources": srcs, "target": BASE, "tree": tix, "root": d})
        if ti == 11 or (not ctx.quick and ti % 400 == 11):
            big_cases(ctx, rng, trees, reqs, ti)
        if "deep" in root[2]:
            for fn, dst, srcs in [("Dir", "out", ["deep"]), ("Dir", "out", ["."]), ("DirNewer", "out", ["deep"]), ("NewestModTime", "", ["deep"]),
                                  ("OldestModTime", "", ["deep", "out"]), ("Dir", "deep", ["out"]), ("Path", "out", ["deep"]), ("Glob", "out", ["dee*"])]:
                reqs.append({"env": {"V": "deep", "W": ""}, "fn": fn, "dst": dst, "sources": srcs, "target": BASE, "tree": tix, "root": d})
        for j in range(per):
            c = gen_case(rng, root, j)
            c["tree"] = tix
            c["root"] = d
            reqs.append(c)
            if any("$" in s for s in c["sources"]) and c["fn"] not in ("Glob", "GlobNewer") and rng.random() < 0.6:
                # the same caller slice again after the environment changed: the answer is about the NEW expansion
                paths = all_paths(root) or ["a"]
                c2 = dict(c, env=dict(c["env"], V=rng.choice(paths), W=rng.choice(["b", "x.go", ""])), reuse=True)
                reqs.append(c2)
    if ctx.replay and ctx.replay.get("case"):
        c = ctx.replay["case"]
        root = c["tree_node"]
        root = json.loads(json.dumps(root))
        def fix(n):
            return ("f", n[1]) if n[0] == "f" else ("d", n[1], {k: fix(v) for k, v in n[2].items()})
        root = fix(root)
        d = os.path.join(ctx.tmp, "replay")
        build(d, root)
        trees.append(root)
        c = dict(c, tree=len(trees) - 1, root=d)
        reqs.insert(0, c)
    inp = "\n".join(json.dumps({"op": "target", "raw": dict({k: c[k] for k in ("root", "env", "fn", "dst", "sources", "target")}, reuse=bool(c.get("reuse")), touch=c.get("touch") or [])}) for c in reqs) + "\n"
    rc, out, err = sh([binp], input=inp.encode(), timeout=900)
    if rc != 0:
        raise BuildError("unitrun failed: " + err[-2000:])
    answers = [json.loads(l) for l in out.splitlines() if l.strip()]
    assert len(answers) == len(reqs)
    items = []
    item_req = []
    seen = set()
    nontriv = 0
    dist = {"yes": 0, "no": 0, "error": 0, "time": 0}
    byfn = {}
    for ri, (c, a) in enumerate(zip(reqs, answers)):
        root = trees[c["tree"]]
        fn = c["fn"]
        byfn[fn] = byfn.get(fn, 0) + 1
        globs = a.get("globs") or {}
        if fn in ("NewestModTime", "OldestModTime"):
            dist["time"] += 1
            # oracle: max / min over all nodes beneath the targets, error at the first missing one
            ns, e = [], False
            for s in c["sources"]:
                n = None if (s == "" or through_file(root, s)) else lookup(root, comps(s))
                if n is None:
                    e = True
                    break
                ns += nodes(n)
            bad = None
            if bool(a["err"]) != e:
                bad = "error=%r, expected %r" % (a["err"], e)
            elif not e and ns and a["time"] != (max(ns) if fn == "NewestModTime" else min(ns)):
                bad = "%s returned %d, expected %d" % (fn, a["time"], max(ns) if fn == "NewestModTime" else min(ns))
            obs = "(OTime %s %s)" % (coq_opt(coq_Z(a["time"])) if (not a["err"] and ns) else "None", coq_bool(bool(a["err"])))
        else:
            got = "error" if a["err"] else ("yes" if a["ans"] else "no")
            dist[got] += 1
            want = oracle(root, c["env"], fn, c["dst"], c["sources"], c["target"], globs)
            bad = None if (want is None or got == want) else "%s(%s; %s) answered %s, the property sentence says %s" % (fn, c["dst"], c["sources"], got, want)
            obs = "(OAns %s)" % {"yes": "Yes", "no": "No", "error": "Error"}[got]
        if bad and c.get("oracle_only"):
            ctx.violation({"kind": "oracle", "clause": bad + " (large tree: the deciding entry is number %d in walk order)" % c["position"]},
                          case=dict({k: c[k] for k in ("env", "fn", "dst", "sources", "target", "position")}, tree="checks/c17.py big_cases"))
        elif bad:
            ctx.violation({"kind": "oracle", "clause": bad}, case=dict({k: c[k] for k in ("env", "fn", "dst", "sources", "target")}, tree_node=root))
        if c.get("oracle_only"):
            continue
        h = case_hash([c["tree"], fn, c["dst"], c["sources"], c["target"], c["env"]])
        if h not in seen:
            seen.add(h)
            if c["sources"]:
                nontriv += 1
        gl = coq_list(["(%s, %s)" % (coq_str(g), "None" if m is None else "(Some %s)" % coq_list([coq_str(x) for x in m])) for g, m in globs.items()])
        envl = coq_list(["(%s, %s)" % (coq_str(k), coq_str(v)) for k, v in c["env"].items()])
        item_req.append(ri)
        items.append("{| c_root := %s; c_env := %s; c_globs := %s; c_fn := %s; c_dst := %s; c_srcs := %s; c_target := %s; c_obs := %s |}" % (
            tree_term(root), envl, gl, FNSEL[fn], coq_str(c["dst"]), coq_list([coq_str(s) for s in c["sources"]]), coq_Z(4 * 10**18 if fn == "OldestModTime" else c["target"]), obs))
    header = "From Mage Require Import Base.Strs Base.Expand Model.Newer Run.eval_C17.\n"
    mism = ctx.coq_eval_shards("cases_C17", header, items, per_shard=max(50, (len(items) + NCPU - 1) // NCPU))
    if mism and not ctx.violations:
        for idx, body in mism[:3]:
            idx = item_req[idx]
            c = reqs[idx]
            ctx.violation({"kind": "model-vs-implementation", "correspondence": "Run/eval_C17.mismatches", "model_says": body[:300],
                           "implementation": answers[idx]}, case=dict({k: c[k] for k in ("env", "fn", "dst", "sources", "target")}, tree_node=trees[c["tree"]]),
                          found_input=False)
    cov = ctx.coverage
    cov["evaluations"] = len(reqs)
    cov["distinct_nontrivial"] = nontriv
    cov["rule"] = ("random trees (depth <= 5, empty directories, mtimes from a pool with equal stamps and +-1ns) built on disk; per tree 10 calls over the eight "
                   "functions with destinations missing/file/directory, source lists with missing members in any position, $VAR paths, glob patterns; "
                   "distinct by hash; non-trivial = at least one source")
    cov["trees"] = ntrees
    cov["answers"] = dist
    cov["by_function"] = byfn
    cov["model_mismatches"] = len(mism)
    cov["traces_validated_against_impl"] = len(reqs) - len(mism)
    for c, a in list(zip(reqs, answers))[:3]:
        ctx.sample({"tree": tree_term(trees[c["tree"]])[:400], "fn": c["fn"], "dst": c["dst"], "sources": c["sources"], "env": c["env"], "answer": a})
