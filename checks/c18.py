"""C18 - the generated main program is a deterministic function of the magefiles.

Theorems: coq/Props/C18.v over Model/Gen.v (Permutation invariance through "sorting is canonical",
unique names by a pigeonhole argument, the pre-repair code refuted).

Correspondence: generated projects with COMPETING entries (named imports of packages with equal
package names, root imports with equal package names spread over several magefiles, one path
imported twice with two aliases, a path imported both named and as root, many aliases, many files,
namespaces, Default/Aliases that go through a package name).  Per project
  (a) `mage -keep -l` in fresh processes, in the project directory and in a copy created in the
      reverse file order under another directory name (same module path): bytes of
      mage_output_file.go;
  (b) harness/unitrun op "primary": parse.PrimaryPackage + the two sort.Sort calls of mage/main.go
      + mage.GenerateMainfile, repeated in-process (fresh maps, Go randomises every `range`) in
      several separate processes: every distinct projection is reported.
Oracle (independent of the model): all generated files byte-identical, all projections equal.
Model: Coq evaluates Model/Gen.template_data on the abstract project (with the package names and
function lists go list / Package() reported) and must predict the projection - the
UniqueName <-> Path association, all orders - and what is read back from the generated file."""
import json, os, re, hashlib, shutil
from vlib import *
import projlib

MAINFILE = "mage_output_file.go"
FILE_POOL = ["alpha.go", "Beta.go", "gamma.go", "delta9.go", "Zeta.go", "eta_x.go", "m1.go", "m10.go", "m2.go",
             "theta.go", "B.go", "a.go", "kappa.go", "Omega.go"]
DIR_POOL = ["a", "b", "c", "k", "m", "q", "z", "Za", "b2", "d", "e1", "f", "G", "h", "x", "y0", "w", "n"]
PKG_POOL = ["tools", "zeta", "alpha", "build", "util"]
FUNC_POOL = ["Build", "Lint", "Test", "Deploy", "Clean", "Gen", "Fmt", "Vet", "Pack", "Push", "Sync", "Up", "Down", "Docs",
             "Bench", "Run9", "Check", "Install", "Release", "Tidy", "Cover", "Proto", "Image", "Stage", "Smoke", "Nightly",
             "Audit", "Bump", "Tag", "Zip", "Ship", "Plan", "Apply", "Seed", "Dump", "Load"]
NS_POOL = ["Ops", "Db", "NS", "Web"]
ALIAS_POOL = ["ta", "tb", "x1", "zz", "lib", "ci", "aa", "t9", "qa", "bb", "cc", "u2", "vv", "w3", "yy", "o7"]      # mage:import aliases (the tag is lower-cased by mage)
KEY_POOL = ["al0", "AL1", "zq2", "Bq3", "k-4", "K_5", "mm6", "Zz7", "a8", "Y9", "w10", "W11", "e12", "E13", "dd14", "Dd15", "r16", "R17"]


DOC_POOL = [["Targets that build the frontend."], ["Targets that deploy to staging.", "Use with care."], ["Release helpers."],
            ["Runs \"everything\" twice."], ["Database tasks:", "", "migrate, seed, dump."], ["CI entry points"]]


def bsorted(l, key=lambda x: x):
    return sorted(l, key=lambda x: key(x).encode())


# ---------------------------------------------------------------- abstract project
def gen_pkg(rng, name, fnames, with_ns):
    """an imported package: functions (name, variant) and at most one namespace"""
    # one signature per function name in all imported packages: which package `tools.Build` denotes differs between
    # the Go compiler (the holder file's own import) and mage (the first import of that package name)
    p = {"name": name, "funcs": [[f, sum(f.encode()) % 3] for f in fnames], "ns": []}
    if with_ns:
        ns = rng.choice(NS_POOL)
        p["ns"] = [[ns, [[m, rng.randrange(2)] for m in rng.sample(["Up", "Down", "Migrate", "Reset"], rng.choice([1, 2]))]]]
    return p


def gen_project(rng, idx, shape=None):
    shape = shape or rng.choice(["named", "named", "roots", "mixed", "mixed", "mixed", "big"])
    nfiles = rng.choice([2, 3, 6, 7, 8]) if shape != "big" else rng.choice([9, 10, 12])
    fnames = rng.sample(FILE_POOL, nfiles)
    unique_funcs = rng.sample(FUNC_POOL, len(FUNC_POOL))      # names that must be globally distinct: locals and root imports
    take = lambda n: [unique_funcs.pop() for _ in range(n)]
    dirs = rng.sample(DIR_POOL, len(DIR_POOL))
    aliases = rng.sample(ALIAS_POOL, len(ALIAS_POOL))
    pkgs = {}            # relative path -> package
    specs = {f: [] for f in fnames}

    def place(path, alias, avoid=()):
        cands = [f for f in fnames if all(s["path"] != path for s in specs[f]) and f not in avoid]
        if not cands:
            return None
        f = rng.choice(cands)
        specs[f].append({"path": path, "alias": alias})
        return f

    n_named_groups = {"named": rng.choice([1, 2]), "roots": 0, "mixed": 1, "big": 2}[shape]
    n_root_groups = {"named": 0, "roots": rng.choice([1, 2]), "mixed": 1, "big": 1}[shape]
    names = rng.sample(PKG_POOL, len(PKG_POOL))
    named_paths, root_paths = [], []
    for g in range(n_named_groups):
        pname = names.pop()
        k = rng.choice([2, 2, 3, 4])
        shared = rng.sample(["Build", "Lint", "Test", "Gen"], 2)
        for j in range(k):
            path = "imp/%s/%s" % (dirs.pop(), pname)
            pkgs[path] = gen_pkg(rng, pname, rng.sample(shared, rng.choice([1, 2])) + rng.sample(["Fmt", "Vet", "Pack"], rng.choice([0, 1])), rng.random() < 0.4)
            place(path, aliases.pop())
            named_paths.append(path)
    for g in range(n_root_groups):
        pname = names.pop()
        k = rng.choice([2, 2, 3]) if nfiles >= 3 else 2
        used_files = []
        for j in range(k):
            path = "imp/%s/%s" % (dirs.pop(), pname)
            pkgs[path] = gen_pkg(rng, pname, take(rng.choice([1, 2])), False)
            used_files.append(place(path, "", avoid=used_files if len(used_files) < nfiles - 1 else ()))
            root_paths.append(path)
    # a single import of an unrelated name, so that path order and unique-name order differ
    if rng.random() < 0.8 and dirs and names:
        pname = names.pop()
        path = "imp/%s/%s" % (dirs.pop(), pname)
        if rng.random() < 0.5:
            pkgs[path] = gen_pkg(rng, pname, ["Build", "Docs"], rng.random() < 0.5)
            place(path, aliases.pop())
            named_paths.append(path)
        else:
            pkgs[path] = gen_pkg(rng, pname, take(1), False)
            place(path, "")
            root_paths.append(path)
    features = []
    # the same path imported in a second file under another alias (two imports since 5f65f03)
    if named_paths and rng.random() < 0.6 and nfiles >= 2:
        p = rng.choice(named_paths)
        place(p, aliases.pop())
        features.append("two-aliases")
    # the same (path, alias) pair in a second file: one import
    if named_paths and rng.random() < 0.3:
        p = rng.choice(named_paths)
        a0 = [s["alias"] for f in fnames for s in specs[f] if s["path"] == p and s["alias"]][0]
        if place(p, a0) is not None:
            features.append("same-pair-twice")
    # the same package imported bare twice (one import since 4a102aa): in another file, or in the same file
    if root_paths and rng.random() < 0.45:
        p = rng.choice(root_paths)
        holders = [f for f in fnames if any(sp["path"] == p and not sp["alias"] for sp in specs[f])]
        if rng.random() < 0.4 and holders:
            specs[holders[0]].append({"path": p, "alias": "", "same_file_again": True})
            features.append("bare-twice-same-file")
        elif place(p, "") is not None:
            features.append("bare-twice-two-files")
    # a path imported both named and as a root import: its functions become root targets as well
    if named_paths and rng.random() < 0.3:
        p = rng.choice(named_paths)
        mine = {f for f, _ in pkgs[p]["funcs"]}
        rootnames = {f for q in root_paths for f, _ in pkgs[q]["funcs"]}
        if not (mine & rootnames) and not pkgs[p]["ns"] and place(p, "") is not None:
            root_paths.append(p)
            features.append("named-and-root")
    # local functions and namespaces, spread over the files
    local = {f: {"funcs": [], "ns": []} for f in fnames}
    root_taken = {f for q in set(root_paths) for f, _ in pkgs[q]["funcs"]}
    for f in take(rng.choice([2, 3, 5, 8])):
        if f not in root_taken:
            local[rng.choice(fnames)]["funcs"].append([f, rng.randrange(3)])
    local_ns = []
    for ns in rng.sample(NS_POOL, rng.choice([0, 1, 1, 2])):
        ms = [[m, rng.randrange(2)] for m in rng.sample(["Up", "Down", "Start", "Stop", "All"], rng.choice([1, 2, 3]))]
        local[rng.choice(fnames)]["ns"].append([ns, ms])
        local_ns.append([ns, ms])
    # Default / Aliases live in one file which imports, untagged and under its real name, one package per package name it mentions
    holder = rng.choice(fnames)
    by_name = {}
    for p in bsorted(pkgs):
        by_name.setdefault(pkgs[p]["name"], []).append(p)
    go_choice = {n: rng.choice(ps) for n, ps in by_name.items()}        # what the Go compiler will see as `tools`
    exprs = []
    for fl in local.values():
        exprs += [["ident", f] for f, _ in fl["funcs"]]
    for ns, ms in local_ns:
        exprs += [["sel", ns, m] for m, _ in ms]
    for n, p in go_choice.items():
        exprs += [["sel", n, f] for f, _ in pkgs[p]["funcs"]] * 2
        for ns, ms in pkgs[p]["ns"]:
            exprs += [["sel2", n, ns, m] for m, _ in ms] * 2
    nal = rng.choice([0, 2, 4, 10, 12, 14]) if exprs else 0
    keys = rng.sample(KEY_POOL, min(nal, len(KEY_POOL)))
    alias_entries = [[k, rng.choice(exprs)] for k in keys]
    zero_arg = []
    for e in exprs:
        if e[0] == "ident":
            v = [v for fl in local.values() for f, v in fl["funcs"] if f == e[1]][0]
        elif e[0] == "sel" and e[1] in go_choice:
            v = [v for f, v in pkgs[go_choice[e[1]]]["funcs"] if f == e[2]][0]
        else:
            v = 0
        if v != 2:
            zero_arg.append(e)
    default = rng.choice(zero_arg) if zero_arg and rng.random() < 0.7 else None
    used_names = {e[1] for _, e in alias_entries if e[0] in ("sel", "sel2") and e[1] in go_choice}
    if default and default[0] in ("sel", "sel2") and default[1] in go_choice:
        used_names.add(default[1])
    # package comments: 0, 1, 2, 3+ files carry one (go/doc joins them in sorted file-name order), different texts,
    # sometimes an empty one, line or block style
    ndoc = min(nfiles, rng.choice([0, 1, 2, 2, 3, 3, 4, 6]))
    docs = {}
    texts = rng.sample(DOC_POOL, len(DOC_POOL))
    for f in rng.sample(fnames, ndoc):
        docs[f] = {"style": rng.choice(["line", "line", "block"]), "lines": texts.pop()}
    if docs and rng.random() < 0.35:
        docs[rng.choice(sorted(docs))] = {"style": "empty", "lines": []}
    # exported non-targets with composite parameter / result types, in the magefiles and in the imported packages
    nh = 0
    for holder_ in [local[f] for f in fnames] + [pkgs[q] for q in bsorted(pkgs)]:
        hs = []
        for k in rng.sample(range(len(HELPER_POOL)), rng.choice([0, 1, 2, 3])):
            nh += 1
            hs.append(["Hx%d" % nh, k])
        holder_["helpers"] = hs
    # platform- and tag-constrained files with targets in some imported packages (always in one)
    for k, path in enumerate(bsorted(pkgs)):
        if k == 0 or rng.random() < 0.3:
            pkgs[path]["constrained"] = k
    # the name a file gives a tagged import in Go code: `_` (never referred to), the package's own name, or a renamed
    # import.  Different files may use the same local name for different packages (import names have file scope);
    # the code that exists resolves `pkg.Func` in Default/Aliases by PACKAGE name against the collected imports and
    # does not look at these names at all.
    holder_imports = {n: go_choice[n] for n in sorted(used_names)}
    nren = 0
    for f in fnames:
        taken = set(holder_imports) if f == holder else set()
        for sp in specs[f]:
            pk = pkgs[sp["path"]]
            if f == holder and holder_imports.get(pk["name"]) == sp["path"]:
                sp["local"] = ""                      # the import the Default/Aliases of this file go through
                continue
            r = rng.random()
            sp["local"] = "_"
            if sp.get("same_file_again"):
                continue                               # a second import of the path in this file: blank
            if r < 0.40 and pk["name"] not in taken:
                sp["local"] = ""                      # plain: the package name
                taken.add(pk["name"])
            elif r < 0.55:
                nren += 1
                sp["local"] = "rn%d%s" % (nren, pk["name"][:2])
    return {"name": "p%04d" % idx, "shape": shape, "files": fnames, "specs": specs, "pkgs": pkgs, "local": local, "docs": docs,
            "holder": holder, "holder_imports": holder_imports,
            "aliases": alias_entries, "default": default, "features": features}


def error_project(rng, idx):
    pr = gen_project(rng, idx, "named")
    pr["specs"][pr["files"][0]].append({"path": "imp/none/missing", "alias": "nope"})
    pr["features"].append("missing-package")
    pr["error"] = True
    return pr


# ---------------------------------------------------------------- rendering
def fn_text(name, variant, recv=None):
    r = "(%s) " % recv if recv else ""
    if variant == 0:
        return "// %s does %s.\nfunc %s%s() {}\n" % (name, name.lower(), r, name)
    if variant == 1:
        return "func %s%s() error { return nil }\n" % (r, name)
    return "// %s takes arguments.\nfunc %s%s(s string, n int) error { return nil }\n" % (name, r, name)


def expr_text(e):
    return {"ident": lambda: e[1], "sel": lambda: "%s.%s" % (e[1], e[2]), "sel2": lambda: "%s.%s.%s" % (e[1], e[2], e[3])}[e[0]]()


# exported functions that are NOT targets: every kind of parameter / result type mage does not support
HELPER_POOL = [("(xs []string)", "{}", 0), ("(p *int)", "{}", 0), ("(m map[string]*int)", "{}", 0), ("(f func(int) error)", "{}", 0),
               ("(c chan int)", "{}", 0), ("(fs ...func(string))", "{}", 0), ("(i interface{ M() })", "{}", 0), ("(s struct{ X int })", "{}", 0),
               ("(a [3]int)", "{}", 0), ("() (int, error)", "{ return 0, nil }", 0), ("() []string", "{ return nil }", 0),
               ("(fi []os.FileInfo)", "{}", 1), ("[T any](x T)", "{}", 0), ("(n float64)", "{}", 0),
               ("(xs []*struct{ Y []int }, g func(...int) map[string][]byte)", "{}", 0), ("(e error, fs ...os.FileMode)", "{}", 1)]


def helper_text(h):
    name, k = h
    sig, body, _ = HELPER_POOL[k]
    return "// %s is exported but cannot be a target.\nfunc %s%s %s\n" % (name, name, sig, body)


def helpers_need_os(hs):
    return any(HELPER_POOL[k][2] for _, k in hs)


def pkg_text(p):
    """source of an imported package; p["docs"] (optional) overrides the doc comment of a function"""
    lines = ["// Package %s is generated." % p["name"], "package %s" % p["name"], ""]
    if p["ns"]:
        lines += ['import "github.com/magefile/mage/mg"', ""]
    if helpers_need_os(p.get("helpers", [])):
        lines += ['import "os"', ""]
    for h in p.get("helpers", []):
        lines.append(helper_text(h))
    for ns, ms in p["ns"]:
        lines.append("type %s mg.Namespace\n" % ns)
        for m, v in ms:
            lines.append(fn_text(m, v, ns))
    for fn, v in p["funcs"]:
        t = fn_text(fn, v)
        if fn in p.get("docs", {}):
            t = "// %s\n" % p["docs"][fn] + t[t.index("func "):]
        lines.append(t)
    return "\n".join(lines) + "\n"


HOST = {"GOOS": "linux", "GOARCH": "amd64"}          # set from `go env` in run()


def pkg_files(p):
    """{file name: text} of an imported package: x.go, and for p["constrained"] = k a host-only file (target OnHost<k>),
    a windows-only file (OnWindows<k>) and a file behind the build tag t (Tagged<k>)"""
    out = {"x.go": pkg_text(p)}
    k = p.get("constrained")
    if k is not None:
        one = lambda tag, fn: "%spackage %s\n\n// %s is there for some builds only.\nfunc %s() error { return nil }\n" % (tag, p["name"], fn, fn)
        out["x_%s.go" % HOST["GOOS"]] = one("", "OnHost%d" % k)
        other = "windows" if HOST["GOOS"] != "windows" else "linux"
        out["x_%s.go" % other] = one("", "OnWindows%d" % k)
        out["x_tag.go"] = one("//go:build t\n// +build t\n\n", "Tagged%d" % k)
    return out


def gen_history(rng, pr):
    """states of ONE imported package while the magefiles stay byte-identical: the original, a target added,
    that target renamed + the doc comment of another changed, the original again"""
    path = rng.choice(bsorted(pr["pkgs"]))
    p0 = pr["pkgs"][path]
    p1 = dict(p0, funcs=p0["funcs"] + [["Added7", rng.choice([0, 1])]])
    p2 = dict(p0, funcs=p0["funcs"] + [["Renamed7", 1]], docs={p0["funcs"][0][0]: "%s has a new description." % p0["funcs"][0][0]})
    return {"path": path, "states": [["original", p0], ["target-added", p1], ["renamed+doc-changed", p2], ["original-again", p0]]}


def render(pr, order=None):
    """{relative path: text}; order = the order in which the files are created"""
    mod = "example.test/" + pr["name"]
    out = {}
    for f in pr["files"]:
        lines = ["//go:build mage", "// +build mage", ""]
        doc = pr.get("docs", {}).get(f)
        if doc:
            if doc["style"] == "empty":
                lines.append("//")
            elif doc["style"] == "block":
                lines.append("/*\n" + "\n".join(doc["lines"]) + "\n*/")
            else:
                lines += [("// " + l) if l else "//" for l in doc["lines"]]
        lines += ["package main", ""]
        imps = []
        if pr["local"][f]["ns"]:
            imps.append('\t"github.com/magefile/mage/mg"')
        if helpers_need_os(pr["local"][f].get("helpers", [])):
            imps.append('\t"os"')
        tagged = {s["path"] for s in pr["specs"][f]}
        uses = []
        for s in pr["specs"][f]:
            imps.append("\t// mage:import" + (" " + s["alias"] if s["alias"] else ""))
            pk = pr["pkgs"].get(s["path"])
            real = f == pr["holder"] and pk is not None and pr["holder_imports"].get(pk["name"]) == s["path"] and not s.get("same_file_again")
            loc = "" if real else (s.get("local", "_") if pk is not None and not s.get("same_file_again") else "_")
            imps.append('\t%s"%s/%s"' % ((loc + " ") if loc else "", mod, s["path"]))
            if loc != "_" and not real:
                uses.append("var _ = %s.%s\n" % (loc or pk["name"], pk["funcs"][0][0]))      # a named import must be used
        if f == pr["holder"]:
            for n, p in pr["holder_imports"].items():
                if p not in tagged:
                    imps.append('\t"%s/%s"' % (mod, p))
        if imps:
            lines += ["import ("] + imps + [")", ""]
        lines += uses
        for ns, ms in pr["local"][f]["ns"]:
            lines.append("type %s mg.Namespace\n" % ns)
            for m, v in ms:
                lines.append(fn_text(m, v, ns))
        for fn, v in pr["local"][f]["funcs"]:
            lines.append(fn_text(fn, v))
        for h in pr["local"][f].get("helpers", []):
            lines.append(helper_text(h))
        if f == pr["holder"]:
            if pr["default"]:
                lines.append("var Default = %s\n" % expr_text(pr["default"]))
            if pr["aliases"]:
                lines.append("var Aliases = map[string]interface{}{")
                for k, e in pr["aliases"]:
                    lines.append('\t"%s": %s,' % (k, expr_text(e)))
                lines.append("}\n")
        out[f] = "\n".join(lines) + "\n"
    for path, p in pr["pkgs"].items():
        for fn_, text in pkg_files(p).items():
            out[path + "/" + fn_] = text
    out["go.mod"] = projlib.GO_MOD % (pr["name"], REPO)
    names = list(out)
    if order == "reverse":
        names = names[::-1]
    return {n: out[n] for n in names}


def competing(pr):
    """how many pairs of entries compete for a unique name / a map slot"""
    named, roots = {}, []          # named: path -> distinct aliases (each (path, alias) pair is one import)
    same_pair = bare_again = 0
    for f in pr["files"]:
        for s in pr["specs"][f]:
            if s["alias"]:
                if s["alias"] in named.setdefault(s["path"], []):
                    same_pair += 1
                else:
                    named[s["path"]].append(s["alias"])
            elif s["path"] in roots:
                bare_again += 1
            else:
                roots.append(s["path"])
    pname = lambda p: pr["pkgs"].get(p, {"name": "?"})["name"]
    by_local = {}
    for f in pr["files"]:
        for s in pr["specs"][f]:
            real = f == pr["holder"] and pr["holder_imports"].get(pname(s["path"])) == s["path"] and not s.get("same_file_again")
            loc = "" if real else ("_" if s.get("same_file_again") else s.get("local", "_"))
            if loc != "_" and s["path"] in pr["pkgs"]:
                by_local.setdefault(loc or pname(s["path"]), set()).add(s["path"])
    for n, p in pr["holder_imports"].items():
        by_local.setdefault(n, set()).add(p)
    refs = {e[1] for _, e in pr["aliases"] if e[0] in ("sel", "sel2")} | ({pr["default"][1]} if pr["default"] and pr["default"][0] in ("sel", "sel2") else set())
    def pairs(paths):
        c = {}
        for p in paths:
            c[pname(p)] = c.get(pname(p), 0) + 1
        return sum(n * (n - 1) // 2 for n in c.values())
    return {"named_pairs_equal_name": pairs([p for p, al in named.items() for _ in al]), "root_pairs_equal_name": pairs(roots),
            "same_path_and_alias_twice": same_pair, "bare_import_of_one_package_again": bare_again,
            "paths_with_two_aliases": sum(1 for a in named.values() if len(a) > 1),
            "named_and_root": len(set(named) & set(roots)),
            "local_names_for_different_packages_in_different_files": sum(1 for n, ps in by_local.items() if len(ps) > 1),
            "of_which_used_by_default_or_aliases": sum(1 for n, ps in by_local.items() if len(ps) > 1 and n in refs),
            "renamed_imports": sum(1 for f in pr["files"] for s in pr["specs"][f] if s.get("local", "_") not in ("_", "")),
            "files": len(pr["files"]), "aliases": len(pr["aliases"]),
            "files_with_package_comment": len(pr.get("docs", {})),
            "nonempty_package_comments": sum(1 for d in pr.get("docs", {}).values() if d["style"] != "empty")}


# ---------------------------------------------------------------- reading the generated file back
CALL_RX = re.compile(r"wrapFn := func\(ctx _?context\.Context\) error \{\s*(?:return )?(\(&)?(?:(\w+)\.)?(\w+)")


def call_pkg(chunk):
    """package qualifier of the target call in an ExecCode chunk ('' for a local function), None if there is no call"""
    m = CALL_RX.search(chunk)
    if not m:
        return None
    if m.group(1):                       # (&pkg.Recv{}).Name(  or  (&Recv{}).Name(
        m2 = re.match(r"\(&(?:(\w+)\.)?\w+\{\}\)\.", chunk[m.start(1):])
        return (m2.group(1) or "") if m2 else ""
    return m.group(2) or ""              # pkg.Name(  or  Name(


def read_main(text):
    imports = re.findall(r'(?m)^\t(\w+) "([^"]+)"\n', text.split("func main()")[0])
    imports = [(u, p) for u, p in imports if "_mageimport" in u]
    i_alias = text.index("// resolve aliases")
    i_switch = text.index("switch _strings.ToLower(target) {", text.index("switch _strings.ToLower(target) {", i_alias) + 10)
    aliases = re.findall(r'case "([^"]*)":\s*target = "([^"]*)"', text[i_alias:i_switch])
    targets = []
    parts = re.split(r'logger\.Println\("Running target:", "([^"]*)"\)', text[i_switch:])
    for k in range(1, len(parts), 2):
        targets.append((parts[k], call_pkg(parts[k + 1]) or ""))
    i_for = text.index("for x := 0; x < len(args.Args); {")
    i_def = text.rindex("if len(args.Args) < 1 {", 0, i_for)
    dflt = call_pkg(text[i_def:i_for]) or ""
    m = re.search(r'_fmt\.Println\(("(?:[^"\\]|\\.)*") \+ "\\n"\)', text)
    desc = json.loads(projlib._goq(m.group(1))) if m else ""
    return {"imports": imports, "targets": targets, "aliases": aliases, "default": dflt, "desc": desc}


# ---------------------------------------------------------------- Coq terms
def c_pf(recv, name):
    return "{| pf_recv := %s; pf_name := %s; pf_body := \"\" |}" % (coq_str(recv), coq_str(name))


def c_expr(e):
    if e is None:
        return "None"
    if e[0] == "ident":
        return "(AIdent %s)" % coq_str(e[1])
    if e[0] == "sel":
        return "(ASel %s %s)" % (coq_str(e[1]), coq_str(e[2]))
    return "(ASel2 %s %s %s)" % (coq_str(e[1]), coq_str(e[2]), coq_str(e[3]))


def c_pair(a, b):
    return "(%s, %s)" % (a, b)


def case_term(pr, ans, proj, fobs):
    mod = "example.test/" + pr["name"]
    docs = ans.get("docs") or {}
    files = coq_list(["{| f_name := %s; f_doc := %s; f_specs := %s |}" % (coq_str(f), coq_opt(None if docs.get(f) is None else coq_str(docs[f])), coq_list(
        ["{| sp_path := %s; sp_alias := %s |}" % (coq_str(mod + "/" + s["path"]), coq_str(s["alias"])) for s in pr["specs"][f]])) for f in pr["files"]])
    funcs = coq_list([c_pf(r, n) for r, n in ans["locals"]])
    env = coq_list([c_pair(coq_str(p), c_pair(coq_str(v["name"]), coq_list([c_pf(r, n) for r, n in (v.get("funcs") or [])])))
                    for p, v in sorted(ans["pkgs"].items()) if not v.get("err")])
    if proj["err"]:
        obs = "None"
    else:
        imps = coq_list([c_pair(c_pair(c_pair(coq_str(i["unique"]), coq_str(i["path"])), coq_str(i["alias"])),
                                coq_list([c_pair(coq_str(t), coq_str(p)) for t, p in i["funcs"]])) for i in proj["imports"]])
        al = coq_list([c_pair(c_pair(coq_str(k), coq_str(t)), coq_str(p)) for k, t, p in proj["aliases"]])
        d = "None" if proj["default"] is None else "(Some %s)" % c_pair(coq_str(proj["default"][0]), coq_str(proj["default"][1]))
        obs = "(Some {| o_desc := %s; o_imports := %s; o_funcs := %s; o_aliases := %s; o_default := %s |})" % (
            coq_str(proj.get("desc", "")), imps, coq_list([coq_str(x) for x in proj["funcs"]]), al, d)
    if fobs is None:
        fo = "None"
    else:
        fo = "(Some {| fo_desc := %s; fo_imports := %s; fo_targets := %s; fo_aliases := %s; fo_default := %s |})" % (
            coq_str(fobs["desc"]),
            coq_list([c_pair(coq_str(u), coq_str(p)) for u, p in fobs["imports"]]),
            coq_list([c_pair(coq_str(t), coq_str(p)) for t, p in fobs["targets"]]),
            coq_list([c_pair(coq_str(k), coq_str(t)) for k, t in fobs["aliases"]]), coq_str(fobs["default"]))
    return ("{| c_files := %s; c_funcs := %s; c_default := %s; c_aliases := %s; c_env := %s; c_obs := %s; c_file := %s |}" % (
        files, funcs, "None" if pr["default"] is None else "(Some %s)" % c_expr(pr["default"]),
        coq_list([c_pair(coq_str(k), c_expr(e)) for k, e in pr["aliases"]]), env, obs, fo))


# ---------------------------------------------------------------- running
def fresh_runs(mage, d, n, cache):
    """n fresh `mage -keep -l` processes in d; returns list of (sha1 or None, rc, stderr tail), and the text of the first file"""
    res, first = [], None
    main = os.path.join(d, MAINFILE)
    for _ in range(n):
        if os.path.exists(main):
            os.remove(main)
        r = mage.run(d, ["-keep", "-l"], timeout=300, cache=cache)
        if os.path.exists(main):
            b = open(main, "rb").read()
            if first is None:
                first = b.decode("utf-8", "replace")
            res.append((hashlib.sha1(b).hexdigest(), r["rc"], r["err"][-300:]))
            os.remove(main)
        else:
            res.append((None, r["rc"], r["err"][-300:]))
    return res, first


def run_history(ctx, mage, binp, d, pr):
    """the history of pr["history"] in directory d, once per cache mode.  Per state: `mage -keep -l` with the cache
    directory that has seen the whole history so far, the same with a fresh cache directory, and (default mode)
    the in-process projection of the sources as they are now."""
    h = pr["history"]
    main = os.path.join(d, MAINFILE)
    src = os.path.join(d, h["path"], "x.go")
    out = []
    def gen(env, cache):
        if os.path.exists(main):
            os.remove(main)
        r = mage.run(d, ["-keep", "-l"], env=env, timeout=300, cache=cache)
        text = None
        if os.path.exists(main):
            text = open(main, "rb").read().decode("utf-8", "replace")
            os.remove(main)
        return text, r["rc"], r["err"][-300:]
    for mode, env in (("default", None), ("hashfast", {"MAGEFILE_HASHFAST": "1"})):
        kept = os.path.join(ctx.tmp, "hist_%s_%s" % (pr["name"], mode))
        for si, (label, pkg) in enumerate(h["states"]):
            if mode == "hashfast" and si >= 2:
                break           # from the second state on this mode runs the cached binary and generates nothing
            with open(src, "w") as f:
                f.write(pkg_text(pkg))
            t_kept, rc1, e1 = gen(env, kept)
            fresh = os.path.join(ctx.tmp, "hist_%s_%s_fresh%d" % (pr["name"], mode, si))
            t_fresh, rc2, e2 = gen(env, fresh)
            subprocess_rm(fresh)
            ans = run_op(binp, d, pr, 2, 0, False) if mode == "default" else None
            out.append({"mode": mode, "state": si, "label": label, "kept": t_kept, "fresh": t_fresh, "rc": (rc1, rc2), "err": (e1, e2), "op": ans})
    with open(src, "w") as f:
        f.write(pkg_text(h["states"][0][1]))
    return out


def subprocess_rm(path):
    import subprocess
    subprocess.run(["chmod", "-R", "u+w", path], stderr=subprocess.DEVNULL)
    shutil.rmtree(path, ignore_errors=True)


TAGS_LABEL = "GOFLAGS=-mod=mod -tags=t -l"
KNOWN_ENV = {"MAGEFILE_VERBOSE": "1", "MAGEFILE_DEBUG": "1", "MAGEFILE_LIST": "1", "MAGEFILE_HELP": "1", "MAGEFILE_IGNOREDEFAULT": "1",
             "MAGEFILE_TIMEOUT": "10m", "MAGEFILE_ENABLE_COLOR": "1", "MAGEFILE_TARGET_COLOR": "Red", "MAGEFILE_GOCMD": "go", "MAGEFILE_HASHFAST": "1"}


def env_names():
    """every MAGEFILE_* name in the non-test sources of the tree under test (lib/depslib.discover_knobs does the scan)"""
    import depslib
    return sorted((set(depslib.discover_knobs()) | set(depslib.KNOWN_KNOBS) | set(KNOWN_ENV)) - {"MAGEFILE_CACHE"})


def run_invocations(ctx, mage, wrap, d, pr, names):
    """the INVOCATION as a dimension: one fresh `mage ... -keep ...` process per front-end flag / environment setting;
    returns [(label, sha1 of the kept generated source or None, rc)]"""
    main = os.path.join(d, MAINFILE)
    parent, base = os.path.dirname(d), os.path.basename(d)
    locals_ = [fn for f in pr["files"] for fn, v in pr["local"][f]["funcs"] if v != 2]
    tgt = locals_[0] if locals_ else None
    anyf = [fn for f in pr["files"] for fn, v in pr["local"][f]["funcs"]] + [fn for f in pr["files"] for s_ in pr["specs"][f] if s_["path"] in pr["pkgs"]
                                                                            for fn, v in pr["pkgs"][s_["path"]]["funcs"] if not s_["alias"]]
    tgt_env = tgt or (anyf[0] if anyf else None)            # a value for unknown variables: the name of some target of the project
    plan = [("-l", d, ["-l"], None), ("-v -l", d, ["-v", "-l"], None), ("-debug -l", d, ["-debug", "-l"], None),
            ("-t 10m -l", d, ["-t", "10m", "-l"], None), ("-t 1s -l", d, ["-t", "1s", "-l"], None), ("-f -l", d, ["-f", "-l"], None),
            ("-gocmd go -l", d, ["-gocmd", "go", "-l"], None), ("-gocmd wrapper -l", d, ["-gocmd", wrap, "-l"], None),
            ("-d rel -l", parent, ["-d", base, "-l"], None), ("-d abs -w abs -l", ctx.tmp, ["-d", d, "-w", d, "-l"], None),
            ("-h", d, ["-h"], None), ("no arguments", d, [], None)]
    if tgt:
        plan += [("target", d, [tgt.lower()], None), ("-h target", d, ["-h", tgt.lower()], None), ("-v -t 2m target", d, ["-v", "-t", "2m", tgt.lower()], None)]
    for n in names:
        if n in KNOWN_ENV:
            plan.append(("%s=%s -l" % (n, KNOWN_ENV[n]), d, ["-l"], {n: KNOWN_ENV[n]}))
        else:
            for val in ([tgt_env] if tgt_env else []) + ["1", "true", "10m"]:
                plan.append(("%s=%s -l" % (n, val), d, ["-l"], {n: val}))
    # the environment the go tool reads: mage pins GOOS/GOARCH of its own go commands to the host, so none of these may
    # reach the generated source (imported packages have host-only, windows-only and tag-only files with targets)
    other_os = "windows" if HOST["GOOS"] != "windows" else "linux"
    for label, envx in [("GOOS=" + other_os, {"GOOS": other_os}), ("GOOS=host", {"GOOS": HOST["GOOS"]}), ("GOARCH=mips GOOS=linux", {"GOOS": "linux", "GOARCH": "mips"}),
                        ("GOOS=nonsense", {"GOOS": "nonsense"}), ("GOARCH=nonsense", {"GOARCH": "nonsense"}), ("CGO_ENABLED=1", {"CGO_ENABLED": "1"}),
                        ("GOPATH elsewhere", {"GOPATH": os.path.join(ctx.tmp, "gopath_elsewhere")}), ("GO111MODULE=on", {"GO111MODULE": "on"}),
                        ("GO111MODULE=auto", {"GO111MODULE": "auto"})]:
        plan.append((label + " -l", d, ["-l"], envx))
    plan.append((TAGS_LABEL, d, ["-l"], {"GOFLAGS": "-mod=mod -tags=t"}))
    plan.append(("all known variables set -l", d, ["-l"], {k: v for k, v in KNOWN_ENV.items() if k not in ("MAGEFILE_HASHFAST", "MAGEFILE_HELP")}))
    plan.append(("other MAGEFILE_CACHE -l", d, ["-l"], {"MAGEFILE_CACHE": os.path.join(ctx.tmp, "inv_cache2_" + pr["name"])}))
    res = []
    cache = os.path.join(ctx.tmp, "inv_cache_" + pr["name"])
    for label, cwd, args, envx in plan:
        if os.path.exists(main):
            os.remove(main)
        r = mage.run(cwd, ["-keep"] + args, env=envx, cache=cache, timeout=300, stdin=b"")
        sha, targets = None, None
        if os.path.exists(main):
            b = open(main, "rb").read()
            sha = hashlib.sha1(b).hexdigest()
            if label in ("-l", TAGS_LABEL):
                targets = [t for t, _ in read_main(b.decode("utf-8", "replace"))["targets"]]
            os.remove(main)
        res.append((label, sha, r["rc"], targets))
    return res


def run_locations(ctx, mage, pr):
    """the project's LOCATION as a dimension: identical copies in differently named directories, identical command lines"""
    files = render(pr)
    root = os.path.join(ctx.tmp, "loc_" + pr["name"])
    locs = [("proj", "proj"), ("proj-ci", "proj-ci"), ("a b", "a b"), ("deep path", "deep/er/path/here"), ("via symlink", None)]
    res = []
    for label, rel in locs:
        if rel is None:
            real = os.path.join(root, "real-checkout")
            d = os.path.join(root, "link")
        else:
            real = d = os.path.join(root, rel)
        for relf, text in files.items():
            q = os.path.join(real, relf)
            os.makedirs(os.path.dirname(q), exist_ok=True)
            with open(q, "w") as f:
                f.write(text)
        if rel is None:
            os.symlink(real, d)
        os.makedirs(os.path.join(real, "dist"))
        main = os.path.join(real, MAINFILE)
        cache = os.path.join(root, "cache_" + label.replace(" ", "_"))
        cmds = [["-l"], ["-compile", "dist"], ["-compile", "rel" + os.sep]]
        if not ctx.quick:
            cmds += [["-compile", "./out.bin"], ["-compile", os.path.join("sub", "tool")]]
        for cmd in cmds:
            if os.path.exists(main):
                os.remove(main)
            r = mage.run(d, ["-keep"] + cmd, cache=cache, timeout=600)
            sha = None
            if os.path.exists(main):
                sha = hashlib.sha1(open(main, "rb").read()).hexdigest()
                os.remove(main)
            res.append({"location": label, "cmd": " ".join(cmd), "sha1": sha, "rc": r["rc"]})
    return res


def run_ops(binp, reqs):
    """reqs: [(dir, project, reps, real_reps, render)]: ONE unitrun process handles them one after the other"""
    lines = []
    for d, pr, reps, real_reps, render_ in reqs:
        mod = "example.test/" + pr["name"]
        paths = sorted({mod + "/" + s["path"] for f in pr["files"] for s in pr["specs"][f]})
        lines.append(json.dumps({"op": "primary", "raw": {"dir": d, "files": pr["files"], "reps": reps, "real_reps": real_reps, "paths": paths, "render": render_}}))
    rc, out, err = sh([binp], input=("\n".join(lines) + "\n").encode(), env=goenv(), timeout=3000)
    outs = [l for l in out.splitlines() if l.strip()]
    if rc != 0 or len(outs) != len(reqs):
        raise BuildError("unitrun op primary failed: rc=%d %s" % (rc, err[-1500:]))
    res = [json.loads(l) for l in outs]
    for a in res:
        if "error" in a:
            raise BuildError("unitrun op primary: " + a["error"])
    return res


def run_op(binp, d, pr, reps, real_reps, render_):
    return run_ops(binp, [(d, pr, reps, real_reps, render_)])[0]


# ---------------------------------------------------------------- the compiled output (file-system orderings)
GOWRAP = """#!/bin/sh
# stand-in for the go tool (mage -gocmd): records the argument list of `go build`, then runs the real go
if [ "$1" = build ] && [ -n "$VERIF_C18_ARGV" ]; then
  { echo "--"; printf '%s\\n' "$@"; } >> "$VERIF_C18_ARGV"
fi
exec go "$@"
"""
LAYOUTS = ["plain", "magefiles", "dash-d"]


def gen_compile_project(rng, idx):
    n = rng.choice([3, 4, 5, 7])
    files = rng.sample(FILE_POOL, n)
    return {"name": "c%03d" % idx, "files": files, "tagged": [rng.random() < 0.5 for _ in files], "ldflags": rng.choice(["", "", "-s"])}


def compile_files(cp, layout):
    """{relative path: text} in creation order; the magefile directory relative to the project"""
    sub = "magefiles/" if layout == "magefiles" else ""
    out = {"go.mod": projlib.GO_MOD % (cp["name"], REPO)}
    for k, f in enumerate(cp["files"]):
        tag = "//go:build mage\n// +build mage\n\n" if (layout != "magefiles" or cp["tagged"][k]) else ""
        out[sub + f] = (tag + "package main\n\nimport \"fmt\"\n\nfunc init() { fmt.Println(\"INIT %s\") }\n\n// T%d is a target.\nfunc T%d() {}\n" % (f, k, k))
        if k == 0:
            out[sub + f] = out[sub + f].replace('import "fmt"', 'import (\n\t"fmt"\n\t"os"\n)') + (
                "\n// Where prints the path of the running executable.\nfunc Where() {\n\tp, _ := os.Executable()\n\tfmt.Println(\"EXE \" + p)\n}\n")
    return out


def run_compile(ctx, mage, wrap, cp, layout, order, base, repeat=False):
    files = compile_files(cp, layout)
    names = list(files)
    if order == "reverse":
        names = names[::-1]
    d = os.path.join(base, "%s_%s_%s" % (cp["name"], layout, order), "proj")
    for rel in names:
        q = os.path.join(d, rel)
        os.makedirs(os.path.dirname(q), exist_ok=True)
        with open(q, "w") as f:
            f.write(files[rel])
    mdir = os.path.join(d, "magefiles") if layout == "magefiles" else d
    entries = os.listdir(mdir)                     # raw directory order
    outp = os.path.join(os.path.dirname(d), "out.bin")
    argvf = os.path.join(os.path.dirname(d), "argv.txt")
    args = ["-gocmd", wrap]
    if cp["ldflags"]:
        args += ["-ldflags", cp["ldflags"]]
    cwd = d
    if layout == "dash-d":
        args = ["-d", d] + args
        cwd = os.path.dirname(d)
    env = {"GOFLAGS": "-mod=mod -trimpath", "VERIF_C18_ARGV": argvf}
    cache = os.path.join(os.path.dirname(d), "cache")
    kept = os.path.join(mdir, MAINFILE)

    def compile_once(keep=True):
        """one `mage [-keep] -compile out.bin` process: rc, digest of the kept generated source, digest of the output, usage text"""
        if os.path.exists(kept):
            os.remove(kept)
        r = mage.run(cwd, args + (["-keep"] if keep else []) + ["-compile", outp], env=env, cache=cache, timeout=600)
        o = {"rc": r["rc"], "err": r["err"][-400:], "src": None, "bin": None, "usage": None, "keep": keep}
        if os.path.exists(kept):
            o["src"] = hashlib.sha1(open(kept, "rb").read()).hexdigest()
            os.remove(kept)
        if r["rc"] == 0 and os.path.exists(outp):
            o["bin"] = hashlib.sha1(open(outp, "rb").read()).hexdigest()
            o["usage"] = mage.run(cwd, ["-h", "where"], exe=outp, timeout=60)["out"].strip()
        return o

    first = compile_once(keep=False)          # the plain way: the generated file is removed again
    res = {"layout": layout, "order": order, "base": base, "rc": first["rc"], "err": first["err"], "entries": entries, "argv": None,
           "sha1": first["bin"], "init": None, "first": first, "repeats": []}
    if first["rc"] == 0 and os.path.exists(outp):
        blocks = open(argvf).read().split("--\n") if os.path.exists(argvf) else []
        if blocks:
            res["argv"] = ["OUT" if a == outp else a for a in blocks[-1].splitlines()]
        rr = mage.run(cwd, ["-l"], exe=outp, timeout=60)
        res["init"] = [l[5:] for l in rr["out"].splitlines() if l.startswith("INIT ")]
        if repeat:
            # the output path is occupied: by the binary of an earlier run, by an unrelated file, by a symbolic link
            victim = os.path.join(os.path.dirname(d), "victim.bin")
            binary = open(outp, "rb").read()
            def occupy(how):
                for q in (outp, victim):
                    if os.path.lexists(q):
                        os.remove(q)
                if how == "earlier-binary":
                    with open(outp, "wb") as f:
                        f.write(binary)
                    os.chmod(outp, 0o755)
                elif how == "unrelated-file":
                    with open(outp, "w") as f:
                        f.write("notes, not a binary\n")
                else:
                    with open(victim, "wb") as f:
                        f.write(binary)
                    os.chmod(victim, 0o755)
                    os.symlink(victim, outp)
            for how in ("earlier-binary", "unrelated-file", "symlink"):
                for rep in (0, 1):
                    occupy(how)
                    o = compile_once(keep=(rep == 0))
                    if rep == 0 and how == "earlier-binary":
                        res["first"]["src"] = res["first"]["src"] or o["src"]      # the reference for the generated source
                    o["occupied_by"], o["rep"] = how, rep
                    res["repeats"].append(o)
    return res


def run_cache_attrs(ctx, mage, cp):
    """the cache entry as a function of (contents, cache directory): for cache directories with different attributes, two
    processes (`mage where`, then the same with MAGEFILE_HASHFAST=1) and the listing of the directory after each"""
    files = compile_files(cp, "plain")
    root = os.path.join(ctx.tmp, "cacheattr_" + cp["name"])
    d = os.path.join(root, "proj")
    for rel, text in files.items():
        q = os.path.join(d, rel)
        os.makedirs(os.path.dirname(q), exist_ok=True)
        with open(q, "w") as f:
            f.write(text)
    variants = [("0700", 0o700), ("0755", 0o755), ("0775", 0o775), ("0777", 0o777), ("1777", 0o1777), ("symlink", None), ("with space", 0o755), ("not-yet-there", None), ("dir-spellings", 0o755)]
    if os.geteuid() == 0:
        variants.append(("other-uid", 0o755))
    out = []
    for label, mode in variants:
        cdir = os.path.join(root, "cache " + label if label == "with space" else "cache_" + label)
        real = cdir
        if label == "symlink":
            real = os.path.join(root, "cache_symlink_target")
            os.makedirs(real)
            os.symlink(real, cdir)
        elif label != "not-yet-there":
            os.makedirs(cdir)
            os.chmod(cdir, mode)
            if label == "other-uid":
                os.chown(cdir, 65534, 65534)
        obs = {"variant": label, "runs": []}
        plan = [(d, [], None), (d, [], {"MAGEFILE_HASHFAST": "1"})]
        if label == "dir-spellings":      # the magefile directory named in three ways
            plan = [(d, [], None), (root, ["-d", "proj"], None), (ctx.tmp, ["-d", d], None)]
        for cwd_, pre, envx in plan:
            r = mage.run(cwd_, pre + ["where"], env=envx, cache=cdir, timeout=300)
            exe = [l[4:] for l in r["out"].splitlines() if l.startswith("EXE ")]
            listing = sorted(os.listdir(real)) if os.path.isdir(real) else None
            obs["runs"].append({"rc": r["rc"], "err": r["err"][-300:], "hashfast": envx is not None,
                                "exe_base": os.path.basename(exe[0]) if exe else None,
                                "exe_in_cache_dir": (os.path.realpath(os.path.dirname(exe[0])) == os.path.realpath(real)) if exe else None,
                                "listing": listing})
        out.append(obs)
    return out


class RetryMage(projlib.Mage):
    """the go build cache is shared by everything on the machine; when somebody trims it (or the disk fills up) while a
    build is linking, the go tool fails with a missing cache file - an accident of the environment, retried"""
    TRANSIENT = re.compile(r"go-build/[0-9a-f]{2}/[0-9a-f]+-[ad]: no such file or directory|no space left on device|is not in std \(")

    def run(self, cwd, args, **kw):
        r = projlib.Mage.run(self, cwd, args, **kw)
        for _ in range(2):
            if r["rc"] == 0 or not self.TRANSIENT.search(r["err"]):
                break
            self.ctx.add("transient_go_build_cache_failures_retried")
            r = projlib.Mage.run(self, cwd, args, **kw)
        return r


def run(ctx):
    ctx.prove(["Props/C18.vo", "Run/eval_C18.vo"], extra_props=["Compose_C18_imports"])   # + the three transcriptions of setImports (Gen, Dupes, ImportTag) agree
    import extractlib; extractlib.fn_tie(ctx, ['TargetName/Gen', 'Functions.Less', 'Imports.Less'])   # pure functions translated from the current source, re-proved equal to the models' (tools/notes/Translator.md)
    ctx.trusted_base += [
        "harness/unitrun op primary (in-process parse.PrimaryPackage + the sort.Sort calls copied from mage/main.go + mage.GenerateMainfile; `go list` answered from a table filled by the real go command after the first repetitions)",
        "checks/c18.py (project generator/renderer, reader of mage_output_file.go, Coq printer, oracle)",
        "go/parser, go/doc (sorted declaration lists), text/template (sorted map range, deterministic substitution), sort.Sort/sort.Strings return a sorted permutation",
    ]
    rng = ctx.rng
    def retrying(fn):
        for k in range(3):
            try:
                return fn()
            except BuildError as ex:
                if k == 2 or not RetryMage.TRANSIENT.search(str(ex)):
                    raise
                ctx.add("transient_go_build_cache_failures_retried")
    mage = retrying(lambda: RetryMage(ctx))
    binp = retrying(lambda: go_build_harness(ctx, "unitrun"))
    rc_, out_, _ = sh(["go", "env", "GOOS", "GOARCH"], env=goenv(), timeout=60)
    if rc_ == 0 and len(out_.split()) == 2:
        HOST["GOOS"], HOST["GOARCH"] = out_.split()
    quick = ctx.quick
    nproj = 8 if quick else 40
    ncompile = 1 if quick else 4
    runs_a, runs_b = (12, 4) if quick else (48, 16)
    reps, nprocs = (30, 4) if quick else (125, 4)      # beyond a few hundred repetitions nothing is gained: (7/8)^500 < 1e-28
    nhist = 3 if quick else 8
    ninv = 1 if quick else 6
    nloc = 1 if quick else 3
    projects, compile_projects = [], []
    if ctx.replay and ctx.replay.get("case"):
        c = ctx.replay["case"]
        projects = [c["project"]] if c.get("project") else []
        compile_projects = [c["compile_project"]] if c.get("compile_project") else []
        runs_a, runs_b, reps, nprocs = c.get("runs_a", runs_a), c.get("runs_b", runs_b), c.get("reps", reps), c.get("nprocs", nprocs)
    else:
        for i in range(nproj):
            projects.append(gen_project(rng, i))
        for k, pr in enumerate(projects):
            h = gen_history(rng, pr)
            pr["variant"] = {"path": h["path"], "pkg": h["states"][1][1]}        # the same module with one imported package changed
            if k < nhist:
                pr["history"] = h
        compile_projects = [gen_compile_project(rng, i) for i in range(ncompile)]
        projects.append(error_project(rng, nproj))

    # create the projects
    dirs = {}
    for pr in projects:
        da = mage.project(render(pr), name=pr["name"], probe=False)
        db = mage.project(render(pr, "reverse"), name=pr["name"] + "_copy", probe=False)
        # the in-process repetitions get directories of their own: a concurrent mage run creates and removes
        # mage_output_file.go, and parser.ParseDir lstats every directory entry before it filters
        dc = mage.project(render(pr), name=pr["name"] + "_ops", probe=False)
        dd = mage.project(render(pr, "reverse"), name=pr["name"] + "_ops2", probe=False)
        dirs[pr["name"]] = (da, db, dc, dd)
        if pr.get("variant"):
            prv = dict(pr, pkgs=dict(pr["pkgs"], **{pr["variant"]["path"]: pr["variant"]["pkg"]}))
            dirs[pr["name"] + "/var"] = mage.project(render(prv), name=pr["name"] + "_var", probe=False)
        if projects.index(pr) < ninv and not pr.get("error"):
            dirs[pr["name"] + "/inv"] = mage.project(render(pr), name=pr["name"] + "_inv", probe=False)
        if pr.get("history"):
            dirs[pr["name"] + "/hist"] = mage.project(render(pr), name=pr["name"] + "_hist", probe=False)

    wrap = os.path.join(ctx.tmp, "gowrap.sh")
    with open(wrap, "w") as f:
        f.write(GOWRAP)
    os.chmod(wrap, 0o755)
    names_env = env_names()
    # tasks
    tasks = []
    for pi, pr in enumerate(projects):
        da, db, dc, dd = dirs[pr["name"]]
        if not pr.get("error"):
            tasks.append((pi, "A", lambda da=da: fresh_runs(mage, da, runs_a, os.path.join(ctx.tmp, "cache_a"))))
            tasks.append((pi, "B", lambda db=db: fresh_runs(mage, db, runs_b, os.path.join(ctx.tmp, "cache_b"))))
        if pi < nloc and not pr.get("error"):
            tasks.append((pi, "L", lambda pr=pr: run_locations(ctx, mage, pr)))
        if pr["name"] + "/inv" in dirs:
            tasks.append((pi, "I", lambda pr=pr: run_invocations(ctx, mage, wrap, dirs[pr["name"] + "/inv"], pr, names_env)))
        if pr.get("history") and not pr.get("error"):
            tasks.append((pi, "H", lambda pr=pr: run_history(ctx, mage, binp, dirs[pr["name"] + "/hist"], pr)))
        if pr.get("variant") and not pr.get("error"):
            dv = dirs[pr["name"] + "/var"]
            # two different projects (same module path, same import paths, one imported package differs) in ONE process
            tasks.append((pi, "X", lambda dc=dc, dv=dv, pr=pr: (run_ops(binp, [(dc, pr, 2, 1, False), (dv, pr, 2, 1, False), (dc, pr, 2, 1, False)]),
                                                                 run_op(binp, dv, pr, 2, 1, False))))
        others = [q for q in range(len(projects)) if not projects[q].get("error")]
        if not pr.get("error") and len(others) > 1:
            pj = others[(others.index(pi) + 1) % len(others)]
            dj, prj = dirs[projects[pj]["name"]][2], projects[pj]
            # another project after this one in ONE process: they share package names, aliases, target and namespace names, not paths
            tasks.append((pi, "Y", lambda dc=dc, pr=pr, dj=dj, prj=prj, pj=pj: (pj, run_ops(binp, [(dc, pr, 2, 1, False), (dj, prj, 2, 1, False)]))))
        for k in range(nprocs):
            d = dc if k % 2 == 0 else dd
            tasks.append((pi, "op%d" % k, lambda d=d, pr=pr, k=k: run_op(binp, d, pr, reps, 2 if k == 0 else 0, k < 2)))
    bases = [os.path.join(ctx.tmp, "compile")]
    shm = None
    if os.path.isdir("/dev/shm") and os.access("/dev/shm", os.W_OK):
        import tempfile, atexit
        shm = tempfile.mkdtemp(prefix="verif-C18-", dir="/dev/shm")
        atexit.register(subprocess_rm, shm)
        bases.append(shm)
    for ci, cp in enumerate(compile_projects):
        for layout in LAYOUTS:
            for order in ("listed", "reverse"):
                for base in bases:
                    rep = order == "listed" and base == bases[0]        # the occupied-output repetitions: once per layout
                    tasks.append((("c", ci), "C", lambda cp=cp, layout=layout, order=order, base=base, rep=rep: run_compile(ctx, mage, wrap, cp, layout, order, base, rep)))
        tasks.append((("c", ci), "K", lambda cp=cp: run_cache_attrs(ctx, mage, cp)))
    tasks.sort(key=lambda t: t[1] not in ("I", "L", "H", "C", "K"))          # the histories are the longest tasks: start them first
    ctx.log("projects created; %d tasks" % len(tasks))
    import time as _t
    def timed(t):
        t0 = _t.time()
        r = t[2]()
        return r, _t.time() - t0
    results = pmap(timed, tasks)
    tsum = {}
    for (pi, kind, _), (r, dt) in zip(tasks, results):
        tsum[kind[:2]] = tsum.get(kind[:2], 0) + dt
    ctx.log("tasks done; seconds by kind:", {k: round(v, 1) for k, v in tsum.items()})
    results = [r for r, _ in results]
    by = {}
    for (pi, kind, _), r in zip(tasks, results):
        if kind == "C":
            by.setdefault(pi, {}).setdefault("C", []).append(r)
        else:
            by.setdefault(pi, {})[kind] = r

    items, item_proj = [], []
    build_failures = []
    hist_gens, hist_cov = 0, {}
    inv_runs, inv_nogen = 0, []
    loc_runs = 0
    cross_gens = 0
    n_oracle = 0
    cov = ctx.coverage
    tot_runs = tot_reps = 0
    comp_all = []
    nontriv = 0
    for pi, pr in enumerate(projects):
        r = by[pi]
        comp = competing(pr)
        comp_all.append(dict(comp, project=pr["name"], shape=pr["shape"], features=pr["features"]))
        case = {"project": pr, "runs_a": runs_a, "runs_b": runs_b, "reps": reps, "nprocs": nprocs}
        ncomp = comp["named_pairs_equal_name"] + comp["root_pairs_equal_name"] + comp["paths_with_two_aliases"] + (comp["nonempty_package_comments"] >= 2)
        if ncomp:
            nontriv += 1
        # ---- oracle 1: the bytes of the generated file
        fobs = None
        file_sha = None
        if not pr.get("error"):
            ra, first_a = r["A"]
            rb, first_b = r["B"]
            tot_runs += len(ra) + len(rb)
            allr = [("dir", x) for x in ra] + [("copy", x) for x in rb]
            bad = [(w, x) for w, x in allr if x[0] is None or x[1] != 0]
            if bad:
                # not raised at once: if the tree hands out names that do not compile, the comparison below says why
                build_failures.append("generated project %s does not build with mage: %s" % (pr["name"], bad[0]))
            allr = [(w, x) for w, x in allr if x[0] is not None]
            shas = sorted({x[0] for _, x in allr})
            if len(shas) > 1 and n_oracle < 3:
                n_oracle += 1
                hist = {}
                for w, x in allr:
                    hist[w + ":" + x[0][:10]] = hist.get(w + ":" + x[0][:10], 0) + 1
                ctx.violation({"kind": "oracle", "clause": "mage_output_file.go is not byte-identical across %d fresh runs of `mage -keep -l` on the same magefiles" % len(allr),
                               "digests": hist}, case=case)
            if first_a is not None:
                file_sha = hashlib.sha1(first_a.encode("utf-8", "replace")).hexdigest()
                fobs = read_main(first_a)
        # ---- oracle 2: the projections of the in-process repetitions
        ops = [r["op%d" % k] for k in range(nprocs)]
        tot_reps += sum(o["reps"] for o in ops)
        seen, errtexts = {}, {}
        for k, o in enumerate(ops):
            for d in o["distinct"]:
                p = dict(d["proj"], main_sha1="")
                seen.setdefault(json.dumps(p, sort_keys=True), []).append((k, d["count"], d["first_rep"]))
                if d.get("err_text"):
                    errtexts[json.dumps(p, sort_keys=True)] = d["err_text"][-600:]
        if len(seen) > 1 and n_oracle < 3:
            n_oracle += 1
            variants = []
            for js, occ in seen.items():
                p = json.loads(js)
                variants.append({"description": p.get("desc", ""), "association": [(i["path"], i["unique"], i["alias"]) for i in p["imports"]], "aliases": p["aliases"],
                                 "default": p["default"], "err": p["err"], "err_text": errtexts.get(js, ""), "seen_in(process,count,first_rep)": occ})
            ctx.violation({"kind": "oracle", "clause": "parse.PrimaryPackage + sort gives %d different results for the same magefiles over %d repetitions in %d processes" % (len(seen), sum(o["reps"] for o in ops), nprocs),
                           "variants": variants[:4]}, case=case)
        main_shas = sorted({d["proj"]["main_sha1"] for o in ops for d in o["distinct"] if d["proj"]["main_sha1"]})
        if len(main_shas) > 1 and len(seen) == 1 and n_oracle < 3:
            n_oracle += 1
            ctx.violation({"kind": "oracle", "clause": "mage.GenerateMainfile renders the same template data to %d different byte sequences over %d repetitions" % (len(main_shas), sum(o["reps"] for o in ops[:2])),
                           "digests": main_shas[:6]}, case=case)
        proj = ops[0]["distinct"][0]["proj"]
        if bool(proj["err"]) != bool(pr.get("error")):
            build_failures.append("generated project %s: PrimaryPackage %s: %s" % (pr["name"], "failed" if proj["err"] else "did not fail", ops[0]["distinct"][0].get("err_text", "")))
        # ---- oracle 3: the names used for the imported packages are pairwise distinct
        uniq = [i["unique"] for i in proj["imports"]]
        if len(set(uniq)) != len(uniq) and n_oracle < 3:
            n_oracle += 1
            ctx.violation({"kind": "oracle", "clause": "two imported packages share one name in the generated program",
                           "association": [(i["path"], i["unique"]) for i in proj["imports"]]}, case=case)
        # the in-process rendering and the fresh processes must agree byte for byte
        if file_sha and main_shas and len(main_shas) == 1 and main_shas[0] != file_sha and not ctx.violations:
            ctx.violation({"kind": "model-vs-implementation", "correspondence": "bytes written by `mage -keep` vs parse.PrimaryPackage + sort.Sort(Funcs), sort.Sort(Imports) + mage.GenerateMainfile in-process",
                           "note": "mage.Invoke no longer prepares the template data the way Model/Gen.template_data (and the harness) does",
                           "file_sha1": file_sha, "in_process_sha1": main_shas[0]}, case=case, found_input=False)
        items.append(case_term(pr, ops[0], proj, fobs))
        item_proj.append((pr, proj, fobs))
        # ---- oracle 7: the invocation (flags, environment) must not reach the generated source
        if "I" in r:
            shas = {}
            base_t = tag_t = None
            for label, sha, rc, targets in r["I"]:
                inv_runs += 1
                if label == "-l":
                    base_t = targets
                if label == TAGS_LABEL:
                    tag_t = targets
                    continue                      # judged below: the tag legitimately changes the compiled file set
                if sha is None:
                    inv_nogen.append(label)
                else:
                    shas.setdefault(sha, []).append(label)
            if file_sha:
                shas.setdefault(file_sha, []).append("(plain `mage -keep -l`, %d runs)" % runs_a)
            if len(shas) > 1 and n_oracle < 5:
                n_oracle += 1
                ref = max(shas.values(), key=len)
                ctx.violation({"kind": "oracle", "clause": "the kept generated source differs between invocations (flags / environment) of mage on the same magefiles",
                               "deviating_invocations": {k[:10]: v for k, v in shas.items() if v is not ref}, "agreeing": len(ref)}, case=case)
            # GOFLAGS=-tags=t: the go tool's own listing under these flags includes x_tag.go of the constrained packages,
            # so exactly their Tagged<k> targets are added, once per import of the package
            if base_t is not None and tag_t is not None:
                want_new = sorted((i["alias"] + ":" if i["alias"] else "") + "Tagged%d" % pr["pkgs"][i["path"][len("example.test/" + pr["name"]) + 1:]]["constrained"]
                                  for i in proj["imports"] if pr["pkgs"].get(i["path"][len("example.test/" + pr["name"]) + 1:], {}).get("constrained") is not None)
                got_new = sorted(set(tag_t) - set(base_t))
                if (got_new != want_new or not set(base_t) <= set(tag_t)) and n_oracle < 5:
                    n_oracle += 1
                    ctx.violation({"kind": "oracle", "clause": "with GOFLAGS=-tags=t the targets of the generated main are not those of the plain run plus the targets of the files the go tool adds under that tag",
                                   "added": got_new, "expected_added": want_new, "lost": sorted(set(base_t) - set(tag_t))}, case=case)
        # ---- oracle 8: the location of the checkout must not reach the generated source
        if "L" in r:
            shas = {}
            for x in r["L"]:
                loc_runs += 1
                if x["sha1"]:
                    shas.setdefault(x["sha1"], []).append("%s: %s" % (x["location"], x["cmd"]))
            bycmd = {}
            for x in r["L"]:
                bycmd.setdefault(x["cmd"], set()).add(x["sha1"])
            bad = {c: len(v) for c, v in bycmd.items() if len(v) > 1}
            if bad and n_oracle < 5:
                n_oracle += 1
                ctx.violation({"kind": "oracle", "clause": "identical copies of the project in differently named directories, identical command line: the kept generated source differs",
                               "commands_with_several_sources": bad, "runs_by_source": {k[:10]: v for k, v in shas.items()}}, case=case)
        # ---- oracle 9: a DIFFERENT project generated after this one in the same process must come out as in a fresh process
        if "Y" in r:
            pj, seqy = r["Y"]
            cross_gens += sum(a["reps"] for a in seqy)
            wantj = json.dumps(dict(by[pj]["op0"]["distinct"][0]["proj"], main_sha1=""), sort_keys=True)
            gotj = [json.dumps(dict(d["proj"], main_sha1=""), sort_keys=True) for d in seqy[1]["distinct"]]
            if gotj != [wantj] and n_oracle < 5:
                n_oracle += 1
                g, w_ = json.loads(gotj[0]), json.loads(wantj)
                shared = sorted({i["name"] for i in g["imports"]} & {i["name"] for i in proj["imports"]})
                ctx.violation({"kind": "oracle", "clause": "project %s generated after project %s in ONE process differs from what a fresh process generates for it: the result depends on what the process generated before"
                               % (projects[pj]["name"], pr["name"]), "package_names_in_both_projects": shared,
                               "after": [(i["path"], i["unique"]) for i in g["imports"]], "fresh_process": [(i["path"], i["unique"]) for i in w_["imports"]]},
                              case={"projects": [pr, projects[pj]], "sequence": "in-process: first, then second (2 repetitions each)"})
        # ---- oracle 5: two projects in one process (same module path and import paths, one imported package differs)
        if "X" in r:
            seq, fresh_var = r["X"]
            cross_gens += sum(a["reps"] for a in seq) + fresh_var["reps"]
            strip = lambda a: [json.dumps(dict(d["proj"], main_sha1=""), sort_keys=True) for d in a["distinct"]]
            want = [[json.dumps(dict(proj, main_sha1=""), sort_keys=True)], strip(fresh_var), [json.dumps(dict(proj, main_sha1=""), sort_keys=True)]]
            labels = ["the project", "the same module with %s changed (target added)" % pr["variant"]["path"], "the project again"]
            for k in range(3):
                if strip(seq[k]) != want[k] and n_oracle < 3:
                    n_oracle += 1
                    got = json.loads(strip(seq[k])[0]); exp = json.loads(want[k][0])
                    ctx.violation({"kind": "oracle", "clause": "generation %d of a sequence in ONE process (%s) differs from what a fresh process generates from the same sources: "
                                   "the result depends on what the process handled before" % (k + 1, labels[k]),
                                   "in_sequence": {"imports": [(i["path"], i["name"], i["funcs"]) for i in got["imports"]], "err": got["err"]},
                                   "fresh_process": {"imports": [(i["path"], i["name"], i["funcs"]) for i in exp["imports"]], "err": exp["err"]}}, case=case)
                    break
            items.append(case_term(pr, fresh_var, seq[1]["distinct"][0]["proj"], None))
            item_proj.append((pr, seq[1]["distinct"][0]["proj"], {"cross_project": "variant generated second in one process"}))
        # ---- oracle 4: a history of edits of an imported package, magefiles byte-identical, one cache directory
        for st in r.get("H", []):
            hist_gens += (st["kept"] is not None) + (st["fresh"] is not None)
            tag = "%s/%s" % (st["mode"], st["label"])
            hist_cov[tag] = hist_cov.get(tag, 0) + 1
            if st["fresh"] is None or st["rc"][1] != 0:
                build_failures.append("history of %s, state %s: `mage -keep -l` with a fresh cache failed: %s" % (pr["name"], tag, st["err"][1]))
                continue
            if st["kept"] is None:
                # hash-fast mode runs the cached binary without generating anything (documented; C08's subject)
                hist_cov["no generation (cached binary ran)"] = hist_cov.get("no generation (cached binary ran)", 0) + 1
                if st["mode"] == "default":
                    build_failures.append("history of %s, state %s: no main file generated: %s" % (pr["name"], tag, st["err"][0]))
                continue
            first = [x for x in r["H"] if x["mode"] == st["mode"] and x["state"] == 0][0]
            clause = None
            if st["kept"] != st["fresh"]:
                clause = ("after the imported package %s was edited (%s; magefiles byte-identical) `mage -keep -l` with the cache directory of the earlier runs "
                          "generates a main file that differs from the one generated from the same sources with a fresh cache directory" % (pr["history"]["path"], st["label"]))
            elif st["label"] == "original-again" and first["kept"] is not None and st["kept"] != first["kept"]:
                clause = "back at the first contents of %s the generated main file is not the first one again" % pr["history"]["path"]
            if clause and n_oracle < 3:
                n_oracle += 1
                diff = [(a, b) for a, b in zip(st["kept"].splitlines(), st["fresh"].splitlines()) if a != b][:3]
                ctx.violation({"kind": "oracle", "clause": clause, "cache_mode": st["mode"], "state": st["state"],
                               "kept_cache_sha1": hashlib.sha1(st["kept"].encode()).hexdigest(), "fresh_cache_sha1": hashlib.sha1(st["fresh"].encode()).hexdigest(),
                               "first_differing_lines(kept,fresh)": diff, "lines(kept,fresh)": (len(st["kept"].splitlines()), len(st["fresh"].splitlines()))}, case=case)
            if st["op"] is not None:
                hp = st["op"]["distinct"][0]["proj"]
                items.append(case_term(pr, st["op"], hp, read_main(st["kept"])))
                item_proj.append((pr, hp, {"history_state": tag}))
        if pi < 2:
            ctx.sample({"project": pr["name"], "competing": comp, "description": proj.get("desc", ""), "association": [(i["path"], i["unique"]) for i in proj["imports"]],
                        "aliases": proj["aliases"][:4], "default": proj["default"]})
    # ---- oracle 6: the compiled output over layouts x creation orders x file systems
    citems, citem_info = [], []
    compile_runs = occupied_runs = cache_runs = 0
    raw_not_sorted = 0
    for ci, cp in enumerate(compile_projects):
        runs = by.get(("c", ci), {}).get("C", [])
        ccase_ = {"compile_project": cp}
        compile_runs += len(runs)
        for x in runs:
            if x["rc"] != 0 or x["argv"] is None:
                build_failures.append("compile project %s (%s, %s, %s): mage -compile failed: %s" % (cp["name"], x["layout"], x["order"], x["base"], x["err"]))
        runs = [x for x in runs if x["argv"] is not None]
        for x in runs:
            go_entries = [e for e in x["entries"] if e.endswith(".go")]
            raw_not_sorted += go_entries != bsorted(go_entries)
        def table(key, rs):
            t = {}
            for x in rs:
                t.setdefault(json.dumps(x[key]), []).append("%s/%s/%s" % (x["layout"], x["order"], "shm" if x["base"].startswith("/dev/shm") else "tmp"))
            return t
        ta = table("argv", runs)
        ti = table("init", runs)
        if len(ta) > 1 and n_oracle < 4:
            n_oracle += 1
            ctx.violation({"kind": "oracle", "clause": "the argument list of the `go build` run by `mage -compile` differs between creation orders / file systems / layouts for the same magefiles",
                           "argv_by_run": {k: v for k, v in ta.items()}}, case=ccase_)
        elif len(ti) > 1 and n_oracle < 4:
            n_oracle += 1
            ctx.violation({"kind": "oracle", "clause": "the compiled binaries run the init functions of the magefiles in different orders", "init_by_run": ti}, case=ccase_)
        for layout in LAYOUTS:
            tb = table("sha1", [x for x in runs if x["layout"] == layout])
            if len(tb) > 1 and n_oracle < 4:
                n_oracle += 1
                ctx.violation({"kind": "oracle", "clause": "`mage -compile` (GOFLAGS=-trimpath) output is not byte-identical across creation orders / file systems for layout %s" % layout,
                               "sha1_by_run": tb}, case=ccase_)
        # repeated -compile to an occupied output path
        for x in runs:
            for how in ("earlier-binary", "unrelated-file", "symlink"):
                a, b = [o for o in x.get("repeats", []) if o["occupied_by"] == how] or (None, None)
                if a is None:
                    continue
                occupied_runs += 2
                key = lambda o: (o["rc"], o["bin"], o["usage"])
                clause = None
                if key(a) != key(b):
                    clause = "two `mage -keep -compile out.bin` processes with the output path occupied the same way (%s; one with -keep, one without) differ in (exit status, binary, usage text)" % how
                else:
                    for o in (a, b):
                        if o["rc"] == 0 and ((o["bin"], o["usage"]) != (x["first"]["bin"], x["first"]["usage"]) or (o["src"] and o["src"] != x["first"]["src"])):
                            clause = ("`mage -keep -compile out.bin` with the output path occupied (%s) generates another main source / binary / usage text than "
                                      "the first compile of the same magefiles to the free path" % how)
                if clause and n_oracle < 5:
                    n_oracle += 1
                    ctx.violation({"kind": "oracle", "clause": clause, "layout": x["layout"], "first": {k: x["first"][k] for k in ("rc", "src", "bin", "usage")},
                                   "repetitions": [{k: o[k] for k in ("rc", "src", "bin", "usage", "err")} for o in (a, b)]}, case=ccase_)
        # the cache entry over cache directories with different attributes
        kobs = by.get(("c", ci), {}).get("K") or []
        names = {}
        for v in kobs:
            cache_runs += len(v["runs"])
            for k, rr in enumerate(v["runs"]):
                if rr["rc"] != 0 or rr["exe_base"] is None:
                    build_failures.append("cache directory %s: `mage where` failed: %s" % (v["variant"], rr["err"]))
                    continue
                names.setdefault(rr["exe_base"], []).append(v["variant"])
                clause = None
                if not rr["exe_in_cache_dir"]:
                    clause = "the compiled magefile does not run from the cache directory (variant %s): the cache entry is not at <cache dir>/<name>" % v["variant"]
                elif rr["listing"] != [rr["exe_base"]]:
                    clause = "after `mage where` the cache directory (variant %s) holds %r, not exactly the entry that ran (%s)" % (v["variant"], rr["listing"], rr["exe_base"])
                if clause and n_oracle < 5:
                    n_oracle += 1
                    ctx.violation({"kind": "oracle", "clause": clause, "variant": v["variant"], "runs": v["runs"]}, case=ccase_)
                    break
        if len(names) > 1 and n_oracle < 5:
            n_oracle += 1
            ctx.violation({"kind": "oracle", "clause": "the name of the cache entry for the same magefiles differs between cache directories / processes", "names": names}, case=ccase_)
        for x in runs:
            citems.append("{| cc_out := \"OUT\"; cc_ldflags := %s; cc_entries := %s; cc_magefiles := %s; cc_argv := %s |}" % (
                coq_str(cp["ldflags"]), coq_list([coq_str(e) for e in x["entries"]]), coq_list([coq_str(f) for f in cp["files"]]),
                coq_list([coq_str(a) for a in x["argv"]])))
            citem_info.append((cp, x))
    if citems:
        cm = ctx.coq_eval_shards("ccases_C18", "From Mage Require Import Base.Strs Model.Gen Run.eval_C18.\nDefinition mismatches := cmismatches.\n", citems, per_shard=200)
        if cm and not ctx.violations:
            idx, body = cm[0]
            cp, x = citem_info[idx]
            ctx.violation({"kind": "model-vs-implementation", "correspondence": "Run/eval_C18.cmismatches (Model/Gen.compile_args)", "model_says": body[:600],
                           "implementation": {"argv": x["argv"], "directory_listing": x["entries"], "layout": x["layout"]}}, case={"compile_project": cp}, found_input=False)
    ctx.log("oracle done")
    header = "From Mage Require Import Base.Strs Model.Gen Run.eval_C18.\n"
    mism = ctx.coq_eval_shards("cases_C18", header, items, per_shard=max(1, (len(items) + NCPU - 1) // NCPU)) if items else []
    if mism and not ctx.violations:
        for idx, body in mism[:3]:
            pr, proj, fobs = item_proj[idx]
            ctx.violation({"kind": "model-vs-implementation", "correspondence": "Run/eval_C18.mismatches", "model_says": body[:1200],
                           "implementation": {"projection": proj, "generated_file": fobs}},
                          case={"project": pr, "runs_a": runs_a, "runs_b": runs_b, "reps": reps, "nprocs": nprocs}, found_input=False)
    if build_failures and not ctx.violations:
        raise BuildError("; ".join(build_failures)[:3000])
    cov["cross_project_generations"] = cross_gens
    cov["location_runs"] = loc_runs
    cov["invocation_runs"] = inv_runs
    cov["invocation_environment_names"] = names_env
    cov["invocations_without_generation"] = sorted(set(inv_nogen))
    cov["compile_runs"] = compile_runs
    cov["compiles_to_an_occupied_output_path"] = occupied_runs
    cov["cache_directory_attribute_runs"] = cache_runs
    cov["compile_matrix"] = {"layouts": LAYOUTS, "creation_orders": ["listed", "reverse"], "file_systems": ["TMPDIR"] + (["/dev/shm"] if shm else []),
                             "runs_whose_raw_directory_order_is_not_name_order": raw_not_sorted}
    cov["history_generations"] = hist_gens
    cov["history_states"] = hist_cov
    cov["histories"] = sum(1 for p in projects if p.get("history") and not p.get("error"))
    cov["evaluations"] = tot_runs + tot_reps + hist_gens + cross_gens + compile_runs + occupied_runs + cache_runs + inv_runs + loc_runs
    cov["distinct_nontrivial"] = nontriv
    cov["rule"] = ("one evaluation = one generation of the main file (a fresh `mage -keep -l` process, or one in-process parse.PrimaryPackage+sort(+render) repetition); "
                   "distinct = generated projects; non-trivial = at least one competing pair (equal package names among named or among root imports, one path with two aliases, or two non-empty package comments)")
    cov["projects"] = len(projects)
    cov["fresh_process_runs"] = tot_runs
    cov["fresh_runs_per_project"] = {"dir": runs_a, "copy_reverse_creation_order_other_dirname": runs_b}
    cov["in_process_repetitions"] = tot_reps
    cov["repetitions_per_process"] = reps
    cov["processes_per_project"] = nprocs
    cov["competing_entries_per_project"] = comp_all
    cov["shapes"] = {s: sum(1 for p in projects if p["shape"] == s) for s in sorted({p["shape"] for p in projects})}
    cov["model_cases"] = len(items)
    cov["model_mismatches"] = len(mism)
    cov["traces_validated_against_impl"] = len(items) - len(mism)
    cov["detection"] = ("a dependence on the iteration order of a one-bucket Go map (<= 8 entries) with two competing entries in adjacent slots shows in one "
                        "repetition with probability >= 1/8 (random start offset of the range); P(miss in %d repetitions) <= (7/8)^%d" % (reps * nprocs, reps * nprocs))
