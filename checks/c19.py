"""C19 - mage:import exposes exactly the imported package's targets under its alias.

Theorems: coq/Props/C19.v over Model/ImportTag.v.  Correspondence: generated projects (placement of
the tag x length of the comment group 0..12 x spelling x root/named x start place), run with the
real mage binary: `mage -l` and every listed target run by its listed name (CALL def-ids).  The
model is evaluated by coqc on the import declarations as go/parser reports them
(harness/importast, standard library only) and on what `go list` really answers in the magefile
directory and in the start directory.  Oracle: lib/c19gen.oracle_expected, the property sentence
read on the abstract project the sources were rendered from."""
import json, os, re
from vlib import *
import projlib
import c19gen as G

PLACEMENTS = ["single_above", "single_trail", "group_lead", "group_trail"]
LAYOUTS = ["inside", "outside", "ownmod", "sibling", "inside-root", "parent", "outside-rel"]
HOST = tuple(sh(["go", "env", "GOOS", "GOARCH"], env=goenv())[1].split())       # the platform mage builds and runs magefiles for
_FOS, _FARCH = G.FOREIGN.get(HOST[0], "plan9"), G.FOREIGN.get(HOST[1], "riscv64")
ENVS = [{"GOOS": _FOS}, {"GOARCH": _FARCH}, {"GOOS": _FOS, "GOARCH": _FARCH}, {"GOOS": "notanos", "GOARCH": "bogus"}, {}]
# the go tool's environment: build tags through GOFLAGS (what is compiled is what must be exposed)
GOFLAGS_ENVS = [("-mod=mod -tags=t", ["t"]), ("-mod=mod -tags=t,u", ["t", "u"]), ("-mod=mod", []), ("-tags=u -mod=mod", ["u"])]
_GOCACHE, _GOPATH = sh(["go", "env", "GOCACHE", "GOPATH"], env=goenv())[1].split()[:2]
# HOME unset (value None = the variable is removed); the go tool then needs GOCACHE / GOPATH spelled out
NO_HOME = {"HOME": None, "GOCACHE": _GOCACHE, "GOPATH": _GOPATH}


def mrun(mage, cwd, args, env=None, timeout=180):
    """projlib.Mage.run with an environment in which a value None REMOVES the variable"""
    import subprocess
    env = env or {}
    e = mage.env({k: v for k, v in env.items() if v is not None})
    for k, v in env.items():
        if v is None:
            e.pop(k, None)
    try:
        p = subprocess.run([mage.bin] + list(args), cwd=cwd, env=e, input=b"", timeout=timeout, stdout=subprocess.PIPE, stderr=subprocess.PIPE)
        rc, out, err = p.returncode, p.stdout, p.stderr
    except subprocess.TimeoutExpired as ex:
        rc, out, err = 124, ex.stdout or b"", (ex.stderr or b"") + b"\n[timeout]"
    return {"rc": rc, "out": out.decode("utf-8", "replace"), "err": err.decode("utf-8", "replace")}


# the first run of a project (`mage -l`) parses and compiles; the later ones reuse that binary
FAST = {"MAGEFILE_HASHFAST": "1"}


# ------------------------------------------------------------------ the plan of specs
def plan_specs(rng, quick):
    """[(placement, n_pre, kind, position, spelling, detached)]: every placement x every length,
    every placement x every spelling x root/alias, and the shapes that are NOT tags"""
    plan = []
    rounds = 1 if quick else 12
    for _ in range(rounds):
        for pl in PLACEMENTS:
            for n in range(13):
                plan.append((pl, n, rng.choice(["root", "alias", "alias"]), "last", None, False))
            for sp in G.SPELLINGS:
                for kind in ("root", "alias"):
                    plan.append((pl, rng.choice([0, 0, 1, 2, 3, 7, 8, 9]), kind, "last", sp, False))
            plan.append((pl, rng.randrange(4), "three", "last", None, False))
            plan.append((pl, rng.randrange(4), "nottag", "last", None, False))
            plan.append((pl, rng.choice([0, 1, 5, 8, 9]), "untagged", "none", None, False))
            plan.append((pl, rng.choice([0, 1, 8]), "both", "last", None, False))
        for pl in ("single_above", "group_lead"):
            for pos in ("followed", "first"):
                for n in (0, 7, 8):
                    plan.append((pl, n, rng.choice(["root", "alias"]), pos, None, False))
            plan.append((pl, rng.choice([0, 2, 8]), "alias", "last", None, True))       # a blank line detaches the group
            plan.append((pl, rng.choice([0, 2]), "both", "last", None, True))           # ... the trailing comment still counts
    rng.shuffle(plan)
    return plan


def gen_projects(rng, quick):
    plan = plan_specs(rng, quick)
    projects = []
    i = 0
    while plan:
        k = min(len(plan), rng.choice([3, 4, 5, 6, 7]))
        chunk, plan = plan[:k], plan[k:]
        name = "c%04d" % i
        shared = rng.choice(G.ALIASES) if rng.random() < 0.25 else None       # several packages under one alias
        specs = [G.gen_spec(rng, j, pl, n, kind, pos, alias=shared, sp=sp, detached=det) for j, (pl, n, kind, pos, sp, det) in enumerate(chunk)]
        npk = len(specs)
        # the same package once more: as a root import next to a named one (or next to another bare
        # tag: one import since 4a102aa), under the same alias again (one import), or under a SECOND
        # alias (exposed under both; every third project has one)
        if rng.random() < 0.35 or i % 3 == 0:
            cand = [j for j in range(npk) if G.oracle_tag(specs[j]) is not None] or [0]
            named = [j for j in cand if G.oracle_tag(specs[j])]
            j = rng.choice(named if (named and i % 3 == 0) else cand)
            a = G.oracle_tag(specs[j])
            how = "second" if i % 3 == 0 else rng.choice(["root", "same", "second"] if a else ["root", "root", "second"])
            if how == "root":
                again = G.gen_spec(rng, j, rng.choice(PLACEMENTS), rng.randrange(3), "root")
            elif how == "same":
                again = G.gen_spec(rng, j, rng.choice(PLACEMENTS), rng.randrange(3), "alias", alias=a)
            else:
                other = rng.choice([x for x in G.ALIASES if x.lower() != (a or "").lower()])
                again = G.gen_spec(rng, j, rng.choice(PLACEMENTS), rng.randrange(3), "alias", alias=other)
            again["name"] = "_"
            again["meta"]["kind"] = "again-" + how
            specs.append(again)
        # import paths written as raw string literals (every second project has one on a tagged spec)
        for s in specs:
            if rng.random() < 0.12:
                s["raw"] = True
        if i % 2 == 1:
            tagged = [s for s in specs if G.oracle_tag(s) is not None]
            if tagged:
                rng.choice(tagged)["raw"] = True
        proj = G.assemble(rng, name, LAYOUTS[i % len(LAYOUTS)], specs, npk)
        # every second project: a TAGGED package whose targets are all namespace methods
        if i % 2 == 0:
            tg = sorted({s["pkg"] for s in specs if G.oracle_tag(s) is not None})
            if tg:
                j = rng.choice(tg)
                proj["packages"][j] = G.gen_package(rng, j, shape="ns")
        # every second project (the odd ones): targets of one or two TAGGED packages live in files with
        # platform constraints, and mage is started in one of five environments; the exposure is
        # the host's in each of them
        if i % 2 == 1:
            tg = sorted({s["pkg"] for s in specs if G.oracle_tag(s) is not None})
            for j in rng.sample(tg, min(len(tg), rng.choice([1, 2]))):
                G.add_platform_files(rng, proj["packages"][j], HOST[0], HOST[1])
            proj["env"] = ENVS[(i // 2) % len(ENVS)]
        # every third project: source files of a TAGGED package (and a magefile) that are symlinks (same
        # directory / elsewhere in the module / outside it / a chain), hard links, read-only, oddly
        # named; a directory with a .go name.  Which files count is what `go list .GoFiles` says.
        if i % 3 == 2:
            tg = sorted({s["pkg"] for s in specs if G.oracle_tag(s) is not None})
            if tg:
                k0 = (i // 3) * 4
                G.add_fs_shapes(rng, proj["packages"][rng.choice(tg)], [G.FS_SHAPES[(k0 + q) % len(G.FS_SHAPES)] for q in range(4)])
        # ... and, in other projects, a magefile of such a shape
        if i % 6 == 1:
            mfs = [f["name"] for f in proj["files"]]
            proj["mf_shapes"] = {rng.choice(mfs): G.FS_SHAPES[(i // 6) % 6]}
        # every fourth project: GOFLAGS with build tags in the environment, and targets of a TAGGED package
        # in files constrained on those tags
        if i % 4 == 3:
            tg = sorted({s["pkg"] for s in specs if G.oracle_tag(s) is not None})
            if tg:
                flags, active = GOFLAGS_ENVS[(i // 4) % len(GOFLAGS_ENVS)]
                G.add_tag_files(rng, proj["packages"][rng.choice(tg)], active, HOST[0])
                proj["env"] = dict(proj.get("env") or {}, GOFLAGS=flags)
        # some projects: HOME is not set
        if i % 7 == 5:
            proj["env"] = dict(proj.get("env") or {}, **NO_HOME)
        # declaration kinds that are no targets (unexported namespace types with exported methods, methods
        # of ordinary types, constructors, aliases / derived / embedded namespaces ...): in half of the
        # imported packages and in a third of the magefile packages; nothing of it may be exposed, and
        # the project must still build
        for pk in proj["packages"]:
            if rng.random() < 0.5:
                pk["zoo"] = True
        if rng.random() < 0.34:
            proj["local"]["zoo"] = True
        # every fourth project: a TAGGED package without any target (contributes nothing; since fix
        # 904a16e the generated main imports it as `_`); everything else is listed and runs
        if i % 4 == 1:
            tg = sorted({s["pkg"] for s in specs if G.oracle_tag(s) is not None})
            if len(tg) >= 2:
                j = rng.choice(tg)
                proj["packages"][j] = G.gen_package(rng, j, shape="empty")
        projects.append(G.rename_until_clash_free(rng, proj))
        i += 1
    projects += odd_projects(rng, i)
    projects += size_projects(rng, quick, i + 10)
    for r in range(1 if quick else 6):
        projects += multi_projects(rng, i + 200 + 10 * r)
    projects += extreme_projects(rng, quick, i + 400)
    return projects


def size_projects(rng, quick, i0):
    """the SIZE dimensions: number of local targets 0..9, number of tagged imports 0..4 (root and
    aliased mixed), imported targets per package 0..5; names drawn from a pool whose initials are
    spread over the alphabet, so local and imported names interleave in every sort order.  The
    first shapes sit on the boundaries of the growth steps of a Go slice (3+1, 5+3, 6+2, 7+1, 9+7
    local + imported targets, root imports), the others are random."""
    fixed = [(3, [("root", 1)]), (5, [("root", 2), ("alias", 1)]), (6, [("root", 2)]), (7, [("root", 1)]),
             (9, [("root", 3), ("alias", 4)]), (5, [("root", 3)]), (0, [("root", 5), ("alias", 0), ("root", 2)]),
             (8, [("alias", 5), ("root", 1)]), (4, []), (3, [("alias", 1)])]
    shapes = list(fixed)
    for _ in range(6 if quick else 90):
        shapes.append((rng.randrange(10), [(rng.choice(["root", "root", "alias"]), rng.choice([0, 1, 1, 2, 3, 4, 5])) for _ in range(rng.randrange(5))]))
    out = []
    for k, (nlocal, imps) in enumerate(shapes):
        specs = [G.gen_spec(rng, j, rng.choice(PLACEMENTS), rng.choice([0, 0, 1, 2]), kind) for j, (kind, _) in enumerate(imps)]
        proj = G.assemble(rng, "n%04d" % (i0 + k), LAYOUTS[k % len(LAYOUTS)], specs, len(imps), nlocal=nlocal)
        for j, (_, nf) in enumerate(imps):
            proj["packages"][j] = G.gen_package(rng, j, shape="funcs" if nf else "empty", nfuncs=nf)
        proj["packages"] and proj["packages"][0].update(nested=None)
        proj["size"] = {"local": nlocal, "imports": [[kd, nf] for kd, nf in imps]}
        G.rename_until_clash_free(rng, proj)
        # an imported root name sorts before a local one whenever both exist: give the greatest name to a local target
        loc = proj["local"]["funcs"]
        roots = [f for j, (kd, _) in enumerate(imps) if kd == "root" for f in proj["packages"][j]["funcs"]]
        if loc and roots:
            mx = max(roots, key=lambda f: f["name"])
            ml = max(loc, key=lambda f: f["name"])
            if mx["name"] > ml["name"]:
                pk = next(pk for pk in proj["packages"] if any(f is mx for f in pk["funcs"]))
                a, b = mx["name"], ml["name"]
                ren = {a: b}
                mx["name"], ml["name"] = b, a
                if pk.get("default") == a:
                    pk["default"] = b
                pk["aliases"] = {k2: (b if v == a else v) for k2, v in (pk.get("aliases") or {}).items()}
                if proj["local"].get("default") == b:
                    proj["local"]["default"] = a
            G.oracle_expected(proj)
        out.append(proj)
    return out


def extreme_projects(rng, quick, i0):
    """SIZE extremes of imported packages: (1) hundreds of source files with long names - the file
    list `go list` prints is longer than 64 KiB (thorough: 1 MiB) - with targets in the file that
    sorts first, in files that sort last, in a file with a very long name; (2) one file with a
    500 targets (thorough: 2000), a target with a very long name, a very long doc comment, a
    package at the end of a deep import path.  Every target must be exposed."""
    out = []
    # (1) many files
    proj = G.assemble(rng, "x%04d" % i0, "inside", [G.gen_spec(rng, 0, "group_lead", 1, "alias"), G.gen_spec(rng, 1, "single_above", 0, "root")], 2, nlocal=2)
    pk = G.gen_package(rng, 0, shape="funcs", nfuncs=1)
    pk["filler"] = {"count": 400, "namelen": 180} if quick else {"count": 4600, "namelen": 235}
    names = rng.sample(G.FUNC_NAMES, 8)
    pk["funcs"][0]["name"] = names[0]
    pk["default"], pk["aliases"], pk["nested"] = None, {}, None
    for nm, part in zip(names[1:5], ["aa_first", "zz_release", "zz_" + "y" * 170, "ff%05d_mid" % (pk["filler"]["count"] // 2)]):
        pk["funcs"].append({"name": nm, "sig": rng.choice(G.SIGS), "file": part})
    proj["packages"][0] = pk
    proj["packages"][1]["nested"] = None
    proj["extreme"] = "many-files"
    out.append(G.rename_until_clash_free(rng, proj))
    # (2) many targets, long names, long docs, deep path
    proj = G.assemble(rng, "x%04d" % (i0 + 1), "parent", [G.gen_spec(rng, 0, "single_trail", 0, "root"), G.gen_spec(rng, 1, "group_trail", 2, "alias")], 2, nlocal=1)
    n = 500 if quick else 2000
    bulk = {"dir": "imp/p0", "pkg": "p0", "funcs": [{"name": "Bulk%04d" % k, "sig": "plain" if k % 3 else "err"} for k in range(n)],
            "ns": [{"name": "Wide", "methods": [{"name": "M%03d" % k, "sig": "plain"} for k in range(50)]}], "default": "Bulk0001", "aliases": {"zzbulk": "Bulk0002"},
            "unexported": [], "nontarget": False, "nested": None, "shape": "bulk"}
    bulk["funcs"].append({"name": "L" + "ong" * 66, "sig": "ctx"})
    bulk["funcs"].append({"name": "Documented", "sig": "plain", "longdoc": 120})
    proj["packages"][0] = bulk
    deep = G.gen_package(rng, 1, shape="both")
    deep["dir"] = "imp/" + "/".join("d%02d" % k for k in range(12)) + "/p1"
    deep["nested"] = None
    proj["packages"][1] = deep
    proj["local"]["funcs"][0]["name"] = "Zlocal"
    proj["local"]["ns"] = []
    if proj["local"].get("default"):
        proj["local"]["default"] = "Zlocal"
    proj["extreme"] = "many-targets"
    G.oracle_expected(proj)
    out.append(proj)
    return out


ARRANGEMENTS = ["one-block", "two-blocks", "two-files", "two-files-later-first", "singles-one-file"]


def multi_projects(rng, i0):
    """the SAME package imported several times in one project: bare+alias, alias+bare, alias+alias
    (same alias, in another letter case), alias+alias (different), alias+bare+alias2, bare+bare,
    bare+alias+bare - on seven packages of one project, in five arrangements of the two (three)
    specs: one import block, two blocks, two magefiles (either name order), single-line imports.
    Every exposure the tags ask for must be there, once."""
    out = []
    for k, arr in enumerate(ARRANGEMENTS):
        proj = G.assemble(rng, "m%04d" % (i0 + k), LAYOUTS[(k + 3) % len(LAYOUTS)], [], 7)
        for pk in proj["packages"]:
            pk["nested"] = None
        al = rng.sample([a for a in G.ALIASES if a.lower() not in ("tools", "docker")], 6)
        same = al[2]
        combos = [[("root", None), ("alias", al[0])],
                  [("alias", al[1]), ("root", None)],
                  [("alias", same.lower()), ("alias", same.upper())],
                  [("alias", al[3]), ("alias", al[4])],
                  [("alias", al[5]), ("root", None), ("alias", al[0])],
                  [("root", None), ("root", None)],                       # bare twice: listed once, runs, has help
                  [("root", None), ("alias", al[3]), ("root", None)]]
        grouped = arr in ("one-block", "two-blocks", "two-files")
        rounds = [[], [], []]          # the first / second / third spec of every package
        for j, combo in enumerate(combos):
            for r, (kind, alias) in enumerate(combo):
                pl = rng.choice(["group_lead", "group_trail"] if grouped else ["single_above", "single_trail"])
                s = G.gen_spec(rng, j, pl, rng.choice([0, 0, 1, 2]), kind, alias=alias)
                s["name"] = "_"
                s["meta"]["kind"] = "multi-" + kind
                rounds[r].append(s)
        for r in rounds:
            rng.shuffle(r)
        def block(specs):
            return [{"kind": "group", "gdoc": [], "specs": specs}] if grouped else [{"kind": "single", "gdoc": [], "specs": [s]} for s in specs]
        if arr == "one-block":
            files = [{"name": "mf_0.go", "decls": block(rounds[0] + rounds[1] + rounds[2])}]
        elif arr in ("two-blocks", "singles-one-file"):
            files = [{"name": "mf_0.go", "decls": block(rounds[0]) + block(rounds[1]) + block(rounds[2])}]
        elif arr == "two-files":
            files = [{"name": "mf_a.go", "decls": block(rounds[0])}, {"name": "mf_b.go", "decls": block(rounds[1] + rounds[2])}]
        else:
            files = [{"name": "mf_a.go", "decls": block(rounds[1] + rounds[2])}, {"name": "mf_z.go", "decls": block(rounds[0])}]
        proj["files"] = files
        proj["multi"] = arr
        out.append(G.rename_until_clash_free(rng, proj))
    return out


def odd_projects(rng, i0):
    """shapes the property sentence does not decide (block comments, a malformed leading tag line
    next to a well-formed trailing one): only the model is compared with the implementation on them"""
    def spec(pkg, lead=(), trail=None, raw=False, placement="single_above"):
        return {"pkg": pkg, "name": "_", "lead": list(lead), "detached": False, "trail": trail, "raw": raw,
                "meta": {"placement": placement, "n_pre": max(0, len(lead) - 1), "kind": "odd", "position": "last"}}
    sets = [
        # block comments: s[2:] leaves the closing marker in the text
        [spec(0, ["/* mage:import */"]), spec(1, ["// c", "/* mage:import x */"], placement="group_lead"),
         spec(2, [], "/* mage:import */", placement="group_trail"), spec(3, ["/*mage:import*/"]), spec(4, ["// mage:import ok"])],
        # a malformed leading tag line hides a well-formed trailing one
        [spec(0, ["// mage:import a b"], "// mage:import t"), spec(1, ["// c", "// mage:import one two three"], "// mage:import", placement="group_lead"),
         spec(2, ["// mage:import fine"])],
        # a dangling symlink with a .go name in a tagged package: the go tool itself fails (measured), so does mage
        [spec(0, ["// mage:import"]), spec(1, ["// mage:import ok"])],
    ]
    out = []
    for k, specs in enumerate(sets):
        npk = 1 + max(s["pkg"] for s in specs)
        proj = G.assemble(rng, "o%04d" % (i0 + k), LAYOUTS[k % len(LAYOUTS)], [json.loads(json.dumps(s)) for s in specs], npk, odd=True)
        G.uniquify(rng, proj)       # all names distinct whatever the tags mean
        if k == 2:
            proj["packages"][0]["clutter"] = ["dangling:y.go"]
        out.append(proj)
    return out


# ------------------------------------------------------------------ running one project
def golist(mage, cwd, paths, gofiles=None, goflags=None):
    """{path: resolved?} as the go tool answers in cwd - with the HOST platform (mage.env() carries no
    GOOS/GOARCH; mage itself forces the host platform on every go command, internal.EnvWithCurrentGOOS)
    and, where the project is run with its own GOFLAGS (build tags), under those GOFLAGS.
    gofiles (a dict) receives {path: .GoFiles}."""
    if not paths:
        return {}
    rc, out, err = sh(["go", "list", "-e", "-f", "{{.ImportPath}}|{{.Dir}}|{{if .Error}}E{{end}}|{{join .GoFiles \",\"}}"] + paths,
                      cwd=cwd, env=mage.env({"GOFLAGS": goflags} if goflags else None), timeout=300)
    res = {p: False for p in paths}
    for l in out.splitlines():
        parts = l.split("|")
        if len(parts) == 4 and parts[0] in res:
            res[parts[0]] = bool(parts[1]) and parts[2] == ""
            if gofiles is not None and res[parts[0]]:
                gofiles[parts[0]] = parts[3].split(",")
    return res


def materialize(mage, proj, outside, files=None):
    """the project on disk: files, then links / modes / directories.  Returns the project directory."""
    ops = []
    rendered = G.render_project(proj, REPO, projlib.PROBE_GO, ops)
    files = files if files is not None else rendered
    def real(rel, d):
        return os.path.join(outside, rel[len("@outside/"):]) if rel.startswith("@outside/") else os.path.join(d, rel)
    d = mage.project({k: v for k, v in files.items() if not k.startswith("@outside/")}, name=proj["name"], probe=False, gomod=False)
    for k, v in files.items():
        if k.startswith("@outside/"):
            with open(real(k, d), "w") as f:
                f.write(v)
    for op in ops:
        path = real(op[1], d)
        os.makedirs(os.path.dirname(path), exist_ok=True)
        if op[0] == "symlink":
            os.symlink(real(op[2], d) if op[2].startswith("@outside/") else op[2], path)
        elif op[0] == "hardlink":
            os.link(real(op[2], d), path)
        elif op[0] == "chmod":
            os.chmod(path, op[2])
        elif op[0] == "mkdir":
            os.makedirs(path, exist_ok=True)
    return d


def run_project(ctx, mage, proj, outside):
    d = materialize(mage, proj, outside)
    cwd, pre, mf = G.start(proj, d, outside)
    obs = {"dir": d, "mf": mf, "cwd": cwd, "args": pre}
    penv = proj.get("env") or {}      # the environment mage is started in (GOOS/GOARCH of another platform ...)
    fast = dict(FAST, **penv)
    obs["env"] = penv
    tmo = 1200 if proj.get("extreme") else 180
    r = mrun(mage, cwd, pre + ["-l"], env=penv, timeout=tmo)
    obs["list_rc"] = r["rc"]
    if r["rc"] != 0:
        obs["error"] = projlib.stderr_class(r["err"])
        obs["stderr"] = re.sub(r"/\S*/(verif-C19-[^/\s]*/)", "", r["err"])[-1200:]
    else:
        lst = projlib.parse_list(r["out"])
        names = list(lst["targets"])
        obs["names"] = names
        obs["default_mark"] = lst["default"]
        obs["warnings"] = len(re.findall(r"warning:", r["err"]))
        if names:
            r2 = mrun(mage, cwd, pre + names, env=fast, timeout=tmo)
            obs["run_rc"] = r2["rc"]
            obs["calls"] = [c[0] for c in projlib.calls(r2["out"])]
            if r2["rc"] != 0:
                obs["run_err"] = r2["err"][-600:]
        else:
            obs["run_rc"], obs["calls"] = 0, []
        r3 = mrun(mage, cwd, pre, env=fast)
        obs["noarg_rc"] = r3["rc"]
        obs["noarg_calls"] = [c[0] for c in projlib.calls(r3["out"])]
        obs["noarg_lists"] = "Targets:" in r3["out"]
        # names declared as aliases inside imported packages must not be targets
        probes = []
        for pk in proj["packages"]:
            for a in (pk.get("aliases") or {}):
                probes.append(a)
        # -h of an imported and of a local name
        obs["help"] = []
        imported = [n for n in names if ":" in n]
        hn = ([imported[len(imported) // 2]] if imported else []) + [n for n in names if ":" not in n][-1:]
        for n in (hn or names[:1]):
            rh = mrun(mage, cwd, pre + ["-h", n], env=fast)
            obs["help"].append({"name": n, "rc": rh["rc"], "usage": ("mage " + n.lower()) in rh["out"], "err": rh["err"][-200:]})
        obs["alias_probes"] = []
        for a in probes[:2]:
            r4 = mrun(mage, cwd, pre + [a], env=fast)
            obs["alias_probes"].append({"word": a, "rc": r4["rc"], "calls": [c[0] for c in projlib.calls(r4["out"])], "class": projlib.stderr_class(r4["err"])})
    paths = sorted({G.import_path(proj, pk) for pk in proj["packages"]})
    obs["gofiles"] = {}
    obs["golist_mf"] = golist(mage, mf, paths, obs["gofiles"], penv.get("GOFLAGS"))
    obs["golist_start"] = obs["golist_mf"] if cwd == mf else golist(mage, cwd, paths, None, penv.get("GOFLAGS"))
    obs["magefiles"] = [os.path.join(mf, f["name"]) for f in sorted(proj["files"], key=lambda f: f["name"])]
    return obs


def observed_entries(obs):
    """[(listed name lower-cased, def-id or '?')]"""
    names, cs = obs["names"], obs["calls"]
    ok = len(names) == len(cs) and obs["run_rc"] == 0
    return [(n.lower(), cs[i] if ok else "?") for i, n in enumerate(names)]


# ------------------------------------------------------------------ sequences in one process
def gen_sequences(rng, quick):
    """Sequences of project STATES parsed one after the other in ONE process (mage as a library).
    A and B are two projects in different directories with the SAME module path and the same
    import paths, whose imported packages differ; A2 is A after a file with more targets was
    added to one of its imported packages.   even k: A, B    odd k: A, A2, B, A2"""
    import copy
    seqs = []
    for k in range(4 if quick else 24):
        mod = "s%04d" % k
        nsp = rng.choice([2, 3, 4])
        for _ in range(100):
            specs = [G.gen_spec(rng, j, rng.choice(PLACEMENTS), rng.choice([0, 1, 2, 8]), rng.choice(["root", "alias", "alias"])) for j in range(nsp)]
            A = G.assemble(rng, mod + "a", "inside", specs, nsp)
            A["module"] = mod
            A["packages"][0]["nested"] = None
            G.rename_until_clash_free(rng, A)
            B = copy.deepcopy(A)
            B["name"] = mod + "b"
            B["packages"] = [G.gen_package(rng, i) for i in range(nsp)]
            G.rename_until_clash_free(rng, B)
            # every imported package of B differs from A's in what it exposes
            if all(sorted(G.pkg_targets(pa)) != sorted(G.pkg_targets(pb)) for pa, pb in zip(A["packages"], B["packages"])):
                break
        steps = [A, B]
        if k % 2 == 1:
            for _ in range(100):
                A2 = copy.deepcopy(A)
                tagged = sorted({s["pkg"] for f in A2["files"] for d in f["decls"] for s in d["specs"] if isinstance(s["pkg"], int) and G.oracle_tag(s) is not None})
                pk = A2["packages"][rng.choice(tagged)]
                used = {f["name"] for f in pk["funcs"]}
                for nm in rng.sample([n for n in G.FUNC_NAMES if n not in used], rng.choice([1, 2])):
                    pk["funcs"].append({"name": nm, "sig": rng.choice(G.SIGS), "file": "more"})
                try:
                    G.oracle_expected(A2)
                    break
                except G.NameClash:
                    continue
            steps = [A, A2, B, A2]
        seqs.append({"sequence": steps})
    return seqs


# ------------------------------------------------------------------ command-line histories with one cache
EDITS = ["add", "remove", "rename", "invalidate", "doc"]


def apply_edit(rng, st, kind, k):
    """edit ONE imported, tagged package of the state st (a copy): add / remove / rename a target,
    make a signature invalid, change the doc comment -h shows.  Returns a description or None."""
    tagged = sorted({s["pkg"] for f in st["files"] for d in f["decls"] for s in d["specs"] if isinstance(s["pkg"], int) and G.oracle_tag(s) is not None})
    rng.shuffle(tagged)
    for j in tagged:
        pk = st["packages"][j]
        plain = [f for f in pk["funcs"] if f["sig"] != "bad" and not f.get("file")]
        used = {f["name"] for p2 in st["packages"] + [st["local"]] for f in p2["funcs"]}
        fresh = [n for n in G.FUNC_NAMES if n not in used]
        if kind == "add" and fresh:
            nm = rng.choice(fresh)
            pk["funcs"].append({"name": nm, "sig": rng.choice(G.SIGS), "doc": "was added by edit %d" % k})
            return "add: %s to %s" % (nm, pk["dir"])
        if kind in ("remove", "rename", "invalidate") and len(plain) >= 2:
            f = rng.choice(plain)
            old = f["name"]
            if kind == "remove":
                pk["funcs"].remove(f)
                if pk.get("default") == old:
                    pk["default"] = None
                pk["aliases"] = {a: v for a, v in (pk.get("aliases") or {}).items() if v != old}
                return "remove: %s from %s" % (old, pk["dir"])
            if kind == "rename" and fresh:
                f["name"] = rng.choice(fresh)
                if pk.get("default") == old:
                    pk["default"] = f["name"]
                pk["aliases"] = {a: (f["name"] if v == old else v) for a, v in (pk.get("aliases") or {}).items()}
                return "rename: %s to %s in %s" % (old, f["name"], pk["dir"])
            if kind == "invalidate":
                f["sig"] = "bad"
                return "invalidate: %s of %s gets an unsupported parameter" % (old, pk["dir"])
        if kind == "doc" and plain:
            f = rng.choice(plain)
            f["doc"] = "has the description number %d" % k
            return "doc: comment of %s in %s" % (f["name"], pk["dir"])
    return None


def gen_histories(rng, quick):
    """Command-line HISTORIES of one project with one cache: invocations (-l, run, -h) around edits
    of IMPORTED packages only (the magefiles never change).  Default mode must always be current;
    hash mode (MAGEFILE_HASHFAST=1) tracks the magefiles only, so it shows the state of the last build."""
    import copy
    out = []
    for k in range(2 if quick else 10):
        for _ in range(50):
            specs = [G.gen_spec(rng, j, rng.choice(PLACEMENTS), rng.choice([0, 1, 2]), kind) for j, kind in enumerate(rng.sample(["root", "alias", "alias"], 3))]
            base = G.assemble(rng, "h%04d" % k, ["inside", "parent"][k % 2], specs, 3, nlocal=rng.choice([1, 2]))
            for j in range(3):
                base["packages"][j] = G.gen_package(rng, j, shape=rng.choice(["funcs", "both"]), nfuncs=rng.choice([2, 3]))
            base["packages"][0]["nested"] = None
            if k % 2 == 1:       # this history runs with build tags in GOFLAGS; a tagged package has files constrained on them
                flags, active = GOFLAGS_ENVS[(k // 2) % 2]
                tg = sorted({s["pkg"] for s in specs if G.oracle_tag(s) is not None})
                G.add_tag_files(rng, base["packages"][rng.choice(tg)], active, HOST[0])
                base["env"] = {"GOFLAGS": flags}
            try:
                G.rename_until_clash_free(rng, base)
                break
            except Exception:
                continue
        states, steps = [base], [{"state": 0, "mode": "default", "first": "list", "edit": None}]
        kinds = list(EDITS)
        rng.shuffle(kinds)
        for e, kind in enumerate(kinds[:4 if quick else 5]):
            for _ in range(20):
                st = copy.deepcopy(states[-1])
                what = apply_edit(rng, st, kind, e + 1)
                if what is None:
                    break
                try:
                    G.oracle_expected(st)
                except G.NameClash:
                    continue
                states.append(st)
                if e == 1:       # once per history: hash mode right after the edit (stale by design), then default mode
                    steps.append({"state": len(states) - 1, "mode": "hash", "first": "list", "edit": what})
                    steps.append({"state": len(states) - 1, "mode": "default", "first": rng.choice(["list", "help"]), "edit": None})
                else:
                    steps.append({"state": len(states) - 1, "mode": "default", "first": rng.choice(["list", "list", "help", "run"]), "edit": what})
                # the go build cache: in the even histories the step after the third edit runs with GOCACHE naming a
                # directory that does not exist yet, the step after the fourth with that directory moved elsewhere
                if k % 2 == 0 and e == 2:
                    steps[-1]["gocache"] = "fresh"
                    steps[-1]["first"] = "list"
                if k % 2 == 0 and e == 3:
                    steps[-1]["gocache"] = "moved"
                break
        out.append({"history": {"states": states, "steps": steps}})
    return out


def run_history(ctx, mage, job, outside):
    """returns one observation per step, each with 'expected_state' (index): default mode = the
    state on disk; hash mode = the state of the last build (only the magefiles are tracked)"""
    H = job["history"]
    states = H["states"]
    d = materialize(mage, states[0], outside)
    disk = dict(G.render_project(states[0], REPO, projlib.PROBE_GO))
    cwd, pre, mf = G.start(states[0], d, outside)
    on_disk, built, prev_names, res = 0, None, [], []
    gc, ngc = None, 0
    paths = sorted({G.import_path(states[0], pk) for pk in states[0]["packages"]})
    for step in H["steps"]:
        st = states[step["state"]]
        if step["state"] != on_disk:
            files = G.render_project(st, REPO, projlib.PROBE_GO)
            for rel, text in files.items():
                if disk.get(rel) != text:
                    with open(os.path.join(d, rel), "w") as f:
                        f.write(text)
            disk, on_disk = dict(files), step["state"]
        env = dict(states[0].get("env") or {})
        if step["mode"] == "hash":
            env.update(FAST)
        if step.get("gocache") == "fresh" or (step.get("gocache") == "moved" and gc is None):
            ngc += 1
            gc = os.path.join(ctx.tmp, "gocache-%s-%d" % (states[0]["name"], ngc))       # does not exist yet
            env["GOCACHE"] = gc
        elif step.get("gocache") == "moved":
            ngc += 1
            new = os.path.join(ctx.tmp, "gocache-%s-%d-moved" % (states[0]["name"], ngc))
            if os.path.isdir(gc):
                os.rename(gc, new)
            gc = new
            env["GOCACHE"] = gc
        inv = []
        def run(args):
            r = mrun(mage, cwd, pre + args, env=env, timeout=900)
            inv.append({"args": args, "rc": r["rc"], "GOCACHE": step.get("gocache") or "default"})
            return r
        if step["first"] == "help" and prev_names:
            run(["-h", prev_names[0]])
        elif step["first"] == "run" and prev_names:
            run(prev_names[:2])
        compiled = step["mode"] == "default" or built is None
        r = run(["-l"])
        obs = {"mf": mf, "args": pre, "mode": step["mode"], "edit": step["edit"], "gocache": step.get("gocache") or "default", "env": states[0].get("env") or {}, "golist_mf": None, "gofiles": {},
               "magefiles": [os.path.join(mf, f["name"]) for f in sorted(st["files"], key=lambda f: f["name"])]}
        if compiled:
            built = on_disk
        obs["expected_state"] = on_disk if step["mode"] == "default" else built
        if r["rc"] != 0:
            obs.update({"list_rc": r["rc"], "error": projlib.stderr_class(r["err"]), "stderr": r["err"][-800:]})
        else:
            names = list(projlib.parse_list(r["out"])["targets"])
            r2 = run(names) if names else {"rc": 0, "out": "", "err": ""}
            obs.update({"list_rc": 0, "names": names, "run_rc": r2["rc"], "calls": [c[0] for c in projlib.calls(r2["out"])]})
            prev_names = names
            # -h of an imported target with a description: the text of the expected state
            exp_st = states[obs["expected_state"]]
            docs = [(G.oracle_tag(s), f) for fl in exp_st["files"] for dd in fl["decls"] for s in dd["specs"] if isinstance(s["pkg"], int) and G.oracle_tag(s) is not None
                    for f in exp_st["packages"][s["pkg"]]["funcs"] if f.get("doc") and f["sig"] != "bad"]
            if docs:
                a, f = docs[-1]
                word = (a + ":" if a else "") + f["name"]
                rh = run(["-h", word.lower()])
                obs["doc_probe"] = {"word": word.lower(), "rc": rh["rc"], "want": f["doc"], "shown": f["doc"] in rh["out"]}
        obs["invocations"] = inv
        res.append(obs)
    gl = golist(mage, mf, paths, None, (states[0].get("env") or {}).get("GOFLAGS"))
    for o in res:
        o["golist_mf"] = o["golist_start"] = gl
    return res


def run_sequence(ctx, mage, unitbin, seq, outside):
    """parse the states of seq in order in ONE unitrun process; returns one observation per step
    (same keys as run_project where they make sense)"""
    disk, dirs, steps = {}, {}, []
    for st in seq["sequence"]:
        files = G.render_project(st, REPO, projlib.PROBE_GO)
        name = st["name"]
        if name not in dirs:
            dirs[name] = materialize(mage, st, outside, files)
            disk[name] = dict(files)
            write = {}
        else:
            write = {os.path.join(dirs[name], rel): text for rel, text in files.items() if disk[name].get(rel) != text}
            disk[name].update(files)
        mf = G.start(st, dirs[name], outside)[2]
        steps.append({"dir": mf, "files": sorted(f["name"] for f in st["files"]), "write": write})
    rc, out, err = sh([unitbin], input=(json.dumps({"op": "importseq", "raw": {"steps": steps}}) + "\n").encode(), env=mage.env(), timeout=900)
    try:
        ans = json.loads(out.splitlines()[0])["steps"]
        assert len(ans) == len(steps)
    except Exception:
        raise BuildError("unitrun importseq failed: rc=%s %s %s" % (rc, out[-500:], err[-1500:]))
    res = []
    gl = {}
    for st, step, a in zip(seq["sequence"], steps, ans):
        name = st["name"]
        if name not in gl:
            gl[name] = golist(mage, step["dir"], sorted({G.import_path(st, pk) for pk in st["packages"]}))
        obs = {"mf": step["dir"], "args": ["parse.PrimaryPackage"], "golist_mf": gl[name], "golist_start": gl[name],
               "magefiles": [os.path.join(step["dir"], f) for f in step["files"]], "written_before_step": sorted(os.path.relpath(p, dirs[name]) for p in step["write"])}
        if a.get("error"):
            obs.update({"list_rc": 1, "error": "parse-error", "stderr": re.sub(r"/\S*/(verif-C19-[^/\s]*/)", "", a["error"])[-1200:]})
        else:
            fs = a.get("funcs") or []
            obs.update({"list_rc": 0, "run_rc": 0, "names": [f["t"] for f in fs], "calls": [G.defid(f["p"], f["r"], f["n"]) for f in fs]})
        res.append(obs)
    return res


# ------------------------------------------------------------------ oracle
def oracle(proj, obs, exposure_only=False):
    """clauses of the property sentence that the observed behaviour breaks: [(clause, detail)]"""
    exp = G.oracle_expected(proj)
    bad = []
    ntag = sum(1 for f in proj["files"] for d in f["decls"] for s in d["specs"] if isinstance(s["pkg"], int) and G.oracle_tag(s) is not None)
    if obs["list_rc"] != 0:
        return [("exposure", "mage failed (%s) where %d tagged imports must contribute %d targets: %s" % (
            obs.get("error"), ntag, len(exp) - len(G.pkg_targets(proj["local"])), obs.get("stderr", "")[-300:]))]
    got = dict(observed_entries(obs))
    missing = sorted(k for k in exp if k not in got)
    extra = sorted(k for k in got if k not in exp)
    wrong = sorted(k for k in exp if k in got and got[k] != exp[k])
    if missing or extra or wrong:
        bad.append(("exposure", "missing %s; not to be exposed %s; wrong body %s" % (missing[:6], extra[:6], [(k, got[k], exp[k]) for k in wrong[:4]])))
    if exposure_only:
        return bad
    # alias and default declarations inside imported packages are ignored
    ldef = proj["local"].get("default")
    if ldef:
        want = [G.defid("", "", ldef)]
        if obs["noarg_calls"] != want:
            bad.append(("imported-default", "mage without arguments ran %s, the magefile's default is %s" % (obs["noarg_calls"], want)))
    else:
        if obs["noarg_calls"] or not obs["noarg_lists"] or obs["default_mark"]:
            bad.append(("imported-default", "no default in the magefile, but mage without arguments ran %s (listing printed: %s, default mark on %s)" % (
                obs["noarg_calls"], obs["noarg_lists"], obs["default_mark"])))
    for h in obs.get("help", []):
        if h["name"].lower() in exp and (h["rc"] != 0 or not h["usage"]):
            bad.append(("help", "`mage -h %s` (a listed target): rc %d, usage line printed: %s, %s" % (h["name"], h["rc"], h["usage"], h["err"])))
    for p in obs["alias_probes"]:
        if p["word"].lower() in exp:
            continue
        if p["calls"] or p["rc"] == 0:
            bad.append(("imported-alias", "`mage %s` (an alias declared inside an imported package) ran %s, rc %d" % (p["word"], p["calls"], p["rc"])))
    return bad


# ------------------------------------------------------------------ Coq case
def coq_case(proj, obs, ast):
    pk_by_path = {G.import_path(proj, pk): pk for pk in proj["packages"]}
    def world(res):
        return G.cl(["(%s, %s)" % (G.cs(p), G.cpkg(pk_by_path[p], (obs.get("gofiles") or {}).get(p))) for p in sorted(res) if res[p]])
    gl = G.cl(['("MF", %s)' % world(obs["golist_mf"]), '("", %s)' % world(obs["golist_start"])])
    local = G.cl([G.cfunc("", r, n) for r, n in G.pkg_targets(proj["local"])])
    if obs["list_rc"] != 0:
        o = "None"
    else:
        ents = []
        for n, did in observed_entries(obs):
            parts = did.split("|") if did != "?" else ["?", "", ""]
            if len(parts) != 3:
                parts = ["?", "", ""]
            path = "" if parts[0] == "main" else parts[0]
            ents.append("(%s, (%s, %s, %s))" % (G.cs(n), G.cs(path), G.cs(parts[1]), G.cs(parts[2])))
        o = "(Some %s)" % G.cl(ents)
    return "{| c_files := %s; c_dir := \"MF\"; c_golist := %s; c_local := %s; c_obs := %s |}" % (G.cfiles(ast), gl, local, o)


# ------------------------------------------------------------------ the check
def run(ctx):
    ctx.prove(["Props/C19.vo", "Run/eval_C19.vo"], extra_props=["Compose_C19_C06"])   # + composition C19 => C06 => C04 (exposed names are the valid declarations, and resolve)
    import extractlib; extractlib.fn_tie(ctx, "C19")   # parse.getImportPathFromCommentGroup / getImportPath re-translated from the tree and proved equal to ImportTag's tag parser (DESIGN 3.5)
    import extractlib; extractlib.tables_tie(ctx, ['importTag'])   # literal data of the source re-proved equal to the models' (DESIGN 3.5)
    ctx.trusted_base += [
        "translator tie (extractlib.fn_tie, tools/notes/Translator.md section 10): parse.getImportPathFromCommentGroup / getImportPath are re-translated from the tree on every run and proved equal to ImportTag's tag parser (x_fromCommentGroup_ImportTag, x_getImportPath_ImportTag, x_getImportPath_bad_literal); the translator is trusted for that part, the rest of the model is tied behaviourally",
        "the go tool's environment is part of a case: GOFLAGS (build tags) of the project is also the environment of the measured `go list`; GOOS/GOARCH are not (mage forces the host platform)",
        "command-line histories: mage's default mode rebuilds on every invocation (GOCACHE in use), hash mode reuses the binary named after the magefiles' hash - the C08 model",
        "harness/unitrun op importseq (parse.PrimaryPackage called repeatedly in one process)",
        "harness/importast (go/parser's view of the import declarations: Doc/Comment groups, Lparen, path literal) - standard library only",
        "lib/c19gen.py (project generator, renderer to Go source, Coq printer, oracle), lib/projlib.py (runner, listing/CALL parsers)",
        "the go tool: `go list` answers per directory are measured per case and fed to the model; the targets of an imported package are the generator's (C06 is about what a target is)",
        "strings.ToLower / strings.Fields modelled for ASCII in Model/ImportTag.v (generator stays ASCII)",
    ]
    mage = projlib.Mage(ctx)
    astbin = go_build_harness(ctx, "importast", tags=None)
    outside = os.path.join(ctx.tmp, "outside")
    os.makedirs(outside, exist_ok=True)
    rng = ctx.rng
    unitbin = go_build_harness(ctx, "unitrun")
    if ctx.replay and ctx.replay.get("case"):
        c = ctx.replay["case"]
        projects, sequences = ([], [c]) if ("sequence" in c or "history" in c) else ([c], [])
    else:
        projects = gen_projects(rng, ctx.quick)
        sequences = gen_histories(rng, ctx.quick) + gen_sequences(rng, ctx.quick)
    ctx.log("projects:", len(projects), "sequences + histories:", len(sequences))
    def one(j):
        if "history" in j:
            return run_history(ctx, mage, j, outside)
        return run_sequence(ctx, mage, unitbin, j, outside) if "sequence" in j else run_project(ctx, mage, j, outside)
    results = pmap(one, sequences + projects)      # the long histories first
    results = results[len(sequences):] + results[:len(sequences)]
    observations = results[:len(projects)]
    # the steps of the sequences are cases like the projects: (state, observation); origin[i] = (sequence, step) for reporting
    nproj = len(projects)
    origin = {}
    for seq, obss in zip(sequences, results[nproj:]):
        sts = [seq["history"]["states"][o["expected_state"]] for o in obss] if "history" in seq else seq["sequence"]
        for si, (st, o) in enumerate(zip(sts, obss)):
            origin[len(projects)] = (seq, si)
            projects = projects + [st]
            observations.append(o)
    inp = "\n".join(json.dumps({"files": o["magefiles"]}) for o in observations) + "\n"
    rc, out, err = sh([astbin], input=inp.encode(), timeout=600)
    asts = [json.loads(l) for l in out.splitlines() if l.strip()]
    if rc != 0 or len(asts) != len(projects) or any("error" in a for a in asts):
        raise BuildError("importast failed: %s %s" % (err[-1000:], [a for a in asts if "error" in a][:2]))
    ctx.log("implementation runs done")

    items = []
    cov = ctx.coverage
    combos = set()
    dist = {"specs": 0, "untagged": 0, "root": 0, "named": 0}
    by = {"placement": {}, "group_length": {}, "spelling": {}, "kind": {}, "position": {}, "layout": {}, "raw_path_literal": {}, "tagged_package_shape": {}, "environment_of_projects_with_platform_files": {},
          "go_environment": {}, "same_package_several_times": {}, "file_system_shape": {}, "size_extremes": {}, "size_local_targets": {}, "size_tagged_imports": {}, "size_targets_per_import": {}}
    nerr = 0
    for proj, obs, ast in zip(projects, observations, asts):
        by["layout"][proj["layout"]] = by["layout"].get(proj["layout"], 0) + 1
        for pk in proj["packages"]:
            for f in pk["funcs"]:
                if f.get("shape"):
                    by["file_system_shape"][f["shape"]] = by["file_system_shape"].get(f["shape"], 0) + 1
            for c in pk.get("clutter", []):
                by["file_system_shape"][c] = by["file_system_shape"].get(c, 0) + 1
        for nm, shp in (proj.get("mf_shapes") or {}).items():
            by["file_system_shape"]["magefile:" + shp] = by["file_system_shape"].get("magefile:" + shp, 0) + 1
        if proj.get("extreme"):
            by["size_extremes"][proj["extreme"]] = {"files_of_the_largest_package": max(len((obs.get("gofiles") or {}).get(p, [])) for p in obs["golist_mf"]) if obs["golist_mf"] else 0,
                                                    "bytes_of_its_file_list": max(sum(len(x) + 2 for x in (obs.get("gofiles") or {}).get(p, [])) for p in obs["golist_mf"]) if obs["golist_mf"] else 0,
                                                    "targets_listed": len(obs.get("names") or [])}
        nz = sum(1 for pk in proj["packages"] if pk.get("zoo")) + (1 if proj["local"].get("zoo") else 0)
        if nz:
            by["packages_with_non_target_declaration_kinds"] = by.get("packages_with_non_target_declaration_kinds", 0) + nz
        if proj.get("multi"):
            by["same_package_several_times"][proj["multi"]] = by["same_package_several_times"].get(proj["multi"], 0) + 1
        if proj.get("size"):
            sz = proj["size"]
            by["size_local_targets"][str(sz["local"])] = by["size_local_targets"].get(str(sz["local"]), 0) + 1
            by["size_tagged_imports"][str(len(sz["imports"]))] = by["size_tagged_imports"].get(str(len(sz["imports"])), 0) + 1
            for kd, nf in sz["imports"]:
                by["size_targets_per_import"][str(nf)] = by["size_targets_per_import"].get(str(nf), 0) + 1
        pe = proj.get("env") or {}
        if "GOFLAGS" in pe or "HOME" in pe:
            ek = ("GOFLAGS=" + pe["GOFLAGS"] if "GOFLAGS" in pe else "") + (" HOME unset" if "HOME" in pe else "")
            by["go_environment"][ek.strip()] = by["go_environment"].get(ek.strip(), 0) + 1
        if any("+platform" in pk.get("shape", "") for pk in proj["packages"]):
            ek = ",".join("%s=%s" % kv for kv in sorted((proj.get("env") or {}).items())) or "plain"
            by["environment_of_projects_with_platform_files"][ek] = by["environment_of_projects_with_platform_files"].get(ek, 0) + 1
        for f in proj["files"]:
            for d in f["decls"]:
                for s in d["specs"]:
                    if not isinstance(s["pkg"], int):
                        continue
                    m = s["meta"]
                    dist["specs"] += 1
                    t = G.oracle_tag(s)
                    dist["untagged" if t is None else ("root" if t == "" else "named")] += 1
                    glen = len(s["lead"])
                    combo = (m["placement"], glen, m.get("spelling"), m["kind"], m["position"], s["detached"], bool(s.get("raw")))
                    if s.get("raw"):
                        by["raw_path_literal"]["tagged" if t is not None else "untagged"] = by["raw_path_literal"].get("tagged" if t is not None else "untagged", 0) + 1
                    combos.add(combo)
                    if t is not None:
                        shp = proj["packages"][s["pkg"]].get("shape", "?")
                        by["tagged_package_shape"][shp] = by["tagged_package_shape"].get(shp, 0) + 1
                    for k, v in (("placement", m["placement"]), ("group_length", str(glen)), ("spelling", str(m.get("spelling"))),
                                 ("kind", m["kind"]), ("position", m["position"])):
                        by[k][v] = by[k].get(v, 0) + 1
        if obs["list_rc"] != 0:
            nerr += 1
        ci = len(items)
        if ci in origin:
            seq, si = origin[ci]
            if "history" in seq:
                bad = oracle(proj, obs, exposure_only=True)
                dp = obs.get("doc_probe")
                if dp and (dp["rc"] != 0 or not dp["shown"]):
                    bad.append(("help", "`mage -h %s`: rc %d, the description %r is not shown" % (dp["word"], dp["rc"], dp["want"])))
                for clause, detail in bad:
                    ctx.violation({"kind": "oracle", "clause": clause + "-in-history", "step": si, "mode": obs["mode"], "after_edit": obs["edit"], "GOCACHE": obs.get("gocache"), "env": obs.get("env"), "detail": detail,
                                   "history": [("%s; " % s["edit"] if s["edit"] else "") + "%s mode, first %s" % (s["mode"], s["first"]) + (", GOCACHE %s" % s["gocache"] if s.get("gocache") else "") for s in seq["history"]["steps"]]},
                                  case=seq, extra={"observed_at_step": {k: obs.get(k) for k in ("names", "calls", "error", "stderr", "invocations", "expected_state", "doc_probe")}})
                items.append(coq_case(proj, obs, ast["files"]))
                continue
            for clause, detail in oracle(proj, obs, exposure_only=True):
                ctx.violation({"kind": "oracle", "clause": clause + "-in-sequence", "step": si, "detail": detail,
                               "sequence": "states %s parsed in one process" % [s["name"] + ("+" + ",".join(sorted({f["file"] for pk in s["packages"] for f in pk["funcs"] if f.get("file")})) if any(f.get("file") for pk in s["packages"] for f in pk["funcs"]) else "") for s in seq["sequence"]]},
                              case=seq, extra={"observed_at_step": {k: obs.get(k) for k in ("names", "calls", "error", "stderr", "written_before_step")}})
        elif not proj.get("odd"):
            for clause, detail in oracle(proj, obs):
                ctx.violation({"kind": "oracle", "clause": clause, "detail": detail, "start": proj["layout"], "env": proj.get("env") or {}}, case=proj,
                              extra={"observed": {k: obs.get(k) for k in ("names", "calls", "error", "stderr", "noarg_calls", "alias_probes", "help", "args", "env")}})
        items.append(coq_case(proj, obs, ast["files"]))
    header = "From Mage Require Import Base.Strs Model.ImportTag Run.eval_C19.\n"
    mism = ctx.coq_eval_shards("cases_C19", header, items, per_shard=max(4, (len(items) + NCPU - 1) // NCPU))
    if mism and not ctx.violations:
        for idx, bodytxt in mism[:3]:
            proj, obs = projects[idx], observations[idx]
            ctx.violation({"kind": "model-vs-implementation", "correspondence": "Run/eval_C19.mismatches", "model_says": bodytxt[:600],
                           "implementation": {k: obs.get(k) for k in ("names", "calls", "error", "stderr")}, "odd_shapes_only": bool(proj.get("odd")),
                           "step_of_sequence": origin[idx][1] if idx in origin else None},
                          case=origin[idx][0] if idx in origin else proj, found_input=False)
    cov["evaluations"] = dist["specs"]
    cov["distinct_nontrivial"] = len(combos)
    cov["rule"] = ("evaluations = import specs of generated packages inside %d generated projects (one Coq case per project: the whole listing and the body run under "
                   "every listed name); distinct = (placement, length of the leading comment group, spelling, kind, position of the tag line, detached, raw path literal) combinations; "
                   "every placement x every length 0..12 of preceding lines (group lengths 1..13, nine included) and every placement x every spelling x root/alias "
                   "occur in every run" % len(projects))
    cov["projects"] = nproj
    hs = [s for s in sequences if "history" in s]
    cov["command_line_histories_with_one_cache"] = {
        "histories": len(hs), "steps": sum(len(h["history"]["steps"]) for h in hs),
        "edits": sorted({(s["edit"] or "").split(":")[0] for h in hs for s in h["history"]["steps"] if s["edit"]}),
        "GOCACHE": sorted({s.get("gocache") or "default" for h in hs for s in h["history"]["steps"]}),
        "GOFLAGS": sorted({(h["history"]["states"][0].get("env") or {}).get("GOFLAGS", "-mod=mod") for h in hs}),
        "judged": "default-mode steps against the state on disk; hash-mode steps against the state of the last build (the magefiles did not change)"}
    cov["sequences_in_one_process"] = {"sequences": len(sequences) - len(hs), "steps": len(origin) - sum(len(h["history"]["steps"]) for h in hs),
                                       "shapes": "A,B (same module path and import paths, different packages) and A, A+file added to an imported package, B, A+file"}
    cov["tags_by_oracle"] = dist
    cov["distribution"] = by
    cov["projects_where_mage_failed"] = nerr
    def aliases_of(proj):
        m = {}
        for f in proj["files"]:
            for d in f["decls"]:
                for s in d["specs"]:
                    if isinstance(s["pkg"], int) and G.oracle_tag(s):
                        m.setdefault(s["pkg"], set()).add(G.oracle_tag(s))
        return m
    cov["projects_with_one_package_under_two_aliases"] = sum(1 for p in projects[:nproj] if not p.get("odd") and any(len(v) > 1 for v in aliases_of(p).values()))
    cov["projects_whose_start_directory_cannot_resolve_the_imports"] = sum(
        1 for o in observations[:nproj] if o["golist_mf"] and any(o["golist_mf"].values()) and not all(o["golist_start"].get(p) for p in o["golist_mf"] if o["golist_mf"][p]))
    cov["model_mismatches"] = len(mism)
    cov["traces_validated_against_impl"] = len(projects) - len(mism)
    for proj, obs in list(zip(projects, observations))[:2 if nproj else 0]:
        ctx.sample({"layout": proj["layout"], "args": obs["args"], "names": obs.get("names"), "calls": obs.get("calls"),
                    "specs": [[s["lead"], s["trail"]] for f in proj["files"] for d in f["decls"] for s in d["specs"]][:6]})
