(* Model of Go's os.Expand (os/env.go) - standard library, modelled so that the mapping functions
   of sh.Exec and target.* (which ARE mage code) can be stated.  Validated by the correspondence runs. *)
From Mage Require Import Base.Strs.

Definition ch (n : nat) : ascii := ascii_of_nat n.
Definition is_c (c : ascii) (n : nat) : bool := Nat.eqb (nat_of_ascii c) n.

Definition isShellSpecialVar (c : ascii) : bool :=
  let n := nat_of_ascii c in
  (* * # $ @ ! ? - 0..9 *)
  Nat.eqb n 42 || Nat.eqb n 35 || Nat.eqb n 36 || Nat.eqb n 64 || Nat.eqb n 33 || Nat.eqb n 63 || Nat.eqb n 45
  || (Nat.leb 48 n && Nat.leb n 57).

Definition isAlphaNum (c : ascii) : bool :=
  let n := nat_of_ascii c in
  Nat.eqb n 95 || (Nat.leb 48 n && Nat.leb n 57) || (Nat.leb 97 n && Nat.leb n 122) || (Nat.leb 65 n && Nat.leb n 90).

Fixpoint str_of (l : list ascii) : string := match l with [] => EmptyString | c :: r => String c (str_of r) end.
Fixpoint chars (s : string) : list ascii := match s with EmptyString => [] | String c r => c :: chars r end.

(* scan to the closing brace: s is what follows "${"; returns (name, chars consumed after the '{') *)
Fixpoint scan_brace (s : list ascii) (acc : list ascii) : option (list ascii * nat) :=
  match s with
  | [] => None
  | c :: r => if is_c c 125 then Some (rev acc, S (length acc))
              else scan_brace r (c :: acc)
  end.

Fixpoint take_alnum (s : list ascii) : list ascii :=
  match s with
  | c :: r => if isAlphaNum c then c :: take_alnum r else []
  | [] => []
  end.

(* getShellName on a non-empty s: (name, width) *)
Definition getShellName (s : list ascii) : list ascii * nat :=
  match s with
  | [] => ([], 0)
  | c0 :: r =>
      if is_c c0 123 then
        match r with
        | c1 :: c2 :: _ =>
            if isShellSpecialVar c1 && is_c c2 125 then ([c1], 3)
            else match scan_brace r [] with
                 | Some (name, n) => match name with [] => ([], 2) | _ => (name, S n) end
                 | None => ([], 1)
                 end
        | _ => match scan_brace r [] with
               | Some (name, n) => match name with [] => ([], 2) | _ => (name, S n) end
               | None => ([], 1)
               end
        end
      else if isShellSpecialVar c0 then ([c0], 1)
      else let n := take_alnum s in (n, length n)
  end.

Section Expand.
Variable mapping : string -> string.

(* fuel >= length s suffices: every iteration consumes at least one character *)
Fixpoint expand_go (fuel : nat) (s : list ascii) : list ascii :=
  match fuel with
  | O => s
  | S f =>
      match s with
      | [] => []
      | c :: r =>
          if is_c c 36 then
            match r with
            | [] => [c]                                   (* a trailing '$' is kept *)
            | _ =>
                let '(name, w) := getShellName r in
                let rest := skipn w r in
                match name with
                | [] => if Nat.ltb 0 w then expand_go f rest            (* invalid syntax: eaten *)
                        else c :: expand_go f rest                      (* '$' not followed by a name *)
                | _ => chars (mapping (str_of name)) ++ expand_go f rest
                end
            end
          else c :: expand_go f r
      end
  end.

Definition expand (s : string) : string := str_of (expand_go (S (String.length s)) (chars s)).
End Expand.

(* environment as a list of (name, value), first match wins (the harness passes a de-duplicated one) *)
Fixpoint env_get (env : list (string * string)) (k : string) : string :=
  match env with
  | [] => EmptyString
  | (k', v) :: r => if String.eqb k k' then v else env_get r k
  end.
Definition expand_env (env : list (string * string)) (s : string) : string := expand (env_get env) s.
