(* Shared vocabulary: byte strings. No property content. *)
From Coq Require Export String Ascii List NArith ZArith Bool Arith Lia.
Export ListNotations.
Open Scope string_scope.
Open Scope list_scope.   (* [++] is list append; use [String.append] / %string for strings *)

(* arbitrary bytes in a case file: bs [195;156] *)
Definition bs (l : list nat) : string :=
  fold_right (fun n s => String (ascii_of_nat n) s) EmptyString l.

Definition str_eqb (a b : string) : bool := String.eqb a b.

Fixpoint list_eqb {A} (eqb : A -> A -> bool) (a b : list A) : bool :=
  match a, b with
  | [], [] => true
  | x :: a', y :: b' => eqb x y && list_eqb eqb a' b'
  | _, _ => false
  end.

Lemma list_eqb_spec {A} (eqb : A -> A -> bool) :
  (forall x y, reflect (x = y) (eqb x y)) -> forall a b, reflect (a = b) (list_eqb eqb a b).
Proof.
  intros H a; induction a as [|x a IH]; destruct b as [|y b]; simpl; try (constructor; congruence).
  destruct (H x y); simpl; [|constructor; congruence].
  destruct (IH b); constructor; congruence.
Qed.

Definition option_eqb {A} (eqb : A -> A -> bool) (a b : option A) : bool :=
  match a, b with
  | None, None => true
  | Some x, Some y => eqb x y
  | _, _ => false
  end.

(* indices of the cases on which a boolean check fails, with a payload *)
Fixpoint mism_from {A B} (f : A -> option B) (n : nat) (l : list A) : list (nat * B) :=
  match l with
  | [] => []
  | x :: r => match f x with
              | Some b => (n, b) :: mism_from f (S n) r
              | None => mism_from f (S n) r
              end
  end.
