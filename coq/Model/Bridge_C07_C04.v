(* Bridge between the C07 model (Model/Dupes.v: what mage accepts) and the C04 model
   (Model/Dispatch.v: the generated dispatcher over the template DATA).  Definitions only.

   [info_of] is the data the template is instantiated with for a package [pk] that passed
   parse.PrimaryPackage: .Funcs = the local functions, .Imports = the functions of every
   mage:import'ed package, .Aliases = (key, TargetName of the aliased function) in key order,
   .DefaultFunc.  mage/main.go sorts .Funcs by TargetName and .Imports by UniqueName before
   generating; here they are kept in parse order (Dupes.ordered_imports) - any other order is a
   permutation, see Props/Compose.v [accepted_package_any_case_order].

   What Dupes.pkg does not contain is a parameter, not a guess:
     args_of : the declared parameter types of a function (funcType; C06's subject),
     def_of  : the harness' identifier of the declaration (Dispatch.tdef),
     dflt    : the function `var Default` names, if any (setDefault). *)
From Mage Require Import Base.Strs.
From Mage Require Model.Dupes Model.Dispatch.

Section Bridge.
Variable args_of : Dupes.func -> list Dispatch.argty.
Variable def_of : Dupes.func -> nat.

Definition target_of (f : Dupes.func) : Dispatch.target :=
  {| Dispatch.tname := Dupes.target_name f; Dispatch.targs := args_of f; Dispatch.tdef := def_of f |}.

Definition info_of (dflt : option Dupes.func) (pk : Dupes.pkg) : Dispatch.info :=
  {| Dispatch.funcs := map target_of (Dupes.local_funcs pk);
     Dispatch.imports := map (fun i => map target_of (Dupes.import_funcs i)) (Dupes.ordered_imports pk);
     Dispatch.aliases := map (fun kf => (fst kf, Dupes.target_name (snd kf))) (Dupes.alias_map (Dupes.aliases pk));
     Dispatch.default := option_map target_of dflt |}.
End Bridge.
