(* Model of mage's content-addressed binary cache (mage/main.go: ExeName, hashFile, the reuse
   decision of Invoke).  Executable definitions only.

   External behaviour is a parameter: [H] is SHA-1 printed with %x (a function from byte strings
   to 40 lower-case hex characters), [compile] is the go tool (go build of the magefiles plus the
   generated main file, for a given toolchain), [tpl] is the text of the main-file template
   (mageMainfileTplString).  Nothing about them is assumed in this file. *)
From Mage Require Import Base.Strs.

(* sort.Strings: ascending byte-wise order.  Written as an insertion sort; Proof/Cache_facts.v
   shows it is a sort (sorted permutation of its input, the unique one). *)
Fixpoint insert (x : string) (l : list string) : list string :=
  match l with
  | [] => [x]
  | y :: r => if String.leb x y then x :: y :: r else y :: insert x r
  end.
Definition sort_strings (l : list string) : list string := fold_right insert [] l.

(* strings.Join(hashes, "") *)
Definition join (l : list string) : string := fold_right String.append EmptyString l.

(* main.go:35 *)
Definition magicRebuildKey : string := "v0.3".

(* the magefiles of a directory: (base name, contents) *)
Definition fileset := list (string * string).
Definition contents (fs : fileset) : list string := map snd fs.

Section Cache.
Variable H : string -> string.                     (* fmt.Sprintf("%x", sha1.Sum(b)) *)
Variable program : Type.
Variable compile : string -> string -> fileset -> program.
   (* toolchain (its `go version` line), the non-magefile packages the magefiles import, the files *)

(* ExeName, main.go:668-694: one hash per file (of its CONTENTS: hashFile never looks at the
   name); sort.Strings of these; the hash of the template appended AFTER sorting (commit db4aa20);
   join, append the key and `go version`, hash again.  The result is joined to the cache
   directory (Model/Paths.v).
   [fixed = false] is the tree before db4aa20: the template hash was appended first and sorted
   into the same list as the file hashes. *)
Definition file_hashes (files : fileset) : list string := map (fun f => H (snd f)) files.
Definition hash_list (fixed : bool) (tpl : string) (files : fileset) : list string :=
  if fixed then sort_strings (file_hashes files) ++ [H tpl]
  else sort_strings (file_hashes files ++ [H tpl]).
Definition name_input_f (fixed : bool) (key tpl ver : string) (files : fileset) : string :=
  (join (hash_list fixed tpl files) ++ key ++ ver)%string.
Definition name_input : string -> string -> string -> fileset -> string := name_input_f true.
Definition exe_name_k (key tpl ver : string) (files : fileset) : string := H (name_input key tpl ver files).
Definition exe_name : string -> string -> fileset -> string := exe_name_k magicRebuildKey.
(* the name before db4aa20 *)
Definition exe_name_old (tpl ver : string) (files : fileset) : string :=
  H (name_input_f false magicRebuildKey tpl ver files).

(* every string that is hashed while computing the name *)
Definition hashed (tpl ver : string) (files : fileset) : list string :=
  name_input magicRebuildKey tpl ver files :: tpl :: contents files.

(* ---- the directory and the cache ---- *)
Record state := { dir : fileset;                        (* the magefiles now on disk *)
                  dep : string;                         (* the imported (non-magefile) source now on disk *)
                  ver : string;                         (* what `go version` prints now *)
                  cache : list (string * program) }.    (* MAGEFILE_CACHE: name -> binary; first match wins *)

(* what lies at the output path of `mage -compile <path>` before the invocation *)
Inductive outfile := OAbsent | OOther (* some unrelated file *) | OOld (* the binary an earlier -compile left there *).

(* something happens to the sources WHILE an invocation is under way, after mage has hashed the
   magefiles (ExeName) and before it runs the binary: a magefile or an imported package is edited *)
Inductive race := REdit (f b : string) | REditDep (b : string).

Inductive op :=
| RunRaced (hashfast force gocache : bool) (e : race) (seen_new : bool)
                                     (* an invocation during which e happens; [seen_new]: the go tool read the
                                        sources after the edit (the adversary's choice: an outcome SET) *)
| CompileOut (o : outfile) (hashfast force gocache : bool)
                                     (* mage [-f] -compile <path>, <path> holding o; the output path is not a cache entry *)
| Edit (f b : string)                (* overwrite the contents of f *)
| Add (f b : string)                 (* create f (overwrites when f exists) *)
| Remove (f : string)
| Rename (f g : string)              (* mv f g (replaces g) *)
| EditDep (b : string)               (* edit a package the magefiles import (not a magefile) *)
| SetVer (v : string)                (* another toolchain *)
| Run (hashfast force gocache : bool).  (* mage [-f] target | -l | -h target;  MAGEFILE_HASHFAST set?  `go env GOCACHE` non-empty?
                                          No field for the command: Invoke's reuse decision is the same code for running a
                                          target, listing (-l) and help (-h): inv.List / inv.Help are only passed on to
                                          the compiled program (RunCompiled), so [step] cannot depend on them. *)

Inductive outcome :=
| Built (p : program)                (* -compile: p was written to the output path, NOTHING was run *)
| RanOutput                          (* -compile ran what lay at the output path (never, see invoke_compile) *)
| NoRun                              (* the operation was not an invocation *)
| NoFiles                            (* "No .go files marked with the mage build tag": exit 1, nothing run *)
| Ran (compiled : bool) (p : program).

Fixpoint lookup (n : string) (c : list (string * program)) : option program :=
  match c with
  | [] => None
  | (n', p) :: r => if String.eqb n n' then Some p else lookup n r
  end.

Definition has_file (f : string) (d : fileset) : bool := existsb (fun e => String.eqb (fst e) f) d.
Definition set_file (f b : string) (d : fileset) : fileset :=
  map (fun e => if String.eqb (fst e) f then (f, b) else e) d.
Definition del_file (f : string) (d : fileset) : fileset :=
  filter (fun e => negb (String.eqb (fst e) f)) d.
Definition add_file (f b : string) (d : fileset) : fileset :=
  if has_file f d then set_file f b d else d ++ [(f, b)].
Definition ren_file (f g : string) (d : fileset) : fileset :=
  if String.eqb f g then d
  else if has_file f d
       then map (fun e => if String.eqb (fst e) f then (g, snd e) else e) (del_file g d)
       else d.

Variable tpl : string.

(* Invoke, main.go:359-467, for one target invocation without -compile.
     files == []                                    -> return 1
     exePath = ExeName(...)
     useCache := false; if !HashFast && `go env GOCACHE` != "" { useCache = true }
        (the variable says "use the GO BUILD cache", i.e. do NOT trust an existing binary)
     if !useCache { if stat(exePath) ok { if Force {} else return RunCompiled(exePath) } }
     generate, Compile (go build -o exePath overwrites), RunCompiled(exePath)
   The name does not depend on [dep]: imported packages are not hashed (in default mode go build
   sees them; in hash mode a stored binary is run whatever happened to them). *)
Definition invoke (st : state) (hashfast force gocache : bool) : state * outcome :=
  match dir st with
  | [] => (st, NoFiles)
  | _ =>
      let n := exe_name tpl (ver st) (dir st) in
      let build := let p := compile (ver st) (dep st) (dir st) in
                   ({| dir := dir st; dep := dep st; ver := ver st; cache := (n, p) :: cache st |}, Ran true p) in
      let useCache := if hashfast then false else gocache in
      if negb useCache then
        match lookup n (cache st) with
        | Some p => if force then build else (st, Ran false p)
        | None => build
        end
      else build
  end.

(* Invoke for `-compile <path>` (main.go:370-377, 398-414, 463-465): exePath is the output path
   itself (ExeName is not called), Parse has set inv.Force = true (main.go:268: [parse_forces];
   false is a tree whose Parse forgets it), the same useCache / stat / Force tests follow, then
   generate + Compile to the path and `return 0` - the binary is not run. *)
Definition invoke_compile_f (parse_forces : bool) (st : state) (o : outfile) (hashfast uforce gocache : bool) : outcome :=
  match dir st with
  | [] => NoFiles
  | _ =>
      let force := if parse_forces then true else uforce in
      let build := Built (compile (ver st) (dep st) (dir st)) in
      let useCache := if hashfast then false else gocache in
      if negb useCache then
        match o with
        | OAbsent => build
        | _ => if force then build else RanOutput          (* "Running existing exe" *)
        end
      else build
  end.
Definition invoke_compile : state -> outfile -> bool -> bool -> bool -> outcome := invoke_compile_f true.

Definition with_dir (st : state) (d : fileset) : state := {| dir := d; dep := dep st; ver := ver st; cache := cache st |}.

(* An invocation raced by an edit.  The name was derived from the files as they were when ExeName
   read them; the reuse decision is made with that name; a build stores what the go tool compiled -
   the old or the new sources - UNDER THAT (OLD) NAME; afterwards the sources are the edited ones.
   [settle = true] is a design that derives the name again after the build and files the binary
   under the name of the contents then on disk (seeded change C08-8A); the code does not. *)
Definition apply_race (st : state) (e : race) : state :=
  match e with
  | REdit f b => with_dir st (set_file f b (dir st))
  | REditDep b => {| dir := dir st; dep := b; ver := ver st; cache := cache st |}
  end.

Definition invoke_raced_f (settle : bool) (st : state) (hashfast force gocache : bool) (e : race) (seen_new : bool)
  : state * outcome :=
  let st' := apply_race st e in
  match dir st with
  | [] => (st', NoFiles)
  | _ =>
      let n := exe_name tpl (ver st) (dir st) in
      let src := if seen_new then st' else st in
      let p := compile (ver st) (dep src) (dir src) in
      let n_store := if settle then exe_name tpl (ver st) (dir st') else n in
      let build := ({| dir := dir st'; dep := dep st'; ver := ver st; cache := (n_store, p) :: cache st |}, Ran true p) in
      let useCache := if hashfast then false else gocache in
      if negb useCache then
        match lookup n (cache st) with
        | Some q => if force then build else (st', Ran false q)
        | None => build
        end
      else build
  end.
Definition invoke_raced := invoke_raced_f false.

Definition step (st : state) (o : op) : state * outcome :=
  match o with
  | Edit f b => (with_dir st (set_file f b (dir st)), NoRun)
  | Add f b => (with_dir st (add_file f b (dir st)), NoRun)
  | Remove f => (with_dir st (del_file f (dir st)), NoRun)
  | Rename f g => (with_dir st (ren_file f g (dir st)), NoRun)
  | EditDep b => ({| dir := dir st; dep := b; ver := ver st; cache := cache st |}, NoRun)
  | SetVer v => ({| dir := dir st; dep := dep st; ver := v; cache := cache st |}, NoRun)
  | Run hf force gc => invoke st hf force gc
  | RunRaced hf force gc e sn => invoke_raced st hf force gc e sn
  | CompileOut o hf force gc => (st, invoke_compile st o hf force gc)        (* directory and cache untouched *)
  end.

(* the state after a history, and the outcomes along it *)
Definition run_ops (ops : list op) (st : state) : state := fold_left (fun s o => fst (step s o)) ops st.

Fixpoint outcomes (ops : list op) (st : state) : list outcome :=
  match ops with
  | [] => []
  | o :: r => let '(st', out) := step st o in out :: outcomes r st'
  end.

(* the cache name in every state of a history (initial state first) *)
Fixpoint names_along (ops : list op) (st : state) : list string :=
  exe_name tpl (ver st) (dir st) :: match ops with
                                    | [] => []
                                    | o :: r => names_along r (fst (step st o))
                                    end.
End Cache.

(* the equality pattern of a list of names: for each position the first position holding the same name *)
Fixpoint first_index (x : string) (l : list string) (i : nat) : nat :=
  match l with
  | [] => i
  | y :: r => if String.eqb x y then i else first_index x r (S i)
  end.
Definition classes (names : list string) : list nat := map (fun x => first_index x names 0) names.
