(* Model of target discovery and of the code generated per target.
   parse/parse.go: hasContextParam, hasErrorReturn, funcType, argTypes, setFuncs, setNamespaces,
   isNamespace, sanitizeSynopsis, toOneLine, setDefault, setAliases, declaredValue,
   getFunction (no imports), TargetName, ExecCode; mage/main.go: lowerFirstWord/lowerFirst;
   mage/template.go: the entries of `list`, the `-h` case of a target.
   Executable definitions only.

   A package is given abstractly: function declarations with their parameter GROUPS (`a, b string`
   is one group with two names, `string` one group with no name), result groups, receiver,
   type-parameter flag; type declarations with the flag "is textually mg.Namespace"; var
   declarations (GenDecls made of specs).  What go/doc (doc.New(pkg, "./", 0)) makes of such a
   package - Funcs without factory functions, exported Types with their exported methods, Vars with
   flattened Names - is MODELLED here ([doc_funcs], [doc_types], [doc_methods], [doc_vars]) and
   compared with the real go/doc on every generated package by the check; the doc text of a
   declaration and doc.Synopsis of it are inputs ([fdoc], [fsyn]) fed from the real go/doc.
   Identifiers are ASCII: [lower], [is_upper], [equal_fold] are the ASCII restrictions of
   strings.ToLower, ast.IsExported / [[:upper:]], strings.EqualFold. *)
From Mage Require Import Base.Strs.
From Coq Require Import DecimalString.

(* ------------------------------------------------------------------ strings (ASCII) *)
Definition is_upper (c : ascii) : bool := let n := nat_of_ascii c in Nat.leb 65 n && Nat.leb n 90.
Definition lower_c (c : ascii) : ascii := if is_upper c then ascii_of_nat (nat_of_ascii c + 32) else c.
Fixpoint lower (s : string) : string :=
  match s with EmptyString => EmptyString | String c r => String (lower_c c) (lower r) end.

(* ast.IsExported: the first rune is an upper-case letter *)
Definition exported (n : string) : bool := match n with String c _ => is_upper c | EmptyString => false end.
Definition equal_fold (a b : string) : bool := String.eqb (lower a) (lower b).
Definition nonempty (s : string) : bool := match s with EmptyString => false | _ => true end.

(* longest prefix whose characters satisfy p, and the rest *)
Fixpoint span (p : ascii -> bool) (s : string) : string * string :=
  match s with
  | EmptyString => (EmptyString, EmptyString)
  | String c r => if p c then let '(a, b) := span p r in (String c a, b) else (EmptyString, s)
  end.

(* strings.Split with a one-character separator: always at least one element *)
Fixpoint split_on (sep : ascii) (s : string) : list string :=
  match s with
  | EmptyString => [EmptyString]
  | String c r =>
      if Ascii.eqb c sep then EmptyString :: split_on sep r
      else match split_on sep r with
           | h :: t => String c h :: t
           | [] => [String c EmptyString]
           end
  end.

Fixpoint join (sep : string) (l : list string) : string :=
  match l with
  | [] => EmptyString
  | [x] => x
  | x :: r => (x ++ sep ++ join sep r)%string
  end.

Definition is_space (c : ascii) : bool :=
  let n := nat_of_ascii c in Nat.eqb n 32 || (Nat.leb 9 n && Nat.leb n 13).
Fixpoint ltrim (s : string) : string :=
  match s with String c r => if is_space c then ltrim r else s | EmptyString => EmptyString end.
Fixpoint rtrim (s : string) : string :=
  match s with
  | EmptyString => EmptyString
  | String c r => let r' := rtrim r in
                  if is_space c && negb (nonempty r') then EmptyString else String c r'
  end.
Definition trim_space (s : string) : string := rtrim (ltrim s).
Fixpoint replace_nl (s : string) : string :=
  match s with
  | EmptyString => EmptyString
  | String c r => String (if Nat.eqb (nat_of_ascii c) 10 then " "%char else c) (replace_nl r)
  end.
(* parse.toOneLine *)
Definition toOneLine (s : string) : string := trim_space (replace_nl s).

Definition dec (n : nat) : string := NilEmpty.string_of_uint (Nat.to_uint n).

(* mage/main.go lowerFirstWord.  Two regular expressions, then ToLower:
     firstWordRx:   one upper, one or more non-uppers, then an upper and anything   (Aaaa)(Bbbb) -> aaaaBbbb
     firstAbbrevRx: one or more uppers, then an upper, a non-upper and anything     (AAAA)(Bbbb) -> aaaaBbbb
   Each has at most one way to match, spelled out here ([[:upper:]] is A-Z). *)
Fixpoint but_last (s : string) : string * string :=      (* all but the last character, the last character *)
  match s with
  | EmptyString => (EmptyString, EmptyString)
  | String c EmptyString => (EmptyString, s)
  | String c r => let '(a, b) := but_last r in (String c a, b)
  end.

Definition lowerFirstWord (s : string) : string :=
  match s with
  | EmptyString => lower s
  | String c r =>
      if is_upper c then
        let '(nu, rest) := span (fun x => negb (is_upper x)) r in
        if nonempty nu && nonempty rest then (lower (String c nu) ++ rest)%string
        else
          let '(us, rest2) := span is_upper s in
          if nonempty rest2 && Nat.leb 2 (String.length us)
          then let '(a, b) := but_last us in (lower a ++ b ++ rest2)%string
          else lower s
      else lower s
  end.

Definition lowerFirst (s : string) : string := join ":" (map lowerFirstWord (split_on ":"%char s)).

(* ------------------------------------------------------------------ abstract declarations *)
Inductive pty := TString | TInt | TBool | TDur | TCtx | TOther (spelling : string).
    (* textual: `string` `int` `bool` `time.Duration` `context.Context`; anything else (float64,
       []string, ...string, func(), *int, (string), a local alias of context.Context ...) *)
Record pgroup := { pnames : list string; pty_ : pty }.     (* [] = unnamed; names may be "_" *)

Inductive rkind := RKError      (* textually `error` *)
                 | RKLocal      (* T, *T, []T, []*T for an exported type T of the package: go/doc files the function under T *)
                 | RKOther.
Record rgroup := { rnames : nat; rkind_ : rkind }.

Record fdecl := { fname : string; recv : option (string * bool) (* type name, pointer receiver *);
                  tparams : bool; params : list pgroup; res : list rgroup;
                  fdoc : string (* go/doc's Doc text *); fsyn : string (* doc.Synopsis fdoc *) }.
Record tdecl := { tname : string;
                  is_namespace : bool (* the declared type is textually `mg.Namespace` *);
                  tgeneric : bool     (* the declaration has type parameters *) }.

Inductive fref := FIdent (n : string) | FSel (x n : string) | FOther.
Inductive vexpr := VRef (r : fref) | VMap (kvs : list (string * fref)).
Record vspec := { vnames : list string; vtyped : bool; vvalues : list vexpr }.
Record pkg := { decls : list fdecl; types : list tdecl; vars : list (list vspec); pkgdoc : string }.

(* ------------------------------------------------------------------ go/doc, mode 0 (modelled) *)
Definition count_local (rs : list rgroup) : nat :=
  List.length (filter (fun r => match rkind_ r with RKLocal => true | _ => false end) rs).
(* reader.readFunc: exactly one result field of a visible local type -> factory function of that type *)
Definition is_factory (d : fdecl) : bool := Nat.eqb (count_local (res d)) 1.
Definition no_recv (d : fdecl) : bool := match recv d with None => true | Some _ => false end.

Definition doc_funcs (pk : pkg) : list fdecl :=
  filter (fun d => no_recv d && exported (fname d) && negb (is_factory d)) (decls pk).
Definition doc_types (pk : pkg) : list tdecl := filter (fun t => exported (tname t)) (types pk).
Definition doc_methods (pk : pkg) (t : tdecl) : list fdecl :=
  filter (fun d => match recv d with Some (tn, _) => String.eqb tn (tname t) | None => false end && exported (fname d))
         (decls pk).

(* exports.go filterSpec for a ValueSpec, then reader.readValue/specNames *)
Definition filter_spec (s : vspec) : option vspec :=
  if negb (Nat.eqb (List.length (vvalues s)) 0) || (negb (vtyped s) && Nat.eqb (List.length (vvalues s)) 0) then
    if existsb exported (vnames s)
    then Some {| vnames := map (fun n => if exported n then n else "_") (vnames s); vtyped := vtyped s; vvalues := vvalues s |}
    else None
  else
    let ns := filter exported (vnames s) in
    if Nat.eqb (List.length ns) 0 then None else Some {| vnames := ns; vtyped := vtyped s; vvalues := vvalues s |}.
Definition filter_specs (v : list vspec) : list vspec :=
  flat_map (fun s => match filter_spec s with Some s' => [s'] | None => [] end) v.
Definition doc_vars (pk : pkg) : list (list vspec) :=
  filter (fun v => negb (Nat.eqb (List.length v) 0)) (map filter_specs (vars pk)).
Definition value_names (v : list vspec) : list string := flat_map vnames v.       (* doc.Value.Names *)

(* ------------------------------------------------------------------ parse.go: signatures *)
Inductive aty := AString | AInt | ABool | ADur.
Record function := { f_name : string; f_recv : string; f_iserr : bool; f_isctx : bool;
                     f_args : list (string * aty); f_comment : string; f_synopsis : string }.

(* ast.FieldList.NumFields counts NAMES (one for an unnamed field) *)
Definition num_fields (ps : list pgroup) : nat :=
  fold_right (fun g n => Nat.max 1 (List.length (pnames g)) + n) 0 ps.
Definition num_fields_r (rs : list rgroup) : nat :=
  fold_right (fun g n => Nat.max 1 (rnames g) + n) 0 rs.

(* None = error (ETOOMANYCONTEXTS) *)
Definition hasContextParam (ps : list pgroup) : option bool :=
  if Nat.ltb (num_fields ps) 1 then Some false else
  match ps with
  | [] => Some false
  | p :: _ =>
      match pty_ p with
      | TCtx => if Nat.ltb 1 (List.length (pnames p)) then None else Some true
      | _ => Some false
      end
  end.

(* None = ETOOMANYRETURNS / ETOOMANYERRORS / EBADRETURNTYPE *)
Definition hasErrorReturn (rs : list rgroup) : option bool :=
  if Nat.eqb (num_fields_r rs) 0 then Some false else
  if Nat.ltb 1 (num_fields_r rs) then None else
  match rs with
  | [] => Some false
  | r :: _ =>
      if Nat.ltb 1 (rnames r) then None else
      match rkind_ r with RKError => Some true | _ => None end
  end.

(* parse.argTypes, keyed by fmt.Sprint of the type expression *)
Definition argType (t : pty) : option aty :=
  match t with
  | TString => Some AString | TInt => Some AInt | TBool => Some ABool | TDur => Some ADur
  | TCtx => None | TOther _ => None
  end.

(* the loop of funcType over ft.Params.List[x:], f.Args being [acc].
   [fixed] = false is the code before c50893e (no Arg for an unnamed parameter). *)
Fixpoint args_loop (fixed : bool) (ps : list pgroup) (acc : list (string * aty)) : option (list (string * aty)) :=
  match ps with
  | [] => Some acc
  | p :: r =>
      match argType (pty_ p) with
      | None => None
      | Some t =>
          let acc1 := acc ++ map (fun n => (n, t)) (pnames p) in
          let acc2 := if fixed && Nat.eqb (List.length (pnames p)) 0
                      then acc1 ++ [(("arg" ++ dec (List.length acc1))%string, t)] else acc1 in
          args_loop fixed r acc2
      end
  end.

Definition funcType_ (fixed : bool) (d : fdecl) : option function :=
  if tparams d then None else
  match hasContextParam (params d) with
  | None => None
  | Some isctx =>
      match hasErrorReturn (res d) with
      | None => None
      | Some iserr =>
          match args_loop fixed (skipn (if isctx then 1 else 0) (params d)) [] with
          | None => None
          | Some args => Some {| f_name := ""; f_recv := ""; f_iserr := iserr; f_isctx := isctx;
                                 f_args := args; f_comment := ""; f_synopsis := "" |}
          end
      end
  end.
Definition funcType : fdecl -> option function := funcType_ true.

Definition sanitizeSynopsis (name syn : string) : string :=
  match split_on " "%char syn with
  | w :: rest => if equal_fold name w then join " " rest else syn
  | [] => syn
  end.

Definition mkfn (d : fdecl) (receiver : string) (f : function) : function :=
  {| f_name := fname d; f_recv := receiver; f_iserr := f_iserr f; f_isctx := f_isctx f; f_args := f_args f;
     f_comment := toOneLine (fdoc d); f_synopsis := sanitizeSynopsis (fname d) (fsyn d) |}.

(* parse.isNamespace: one spec, not generic (f02d247; [fixed] = false is the code before), a selector mg.Namespace *)
Definition isNamespace_ (fixed : bool) (t : tdecl) : bool :=
  if fixed && tgeneric t then false else is_namespace t.
Definition isNamespace : tdecl -> bool := isNamespace_ true.

(* each collected Function is kept together with the declaration it was made from *)
Definition setFuncs (pk : pkg) : list (fdecl * function) :=
  flat_map (fun d =>
    if negb (no_recv d) then [] else
    if negb (exported (fname d)) then [] else
    match funcType d with None => [] | Some f => [(d, mkfn d "" f)] end) (doc_funcs pk).

Definition setNamespaces_ (fixed : bool) (pk : pkg) : list (fdecl * function) :=
  flat_map (fun t =>
    if negb (isNamespace_ fixed t) then [] else
    flat_map (fun d =>
      if negb (exported (fname d)) then [] else
      match funcType d with None => [] | Some f => [(d, mkfn d (tname t) f)] end) (doc_methods pk t)) (doc_types pk).

Definition setNamespaces : pkg -> list (fdecl * function) := setNamespaces_ true.

(* parse.Package: setNamespaces, then setFuncs *)
Definition targets_ (fixed : bool) (pk : pkg) : list (fdecl * function) := setNamespaces_ fixed pk ++ setFuncs pk.
Definition targets : pkg -> list (fdecl * function) := targets_ true.
Definition funcs (pk : pkg) : list function := map snd (targets pk).

(* Function.TargetName; PkgAlias is empty (no imports in this model) *)
Definition targetName (f : function) : string := join ":" (filter nonempty [EmptyString; f_recv f; f_name f]).

(* ------------------------------------------------------------------ Default and Aliases *)
Definition getFunction (e : fref) (fs : list function) : option function :=
  match e with
  | FIdent n => find (fun f => String.eqb (f_name f) n && String.eqb (f_recv f) "") fs
  | FSel x n => find (fun f => String.eqb x (f_recv f) && String.eqb n (f_name f)) fs
  | FOther => None
  end.

Fixpoint index_of (n : string) (l : list string) (i : nat) : option nat :=
  match l with
  | [] => None
  | x :: r => if String.eqb x n then Some i else index_of n r (S i)
  end.

Inductive dres := DPanic | DNone | DSome (f : function).

(* the code before 3720af9:
   for x, name := range v.Names { if name == "Default" { spec := v.Decl.Specs[x] ... spec.Values[0] *)
Fixpoint setDefault_old (vs : list (list vspec)) (fs : list function) : dres :=
  match vs with
  | [] => DNone
  | v :: r =>
      match index_of "Default" (value_names v) 0 with
      | None => setDefault_old r fs
      | Some x =>
          match nth_error v x with
          | None => DPanic
          | Some spec =>
              match vvalues spec with
              | [] => DPanic
              | VRef e :: _ => match getFunction e fs with Some f => DSome f | None => DNone end
              | VMap _ :: _ => DNone
              end
          end
      end
  end.

(* declaredValue(v, name): the spec that declares the name, the value at the name's position in
   that spec; no value of its own when the spec has not one value per name *)
Inductive dvres := DVNotFound | DVNoValue | DVValue (e : vexpr).
Fixpoint declaredValue (v : list vspec) (name : string) : dvres :=
  match v with
  | [] => DVNotFound
  | s :: r =>
      match index_of name (vnames s) 0 with
      | Some i =>
          if negb (Nat.eqb (List.length (vvalues s)) (List.length (vnames s))) then DVNoValue
          else match nth_error (vvalues s) i with Some e => DVValue e | None => DVNoValue end
      | None => declaredValue r name
      end
  end.

Fixpoint setDefault_new (vs : list (list vspec)) (fs : list function) : dres :=
  match vs with
  | [] => DNone
  | v :: r =>
      match declaredValue v "Default" with
      | DVNotFound => setDefault_new r fs
      | DVNoValue => DNone
      | DVValue (VRef e) => match getFunction e fs with Some f => DSome f | None => DNone end
      | DVValue (VMap _) => DNone
      end
  end.
Definition setDefault_in (fixed : bool) := if fixed then setDefault_new else setDefault_old.
Definition setDefault_ (fixed : bool) (pk : pkg) : dres := setDefault_in fixed (doc_vars pk) (funcs pk).
Definition setDefault : pkg -> dres := setDefault_ true.

Inductive ares := APanic | AList (l : list (string * function)).
Definition alias_entries (kvs : list (string * fref)) (fs : list function) : list (string * function) :=
  flat_map (fun kv => match getFunction (snd kv) fs with Some f => [(fst kv, f)] | None => [] end) kvs.
Fixpoint setAliases_old (vs : list (list vspec)) (fs : list function) : ares :=
  match vs with
  | [] => AList []
  | v :: r =>
      match index_of "Aliases" (value_names v) 0 with
      | None => setAliases_old r fs
      | Some x =>
          match nth_error v x with
          | None => APanic
          | Some spec =>
              match vvalues spec with
              | [] => APanic
              | VMap kvs :: _ => AList (alias_entries kvs fs)
              | VRef _ :: _ => AList []
              end
          end
      end
  end.
Fixpoint setAliases_new (vs : list (list vspec)) (fs : list function) : ares :=
  match vs with
  | [] => AList []
  | v :: r =>
      match declaredValue v "Aliases" with
      | DVNotFound => setAliases_new r fs
      | DVValue (VMap kvs) => AList (alias_entries kvs fs)
      | _ => AList []
      end
  end.
Definition setAliases_in (fixed : bool) := if fixed then setAliases_new else setAliases_old.
Definition setAliases (pk : pkg) : ares := setAliases_in true (doc_vars pk) (funcs pk).

(* ------------------------------------------------------------------ template.go: list and help *)
Definition zero_function : function :=
  {| f_name := ""; f_recv := ""; f_iserr := false; f_isctx := false; f_args := []; f_comment := ""; f_synopsis := "" |}.
Definition default_fn (r : dres) : function := match r with DSome f => f | _ => zero_function end.
Definition same_fn (a b : function) : bool := String.eqb (f_name a) (f_name b) && String.eqb (f_recv a) (f_recv b).

(* "{{lowerFirst .TargetName}}{{if and (eq .Name $default.Name) (eq .Receiver $default.Receiver)}}*{{end}}": {{printf "%q" .Synopsis}} *)
Definition list_entry (def f : function) : string * string :=
  ((lowerFirst (targetName f) ++ (if same_fn f def then "*" else ""))%string, f_synopsis f).
Definition listing (pk : pkg) : list (string * string) := map (list_entry (default_fn (setDefault pk))) (funcs pk).

(* the key the words of the command line (and of -h) are compared with, after strings.ToLower *)
Definition dispatch_key (f : function) : string := lower (targetName f).

Record help := { h_key : string; h_comment : string; h_args : list string; h_aliases : list string }.
Definition help_of (al : list (string * function)) (f : function) : help :=
  {| h_key := dispatch_key f; h_comment := f_comment f; h_args := map fst (f_args f);
     h_aliases := map fst (filter (fun p => same_fn f (snd p)) al) |}.

(* ------------------------------------------------------------------ ExecCode *)
Inductive carg := CCtx | CArg (i : nat).
Record call := { c_recv : option string      (* Some R: the call is (&R{}).Name(...) *)
               ; c_fn : string
               ; c_parse : list (nat * aty)   (* arg<i> := conversion of the next word to that type *)
               ; c_args : list carg
               ; c_returns : bool }.          (* `return Name(...)` rather than `Name(...); return nil` *)
Definition exec_call (f : function) : call :=
  {| c_recv := if nonempty (f_recv f) then Some (f_recv f) else None;
     c_fn := f_name f;
     c_parse := combine (seq 0 (List.length (f_args f))) (map snd (f_args f));
     c_args := (if f_isctx f then [CCtx] else []) ++ map CArg (seq 0 (List.length (f_args f)));
     c_returns := f_iserr f |}.
