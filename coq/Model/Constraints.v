(* Model of the choice of magefiles (mage/main.go: listGoFiles, Magefiles, the magefiles-directory
   detection of Invoke, the build environment of Compile; internal/run.go: SplitEnv, joinEnv,
   EnvWithGOOS) and of the part of go/build that this code calls (defaultContext, matchTag,
   goodOSArchFile, matchFile, the file loop of Context.Import).  Executable definitions only.

   mage's own code is transcribed line by line.  go/build is "modelled, not verified": what it
   computes at process start (tool tags, release tags, compiler, whether cgo is supported on the
   host) is a field of [startup] whose ACTUAL values the harness supplies per case; its file
   matcher is transcribed here and validated against the real one on every run.  Parsing of the
   //go:build and // +build lines (go/build/constraint) is not modelled: a file record carries the
   parsed expression. *)
From Mage Require Import Base.Strs.

(* ------------------------------------------------------------------ strings *)
Definition has_prefix (p s : string) : bool := String.prefix p s.
Definition has_suffix (suf s : string) : bool :=
  let n := String.length s in
  let m := String.length suf in
  Nat.leb m n && String.eqb (substring (n - m) m s) suf.

Fixpoint mem (x : string) (l : list string) : bool :=
  match l with [] => false | y :: r => String.eqb x y || mem x r end.

Definition c_eq : ascii := "="%char.
Definition c_dot : ascii := "."%char.
Definition c_us : ascii := "_"%char.

(* strings.Split(s, c): at least one element *)
Fixpoint split_on (c : ascii) (s : string) : list string :=
  match s with
  | EmptyString => [EmptyString]
  | String a r =>
      if Ascii.eqb a c then EmptyString :: split_on c r
      else match split_on c r with
           | h :: t => String a h :: t
           | [] => [String a EmptyString]
           end
  end.

(* the part before the first c (all of s when c does not occur): first result of strings.Cut *)
Fixpoint before (c : ascii) (s : string) : string :=
  match s with
  | EmptyString => EmptyString
  | String a r => if Ascii.eqb a c then EmptyString else String a (before c r)
  end.

(* s[i:] for i = strings.Index(s, c), None when i < 0 *)
Fixpoint from_first (c : ascii) (s : string) : option string :=
  match s with
  | EmptyString => None
  | String a r => if Ascii.eqb a c then Some s else from_first c r
  end.

(* ------------------------------------------------------------------ environment (internal/run.go) *)
(* strings.SplitN(s, "=", 2) when it has two parts *)
Fixpoint split_eq (s : string) : option (string * string) :=
  match s with
  | EmptyString => None
  | String a r =>
      if Ascii.eqb a c_eq then Some (EmptyString, r)
      else match split_eq r with
           | Some (k, v) => Some (String a k, v)
           | None => None
           end
  end.

(* a Go map[string]string: association list with distinct keys (the order stands for the
   unspecified iteration order; Proof/Constraints_facts.v shows it does not matter) *)
Definition emap := list (string * string).
Fixpoint mget (k : string) (m : emap) : option string :=
  match m with
  | [] => None
  | (k', v) :: r => if String.eqb k k' then Some v else mget k r
  end.
Definition mset (k v : string) (m : emap) : emap :=
  (k, v) :: filter (fun kv => negb (String.eqb k (fst kv))) m.

(* SplitEnv: later entries overwrite earlier ones; an entry without "=" is an error *)
Fixpoint splitEnv_from (acc : emap) (env : list string) : option emap :=
  match env with
  | [] => Some acc
  | s :: r => match split_eq s with
              | None => None
              | Some (k, v) => splitEnv_from (mset k v acc) r
              end
  end.
Definition splitEnv (env : list string) : option emap := splitEnv_from [] env.

Definition joinEnv (m : emap) : list string :=
  map (fun kv => (fst kv ++ "=" ++ snd kv)%string) m.

(* os.Getenv on the process environment (entries without "=" are not variables) *)
Fixpoint getenv (env : list string) (k : string) : string :=
  match env with
  | [] => EmptyString
  | s :: r => match split_eq s with
              | Some (k', v) => if String.eqb k k' then v else getenv r k
              | None => getenv r k
              end
  end.

(* ------------------------------------------------------------------ what exists at process start *)
Record startup := {
  su_environ : list string;        (* os.Environ() *)
  su_hostos : string;              (* runtime.GOOS *)
  su_hostarch : string;            (* runtime.GOARCH *)
  su_cgo_supported : bool;         (* internal/platform.CgoSupported(host) *)
  su_default_cgo : string;         (* go/build's constant defaultCGO_ENABLED *)
  su_compiler : string;            (* runtime.Compiler *)
  su_tooltags : list string;       (* internal/buildcfg.ToolTags (computed from the start-up environment) *)
  su_releasetags : list string     (* go1.1 ... go1.N *)
}.

(* go/build.Context, the fields that matter here *)
Record bctx := {
  b_goos : string; b_goarch : string; b_cgo : bool; b_compiler : string;
  b_buildtags : list string; b_tooltags : list string; b_releasetags : list string
}.

Definition envOr (su : startup) (name def : string) : string :=
  let s := getenv (su_environ su) name in
  if String.eqb s "" then def else s.

(* go/build.defaultContext(), evaluated once when the process starts (var Default = defaultContext()) *)
Definition defaultContext (su : startup) : bctx :=
  let goarch := envOr su "GOARCH" (su_hostarch su) in
  let goos := envOr su "GOOS" (su_hostos su) in
  let env := getenv (su_environ su) "CGO_ENABLED" in
  let env := if String.eqb env "" then su_default_cgo su else env in
  let cgo :=
    if String.eqb env "1" then true
    else if String.eqb env "0" then false
    else if String.eqb (su_hostarch su) goarch && String.eqb (su_hostos su) goos
         then su_cgo_supported su
         else false in
  {| b_goos := goos; b_goarch := goarch; b_cgo := cgo; b_compiler := su_compiler su;
     b_buildtags := []; b_tooltags := su_tooltags su; b_releasetags := su_releasetags su |}.

Definition with_tags (b : bctx) (t : list string) : bctx :=
  {| b_goos := b_goos b; b_goarch := b_goarch b; b_cgo := b_cgo b; b_compiler := b_compiler b;
     b_buildtags := t; b_tooltags := b_tooltags b; b_releasetags := b_releasetags b |}.
Definition with_goos (b : bctx) (v : string) : bctx :=
  {| b_goos := v; b_goarch := b_goarch b; b_cgo := b_cgo b; b_compiler := b_compiler b;
     b_buildtags := b_buildtags b; b_tooltags := b_tooltags b; b_releasetags := b_releasetags b |}.
Definition with_goarch (b : bctx) (v : string) : bctx :=
  {| b_goos := b_goos b; b_goarch := v; b_cgo := b_cgo b; b_compiler := b_compiler b;
     b_buildtags := b_buildtags b; b_tooltags := b_tooltags b; b_releasetags := b_releasetags b |}.

(* ------------------------------------------------------------------ go/build: tags *)
Definition knownOS : list string :=
  ["aix"; "android"; "darwin"; "dragonfly"; "freebsd"; "hurd"; "illumos"; "ios"; "js"; "linux";
   "nacl"; "netbsd"; "openbsd"; "plan9"; "solaris"; "wasip1"; "windows"; "zos"].
Definition unixOS : list string :=
  ["aix"; "android"; "darwin"; "dragonfly"; "freebsd"; "hurd"; "illumos"; "ios"; "linux";
   "netbsd"; "openbsd"; "solaris"].
Definition knownArch : list string :=
  ["386"; "amd64"; "amd64p32"; "arm"; "armbe"; "arm64"; "arm64be"; "loong64"; "mips"; "mipsle";
   "mips64"; "mips64le"; "mips64p32"; "mips64p32le"; "ppc"; "ppc64"; "ppc64le"; "riscv";
   "riscv64"; "s390"; "s390x"; "sparc"; "sparc64"; "wasm"].

(* Context.matchTag *)
Definition matchTag (c : bctx) (name : string) : bool :=
  if b_cgo c && String.eqb name "cgo" then true
  else if String.eqb name (b_goos c) || String.eqb name (b_goarch c) || String.eqb name (b_compiler c) then true
  else if String.eqb (b_goos c) "android" && String.eqb name "linux" then true
  else if String.eqb (b_goos c) "illumos" && String.eqb name "solaris" then true
  else if String.eqb (b_goos c) "ios" && String.eqb name "darwin" then true
  else if String.eqb name "unix" && mem (b_goos c) unixOS then true
  else
    let name := if String.eqb name "boringcrypto" then "goexperiment.boringcrypto" else name in
    mem name (b_buildtags c) || mem name (b_tooltags c) || mem name (b_releasetags c).

(* build constraint expressions (go/build/constraint.Expr) *)
Inductive expr :=
| Tag (t : string)
| Not (e : expr)
| And (a b : expr)
| Or (a b : expr).

Fixpoint eval (v : string -> bool) (e : expr) : bool :=
  match e with
  | Tag t => v t
  | Not e => negb (eval v e)
  | And a b => eval v a && eval v b
  | Or a b => eval v a || eval v b
  end.

(* ------------------------------------------------------------------ go/build: file names *)
(* Context.goodOSArchFile *)
Definition goodOSArchFile (c : bctx) (name : string) : bool :=
  let name := before c_dot name in
  match from_first c_us name with
  | None => true
  | Some name =>
      let l := split_on c_us name in
      let l := match rev l with
               | last :: r => if String.eqb last "test" then rev r else l
               | [] => l
               end in
      match rev l with
      | a :: o :: _ =>
          if mem o knownOS && mem a knownArch then matchTag c a && matchTag c o
          else if mem a knownOS || mem a knownArch then matchTag c a
          else true
      | [a] => if mem a knownOS || mem a knownArch then matchTag c a else true
      | [] => true
      end
  end.

Definition hidden (name : string) : bool := has_prefix "_" name || has_prefix "." name.
(* ext == ".go" for ext = name[LastIndex(name, "."):] *)
Definition is_go (name : string) : bool := has_suffix ".go" name.
Definition is_test (name : string) : bool := has_suffix "_test.go" name.

(* ------------------------------------------------------------------ files *)
(* what go/build reads from the head of a file: the constraint in force (the //go:build line, or
   the conjunction of the // +build lines when there is no //go:build line), none, or a
   //go:build line that does not parse / occurs twice *)
Inductive header := HNone | HBuild (e : expr) | HBad.

Record file := {
  f_name : string;
  f_header : header;
  f_pkg : string;          (* name in the package clause *)
  f_parse_ok : bool        (* false: syntax error in the package clause / imports *)
}.

(* Context.shouldBuild on a header that parses *)
Definition shouldBuild (c : bctx) (h : header) : bool :=
  match h with
  | HNone => true
  | HBuild e => eval (matchTag c) e
  | HBad => false
  end.

(* the loop over the directory entries in Context.Import (entries arrive sorted by name) *)
Inductive berr := EOther | EMulti.     (* MultiplePackageError vs. any other error *)
Record scanst := { s_pname : string; s_err : option berr; s_gofiles : list string }.

Definition badGoFile (e : berr) (s : scanst) : scanst :=
  match s_err s with
  | None => {| s_pname := s_pname s; s_err := Some e; s_gofiles := s_gofiles s |}
  | Some _ => s
  end.
Definition set_pname (p : string) (s : scanst) : scanst :=
  {| s_pname := p; s_err := s_err s; s_gofiles := s_gofiles s |}.
Definition add_gofile (n : string) (s : scanst) : scanst :=
  {| s_pname := s_pname s; s_err := s_err s; s_gofiles := s_gofiles s ++ [n] |}.

Definition scan_file (c : bctx) (s : scanst) (f : file) : scanst :=
  let name := f_name f in
  (* matchFile *)
  if hidden name then s
  else if negb (is_go name) then s
  else if negb (goodOSArchFile c name) then s
  else match f_header f with
  | HBad => badGoFile EOther s                      (* shouldBuild's error: badGoFile; continue *)
  | h =>
    if negb (shouldBuild c h) then s                (* IgnoredGoFiles *)
    else
      let s := if f_parse_ok f then s else badGoFile EOther s in
      let pkg := f_pkg f in
      if String.eqb pkg "documentation" then s
      else
        let isTest := is_test name in
        let isXTest := isTest && has_suffix "_test" pkg && negb (String.eqb (s_pname s) pkg) in
        let pkg := if isXTest then substring 0 (String.length pkg - 5) pkg else pkg in
        let s := if String.eqb (s_pname s) "" then set_pname pkg s
                 else if negb (String.eqb pkg (s_pname s)) then badGoFile EMulti s
                 else s in
        if isTest then s else add_gofile name s
  end.

Definition scan_init : scanst := {| s_pname := ""; s_err := None; s_gofiles := [] |}.

(* what listGoFiles makes of bctx.Import: NoGoError and MultiplePackageError are tolerated
   (pkg.GoFiles is used as it is), every other error is returned *)
Definition import_gofiles (c : bctx) (files : list file) : option (list string) :=
  let s := fold_left (scan_file c) files scan_init in
  match s_err s with
  | Some EOther => None
  | _ => Some (s_gofiles s)
  end.

(* ------------------------------------------------------------------ mage *)
(* internal.EnvWithGOOS *)
Definition envWithGOOS (su : startup) (goos goarch : string) : option (list string) :=
  match splitEnv (su_environ su) with
  | None => None
  | Some env =>
      let env := if String.eqb goos "" then mset "GOOS" (su_hostos su) env else mset "GOOS" goos env in
      let env := if String.eqb goarch "" then mset "GOARCH" (su_hostarch su) env else mset "GOARCH" goarch env in
      Some (joinEnv env)
  end.

(* listGoFiles (the directory is given by its files; the result is the list of base names) *)
Definition listGoFiles (su : startup) (tag : string) (envStr : list string) (files : list file)
  : option (list string) :=
  match splitEnv envStr with
  | None => None
  | Some env =>
      let bctx := defaultContext su in
      let bctx := with_tags bctx [tag] in
      let bctx := match mget "GOOS" env with Some v => with_goos bctx v | None => bctx end in
      let bctx := match mget "GOARCH" env with Some v => with_goarch bctx v | None => bctx end in
      import_gofiles bctx files
  end.

(* Magefiles *)
Definition magefiles (su : startup) (goos goarch : string) (isMagefilesDirectory : bool)
  (files : list file) : option (list string) :=
  match envWithGOOS su goos goarch with
  | None => None
  | Some env =>
    match listGoFiles su "mage" env files with
    | None => None
    | Some mageFiles =>
      if isMagefilesDirectory then Some mageFiles
      else
        match listGoFiles su "" env files with
        | None => None
        | Some nonMageFiles =>
            let exclude := filter (fun f => negb (String.eqb f "")) nonMageFiles in
            Some (filter (fun f => negb (String.eqb f "") && negb (mem f exclude)) mageFiles)
        end
    end
  end.

(* Compile: the environment of the `go build` child is EnvWithGOOS of the same two flags *)
Definition compile_env (su : startup) (goos goarch : string) : option (list string) :=
  envWithGOOS su goos goarch.

(* Invoke, lines 328-359: which directory is used, and with which isMagefilesDirectory *)
Inductive which := Top | Sub.
Definition choose_dir (su : startup) (goos goarch : string) (has_subdir : bool) (top : list file) : which :=
  if has_subdir then
    match magefiles su goos goarch false top with
    | Some (_ :: _) => Top          (* warning; the directory's own magefiles win *)
    | _ => Sub
    end
  else Top.

(* top_named: filepath.Base(inv.Dir) == "magefiles" for the directory mage was pointed at *)
Definition invoke_magefiles (su : startup) (goos goarch : string) (has_subdir top_named : bool)
  (top sub : list file) : which * option (list string) :=
  match choose_dir su goos goarch has_subdir top with
  | Top => (Top, magefiles su goos goarch top_named top)
  | Sub => (Sub, magefiles su goos goarch true sub)
  end.

(* ------------------------------------------------------------------ specification vocabulary
   (the declarative side of the theorems in Props/C10.v; nothing above uses it) *)

(* the context a listing is made with: build.Default of the process, the tag list, and the two
   platform fields overwritten *)
Definition ctx_for (su : startup) (os arch tag : string) : bctx :=
  with_goarch (with_goos (with_tags (defaultContext su) [tag]) os) arch.

(* the platform mage lists (and compiles) for: the flag when given, else the host *)
Definition platform_os (su : startup) (goos : string) : string :=
  if String.eqb goos "" then su_hostos su else goos.
Definition platform_arch (su : startup) (goarch : string) : string :=
  if String.eqb goarch "" then su_hostarch su else goarch.

(* a .go file that is not hidden, not a test file (and not in the pseudo package "documentation",
   which go/build always ignores) *)
Definition candidate (f : file) : bool :=
  negb (hidden (f_name f)) && is_go (f_name f) && negb (is_test (f_name f))
  && negb (String.eqb (f_pkg f) "documentation").

(* the file's build constraints - name suffix and header - hold in context c *)
Definition satisfied (c : bctx) (f : file) : bool :=
  goodOSArchFile c (f_name f) && shouldBuild c (f_header f).

Definition requires_mage (su : startup) (os arch : string) (f : file) : bool :=
  candidate f && satisfied (ctx_for su os arch "mage") f && negb (satisfied (ctx_for su os arch "") f).

Fixpoint mentions (t : string) (e : expr) : bool :=
  match e with
  | Tag t' => String.eqb t t'
  | Not e => mentions t e
  | And a b | Or a b => mentions t a || mentions t b
  end.
Definition header_mentions (t : string) (h : header) : bool :=
  match h with HBuild e => mentions t e | _ => false end.

(* an environment whose entries all have the form KEY=VALUE *)
Definition env_ok (env : list string) : Prop := forall s, In s env -> split_eq s <> None.
Definition file_ok (f : file) : Prop := f_header f <> HBad /\ f_parse_ok f = true.

(* what the truth of a tag owes to the process start (and not to the platform or the tag list) *)
Definition tag_alias (t : string) : string :=
  if String.eqb t "boringcrypto" then "goexperiment.boringcrypto" else t.
Definition startup_tag (su : startup) (t : string) : bool :=
  (b_cgo (defaultContext su) && String.eqb t "cgo") || String.eqb t (su_compiler su)
  || mem (tag_alias t) (su_tooltags su) || mem (tag_alias t) (su_releasetags su).
