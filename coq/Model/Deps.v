(* Model of the dependency engine: mg/deps.go (whole file), mg/fn.go:33-99, mg/errors.go.
   Executable definitions only.  DESIGN.md section 4.0.

   One atomic step per synchronisation primitive of the code:
     - registry LoadOrStore under o.mu  (deps.go:26-45)   : the cell map [cells], a function of the key
     - go func(){...}() + wg.Add(1)     (deps.go:98-101)  : [ATask t] in a round with goroutines left to spawn
     - sync.Once.Do                     (deps.go:204-222) : [AGo t j] of a goroutine in state GAtOnce
     - body of the dependency                               : [ATask (TBody k)]
     - recover/err -> errs, exit, wg.Done (deps.go:102-120): [AGo t j] of a goroutine in state GHas
     - wg.Wait + panic(Fatal(exit,errs)) (deps.go:124-127): [ATask t] when every goroutine is GFinished
     - serial forms: one single-member round per listed dependency (deps.go:55-71)
   A schedule is a list of actions; "for all interleavings" = for all action lists. *)
From Mage Require Import Base.Strs.

Definition key := nat.               (* (function name, argument id): numbered injectively by the harness; cf. C14 *)
Definition msg := list nat.          (* the failure tokens in a message (one per failed leaf) *)

Inductive outcome := Ok | Err (code : Z) (m : msg) | PanicErr (code : Z) (m : msg) | PanicVal (m : msg).
Inductive style := Par | Ser.        (* Deps/CtxDeps  vs  SerialDeps/SerialCtxDeps *)
Inductive ctxsel := Bg | Fwd.        (* context.Background()  vs  the caller's context *)
Inductive ctx := CBg | CTag (n : nat).

Record call := { c_style : style; c_ctx : ctxsel; c_deps : list key; c_guarded : bool (* caller recovers and goes on *) }.
Record body := { b_calls : list call; b_result : outcome; b_name : nat (* display name id *) }.

Inductive tid := TRoot (n : nat) | TBody (k : key).

Record prog := { nodes : list body; roots : list (list call * ctx); verbose : bool }.

Definition default_body : body := {| b_calls := []; b_result := Ok; b_name := 0 |}.
Definition bodies (p : prog) (k : key) : body := nth k (nodes p) default_body.

(* what a requester sees *)
Inductive res := RNil | RErr (code : Z) (m : msg) | RPanic (code : Z) (m : msg).

Definition res_of (o : outcome) : res :=
  match o with
  | Ok => RNil
  | Err c m => RErr c m
  | PanicErr c m => RPanic c m          (* recover: v.(error) -> ExitStatus(err) *)
  | PanicVal m => RPanic 1 m            (* recover: not an error -> 1 *)
  end.

(* what onceFun hands to every caller but the one that ran the function.
   [fixed = true] is the current tree (panic value remembered and re-raised);
   [fixed = false] is the code before the repair: o.err was only assigned on a normal return. *)
Definition remember (fixed : bool) (r : res) : res :=
  match r with
  | RPanic c m => if fixed then RPanic c m else RNil
  | _ => r
  end.

(* mg/deps.go changeExit *)
Definition changeExit (old new : Z) : Z :=
  if Z.eqb new 0 then old else if Z.eqb old 0 then new else if Z.eqb old new then old else 1%Z.

Inductive cellst := NotStarted | Running | Done (r : res).

(* one runDeps invocation per round *)
Definition rounds (c : call) : list (list key) :=
  match c_style c with
  | Par => [c_deps c]
  | Ser => match c_deps c with [] => [[]] | ds => map (fun d => [d]) ds end
  end.

Inductive gst := GAtOnce | GRunning | GHas (r : res) | GFinished.

Record rd := {                       (* state of the active runDeps of a task *)
  rd_members : list key;
  rd_gs : list gst;                  (* goroutines spawned so far, in order *)
  rd_errs : msg;
  rd_nerr : nat;
  rd_exit : Z;
  rd_done : list nat;                (* GHOST: indices of the goroutines that reported, in report order;
                                        never read by [step]'s decisions *)
}.

Inductive phase :=
| PIdle                              (* between calls *)
| PRound (r : nat) (st : rd)         (* inside round r of call pc *)
| PAbort (o : res)                   (* an unguarded call panicked: the body unwinds *)
| PFinished.

Record task := { t_pc : nat; t_phase : phase; t_ctx : ctx }.

Inductive event :=
| Log (name : nat)                   (* 'Running dependency: <name>' (verbose) *)
| BodyStart (k : key) (c : ctx)
| BodyEnd (k : key) (o : res)
| CallEnter (t : tid) (pc : nat)
| CallReturn (t : tid) (pc : nat)
| CallPanic (t : tid) (pc : nat) (exit : Z) (m : msg).

Record cfg := {
  cells : key -> cellst;
  tasks : tid -> option task;
}.

Definition tid_eqb (a b : tid) : bool :=
  match a, b with
  | TRoot x, TRoot y => Nat.eqb x y
  | TBody x, TBody y => Nat.eqb x y
  | _, _ => false
  end.

Definition updc (f : key -> cellst) (k : key) (v : cellst) : key -> cellst :=
  fun k' => if Nat.eqb k' k then v else f k'.
Definition updt (f : tid -> option task) (t : tid) (v : option task) : tid -> option task :=
  fun t' => if tid_eqb t' t then v else f t'.

Definition calls_of (p : prog) (t : tid) : list call :=
  match t with
  | TRoot n => match nth_error (roots p) n with Some (cs, _) => cs | None => [] end
  | TBody k => b_calls (bodies p k)
  end.

Inductive action :=
| ATask (t : tid)                    (* the task's own next step *)
| AGo (t : tid) (j : nat).           (* goroutine j of t's active round *)

Definition init (p : prog) : cfg :=
  {| cells := fun _ => NotStarted;
     tasks := fun t => match t with
                       | TRoot n => match nth_error (roots p) n with
                                    | Some (_, c) => Some {| t_pc := 0; t_phase := PIdle; t_ctx := c |}
                                    | None => None
                                    end
                       | TBody _ => None
                       end |}.

Definition new_rd (ms : list key) : rd :=
  {| rd_members := ms; rd_gs := []; rd_errs := []; rd_nerr := 0; rd_exit := 0%Z; rd_done := [] |}.

Definition all_finished (gs : list gst) : bool :=
  forallb (fun g => match g with GFinished => true | _ => false end) gs.

Fixpoint set_nth {A} (l : list A) (n : nat) (v : A) : list A :=
  match l, n with
  | [], _ => []
  | _ :: xs, O => v :: xs
  | x :: xs, S n' => x :: set_nth xs n' v
  end.

Definition child_ctx (c : call) (parent : ctx) : ctx :=
  match c_ctx c with Bg => CBg | Fwd => parent end.

(* the task ends: a body publishes its outcome in its cell (once.Do returns / panics) *)
Definition finish (s : cfg) (t : tid) (tk : task) (o : res) : cfg * list event :=
  match t with
  | TRoot _ =>
      ({| cells := cells s;
          tasks := updt (tasks s) t (Some {| t_pc := t_pc tk; t_phase := PFinished; t_ctx := t_ctx tk |}) |}, [])
  | TBody k =>
      ({| cells := updc (cells s) k (Done o);
          tasks := updt (tasks s) t (Some {| t_pc := t_pc tk; t_phase := PFinished; t_ctx := t_ctx tk |}) |},
       [BodyEnd k o])
  end.

Definition status (r : res) : Z :=
  match r with RNil => 0%Z | RErr c _ => c | RPanic c _ => c end.
Definition message (r : res) : msg :=
  match r with RNil => [] | RErr _ m => m | RPanic _ m => m end.
Definition is_nil (r : res) : bool := match r with RNil => true | _ => false end.

Section Step.
Variable fixed : bool.
Variable p : prog.

Definition set_phase (s : cfg) (t : tid) (tk : task) (pc : nat) (ph : phase) : cfg :=
  {| cells := cells s;
     tasks := updt (tasks s) t (Some {| t_pc := pc; t_phase := ph; t_ctx := t_ctx tk |}) |}.

Definition own_result (t : tid) : res :=
  match t with TBody k => res_of (b_result (bodies p k)) | TRoot _ => RNil end.

Definition step_task (s : cfg) (t : tid) : option (cfg * list event) :=
  match tasks s t with
  | None => None
  | Some tk =>
    match t_phase tk with
    | PFinished => None
    | PAbort o => Some (finish s t tk o)
    | PIdle =>
        match nth_error (calls_of p t) (t_pc tk) with
        | None => Some (finish s t tk (own_result t))      (* all calls made: the body ends with its own result *)
        | Some c =>
            match rounds c with
            | [] => None                                    (* impossible: rounds is never empty *)
            | ms :: _ => Some (set_phase s t tk (t_pc tk) (PRound 0 (new_rd ms)), [CallEnter t (t_pc tk)])
            end
        end
    | PRound r st =>
        match nth_error (calls_of p t) (t_pc tk) with
        | None => None
        | Some c =>
          if Nat.ltb (length (rd_gs st)) (length (rd_members st)) then
            (* LoadOrStore + spawn the next goroutine (the cell exists implicitly: NotStarted) *)
            Some (set_phase s t tk (t_pc tk)
                    (PRound r {| rd_members := rd_members st; rd_gs := rd_gs st ++ [GAtOnce];
                                 rd_errs := rd_errs st; rd_nerr := rd_nerr st; rd_exit := rd_exit st;
                                 rd_done := rd_done st |}), [])
          else if all_finished (rd_gs st) then
            (* wg.Wait() returns *)
            if Nat.eqb (rd_nerr st) 0 then
              match nth_error (rounds c) (S r) with
              | Some ms => Some (set_phase s t tk (t_pc tk) (PRound (S r) (new_rd ms)), [])
              | None => Some (set_phase s t tk (S (t_pc tk)) PIdle, [CallReturn t (t_pc tk)])
              end
            else
              let ev := CallPanic t (t_pc tk) (rd_exit st) (rd_errs st) in
              if c_guarded c then Some (set_phase s t tk (S (t_pc tk)) PIdle, [ev])
              else Some (set_phase s t tk (S (t_pc tk)) (PAbort (RPanic (rd_exit st) (rd_errs st))), [ev])
          else None
        end
    end
  end.

Definition step_go (s : cfg) (t : tid) (j : nat) : option (cfg * list event) :=
  match tasks s t with
  | None => None
  | Some tk =>
    match t_phase tk with
    | PRound r st =>
      match nth_error (calls_of p t) (t_pc tk), nth_error (rd_members st) j, nth_error (rd_gs st) j with
      | Some c, Some k, Some g =>
        let setg' g' errs nerr ex dn :=
          set_phase s t tk (t_pc tk)
            (PRound r {| rd_members := rd_members st; rd_gs := set_nth (rd_gs st) j g';
                         rd_errs := errs; rd_nerr := nerr; rd_exit := ex; rd_done := dn |}) in
        let setg g' errs nerr ex := setg' g' errs nerr ex (rd_done st) in
        match g with
        | GAtOnce =>
            match cells s k with
            | NotStarted =>
                let s1 := setg GRunning (rd_errs st) (rd_nerr st) (rd_exit st) in
                Some ({| cells := updc (cells s1) k Running;
                         tasks := updt (tasks s1) (TBody k)
                                    (Some {| t_pc := 0; t_phase := PIdle; t_ctx := child_ctx c (t_ctx tk) |}) |},
                      (if verbose p then [Log (b_name (bodies p k))] else []) ++ [BodyStart k (child_ctx c (t_ctx tk))])
            | Running => None                                      (* blocked in once.Do *)
            | Done r0 => Some (setg (GHas (remember fixed r0)) (rd_errs st) (rd_nerr st) (rd_exit st), [])
            end
        | GRunning =>
            match cells s k with
            | Done r0 => Some (setg (GHas r0) (rd_errs st) (rd_nerr st) (rd_exit st), [])   (* the winner sees the real outcome *)
            | _ => None
            end
        | GHas r0 =>
            if is_nil r0 then Some (setg' GFinished (rd_errs st) (rd_nerr st) (rd_exit st) (rd_done st ++ [j]), [])
            else Some (setg' GFinished (rd_errs st ++ message r0) (S (rd_nerr st)) (changeExit (rd_exit st) (status r0))
                         (rd_done st ++ [j]), [])
        | GFinished => None
        end
      | _, _, _ => None
      end
    | _ => None
    end
  end.

Definition step (s : cfg) (a : action) : option (cfg * list event) :=
  match a with
  | ATask t => step_task s t
  | AGo t j => step_go s t j
  end.

Fixpoint run (s : cfg) (acts : list action) : option (cfg * list event) :=
  match acts with
  | [] => Some (s, [])
  | a :: rest =>
      match step s a with
      | None => None
      | Some (s', ev) =>
          match run s' rest with
          | None => None
          | Some (s'', evs) => Some (s'', ev ++ evs)
          end
      end
  end.

End Step.

(* --- the same engine WITHOUT the registry mutex / with a check-then-act once: a sensitivity
   variant used only by the "..._refuted" theorems (the model can exhibit the failure). *)
