(* Acceptance of an observed trace of the real engine by the model (translation validation).
   [guess] is an UNTRUSTED search for a schedule; [accepts] then RUNS THE MODEL ITSELF ([run]) on the
   guessed schedule and compares the events it emits with the observed ones.  [accepts p o = true]
   therefore is, by unfolding, a witness of  exists acts cfg tr, run p (init p) acts = Some (cfg, tr)
   with tr matching the observation: the observed trace is a trace of the model. *)
From Mage Require Import Base.Strs Model.Deps.

(* what the harness can observe *)
Inductive oevent :=
| OBodyStart (k : key) (c : option ctx)      (* None: the function takes no context *)
| OBodyEnd (k : key) (o : res)
| OCallEnter (t : tid) (pc : nat)
| OCallReturn (t : tid) (pc : nat)
| OCallPanic (t : tid) (pc : nat) (exit : Z) (m : msg).

Fixpoint insert (x : nat) (l : list nat) : list nat :=
  match l with
  | [] => [x]
  | y :: r => if Nat.leb x y then x :: l else y :: insert x r
  end.
Definition sort (l : list nat) : list nat := fold_right insert [] l.

Definition ctx_eqb (a b : ctx) : bool :=
  match a, b with CBg, CBg => true | CTag x, CTag y => Nat.eqb x y | _, _ => false end.
Definition msg_eqb (a b : msg) : bool := list_eqb Nat.eqb (sort a) (sort b).   (* report order is not compared *)
Definition res_eqb (a b : res) : bool :=
  match a, b with
  | RNil, RNil => true
  | RErr c m, RErr c' m' => Z.eqb c c' && msg_eqb m m'
  | RPanic c m, RPanic c' m' => Z.eqb c c' && msg_eqb m m'
  | _, _ => false
  end.

Definition ev_match (e : event) (o : oevent) : bool :=
  match e, o with
  | BodyStart k c, OBodyStart k' oc => Nat.eqb k k' && match oc with None => true | Some c' => ctx_eqb c c' end
  | BodyEnd k r, OBodyEnd k' r' => Nat.eqb k k' && res_eqb r r'
  | CallEnter t pc, OCallEnter t' pc' => tid_eqb t t' && Nat.eqb pc pc'
  | CallReturn t pc, OCallReturn t' pc' => tid_eqb t t' && Nat.eqb pc pc'
  | CallPanic t pc x m, OCallPanic t' pc' x' m' => tid_eqb t t' && Nat.eqb pc pc' && Z.eqb x x' && msg_eqb m m'
  | _, _ => false
  end.

Definition is_log (e : event) : bool := match e with Log _ => true | _ => false end.
Definition visible (tr : list event) : list event := filter (fun e => negb (is_log e)) tr.

Fixpoint trace_match (tr : list event) (o : list oevent) : bool :=
  match tr, o with
  | [], [] => true
  | e :: tr', x :: o' => ev_match e x && trace_match tr' o'
  | _, _ => false
  end.

Section Guess.
Variable p : prog.
Let step := step true p.

Definition all_tids : list tid :=
  map TRoot (seq 0 (length (roots p))) ++ map TBody (seq 0 (length (nodes p))).

Definition candidates (s : cfg) : list action :=
  flat_map (fun t =>
    ATask t ::
    match tasks s t with
    | Some tk => match t_phase tk with
                 | PRound _ st => map (AGo t) (seq 0 (length (rd_members st)))
                 | _ => []
                 end
    | None => []
    end) all_tids.

(* one pass: take every enabled step that emits nothing *)
Fixpoint silent_pass (s : cfg) (cands : list action) (acc : list action) : cfg * list action * bool :=
  match cands with
  | [] => (s, acc, false)
  | a :: r =>
      match step s a with
      | Some (s', []) => let '(s'', acc', _) := silent_pass s' r (a :: acc) in (s'', acc', true)
      | _ => silent_pass s r acc
      end
  end.

Fixpoint saturate (fuel : nat) (s : cfg) (acc : list action) : cfg * list action :=
  match fuel with
  | O => (s, acc)
  | S f => let '(s', acc', progress) := silent_pass s (candidates s) acc in
           if progress then saturate f s' acc' else (s', acc')
  end.

(* the action that emits the observed event *)
Fixpoint find_emitter (s : cfg) (o : oevent) (cands : list action) : option (cfg * action) :=
  match cands with
  | [] => None
  | a :: r =>
      match step s a with
      | Some (s', ev) =>
          match visible ev with
          | [e] => if ev_match e o then Some (s', a) else find_emitter s o r
          | _ => find_emitter s o r
          end
      | None => find_emitter s o r
      end
  end.

(* returns the guessed schedule (reversed) or the index of the first observed event nothing can emit *)
Fixpoint guess (fuel : nat) (s : cfg) (o : list oevent) (acc : list action) (i : nat) : list action + nat :=
  let '(s1, acc1) := saturate fuel s acc in
  match o with
  | [] => inl acc1
  | x :: o' =>
      match find_emitter s1 x (candidates s1) with
      | Some (s2, a) => guess fuel s2 o' (a :: acc1) (S i)
      | None => inr i
      end
  end.

Definition roots_finished (s : cfg) : bool :=
  forallb (fun n => match tasks s (TRoot n) with
                    | Some tk => match t_phase tk with PFinished => true | _ => false end
                    | None => false
                    end) (seq 0 (length (roots p))).

Definition count_log (n : nat) (tr : list event) : nat :=
  length (filter (fun e => match e with Log m => Nat.eqb m n | _ => false end) tr).

(* observed: the event trace and, per display name, the number of 'Running dependency:' lines *)
Inductive verdict := Accepted | NoSchedule (at_event : nat) | RunDiffers | NotFinal | LogCount (name : nat) (model_says : nat).

Fixpoint check_logs (tr : list event) (logs : list (nat * nat)) : option (nat * nat) :=
  match logs with
  | [] => None
  | (n, c) :: r => if Nat.eqb (count_log n tr) c then check_logs tr r else Some (n, count_log n tr)
  end.

Definition accepts (fuel : nat) (o : list oevent) (logs : list (nat * nat)) : verdict :=
  match guess fuel (init p) o [] 0 with
  | inr i => NoSchedule i
  | inl racts =>
      match run true p (init p) (rev racts) with          (* the model itself, on the guessed schedule *)
      | None => RunDiffers
      | Some (s, tr) =>
          if negb (trace_match (visible tr) o) then RunDiffers
          else if negb (roots_finished s) then NotFinal
          else match check_logs tr logs with
               | Some (n, c) => LogCount n c
               | None => Accepted
               end
      end
  end.
End Guess.
