(* Model of the generated command-line dispatcher (mage/template.go:415-491, parse/parse.go:91-178).
   Executable definitions only.

   The template is instantiated with DATA: the local Funcs (sorted by TargetName), the Funcs of
   every mage:import'ed package, the Aliases map (ranged over in key order), the DefaultFunc.
   [info] is that data; [tname] is parse.Function.TargetName ("alias:receiver:name", original
   letter case), [targs] the declared parameter types, [tdef] the harness' identifier of the
   declaration whose body is called.

   Outside behaviour is a parameter, never an axiom:
     conv  : strconv.Atoi / strconv.ParseBool / time.ParseDuration on one word
             (Some printed-value / None = error); string parameters do not go through it;
     fails : whether the body of a declaration, called with these values, makes handleError exit.
   [lower] is ASCII lower-casing: the model is about ASCII identifiers and alias names
   (strings.ToLower on non-ASCII text is not modelled). *)
From Mage Require Import Base.Strs.

Inductive argty := TString | TInt | TBool | TDur.
(* a value handed to a target body: a string verbatim, or the result of a conversion *)
Inductive value := VStr (s : string) | VConv (ty : argty) (printed : string).

Record target := { tname : string; targs : list argty; tdef : nat }.
Record info := { funcs : list target;                (* .Funcs *)
                 imports : list (list target);       (* .Imports, each .Info.Funcs *)
                 aliases : list (string * string);   (* alias |-> TargetName of the aliased function *)
                 default : option target }.          (* .DefaultFunc *)

Record callrec := { cdef : nat; cvals : list value }.
Inductive reason := Unknown | Missing | BadArg (ty : argty).
Inductive exit :=
| Done                 (* fell out of the loop / default target returned: exit status 0 *)
| Listed               (* list() printed the targets: exit status 0 *)
| Exit2 (r : reason)   (* os.Exit(2) with the diagnostic r *)
| Failed               (* handleError exited with a non-zero status (the exact status is C05's) *)
| OutOfFuel.           (* artefact of the fuel; never produced (Proof: loop_fuel_enough) *)

(* strings.ToLower, ASCII *)
Definition lower_ascii (c : ascii) : ascii :=
  let n := nat_of_ascii c in
  if ((65 <=? n) && (n <=? 90))%nat then ascii_of_nat (n + 32) else c.
Fixpoint lower (s : string) : string :=
  match s with
  | EmptyString => EmptyString
  | String c r => String (lower_ascii c) (lower r)
  end.

(* switch _strings.ToLower(target) { case "{{lower $alias}}": target = "{{$func.TargetName}}" ... }
   -- first matching case, no default *)
Fixpoint alias_switch (al : list (string * string)) (lw : string) (target : string) : string :=
  match al with
  | [] => target
  | (a, tn) :: r => if String.eqb lw (lower a) then tn else alias_switch r lw target
  end.

(* the cases of the target switch, in the order the template writes them:
   {{range .Funcs}} then {{range .Imports}}{{range .Info.Funcs}} *)
Definition switch_cases (i : info) : list target := funcs i ++ concat (imports i).

(* switch _strings.ToLower(target) { case "{{lower .TargetName}}": ... } -- first matching case *)
Fixpoint target_switch (cases : list target) (lw : string) : option target :=
  match cases with
  | [] => None
  | t :: r => if String.eqb lw (lower (tname t)) then Some t else target_switch r lw
  end.

Definition mkcall (t : target) (vs : list value) : callrec := {| cdef := tdef t; cvals := vs |}.

Section Run.
Variable conv : argty -> string -> option string.
Variable fails : nat -> list value -> bool.

(* one block of ExecCode's parseargs *)
Definition convert (ty : argty) (w : string) : option value :=
  match ty with
  | TString => Some (VStr w)                                    (* arg%d := args.Args[x] *)
  | _ => match conv ty w with Some p => Some (VConv ty p) | None => None end
  end.

(* ExecCode: for x, arg := range f.Args { argN, err := conv(args.Args[x]); if err != nil { exit 2 }; x++ }
   in declaration order, with the run-time cursor x.  Result: the values or the type of the
   first unconvertible argument, and the cursor. *)
Fixpoint parse_args (args : list string) (tys : list argty) (x : nat) : (argty + list value) * nat :=
  match tys with
  | [] => (inr [], x)
  | ty :: r =>
      match convert ty (nth x args "") with
      | None => (inl ty, x)
      | Some v =>
          match parse_args args r (S x) with
          | (inr vs, x') => (inr (v :: vs), x')
          | (inl e, x') => (inl e, x')
          end
      end
  end.

(* for x := 0; x < len(args.Args); { ... }   (fuel: at most len(args.Args) iterations) *)
Fixpoint loop (i : info) (args : list string) (fuel x : nat) : list callrec * exit :=
  if (length args <=? x)%nat then ([], Done) else
  match fuel with
  | 0 => ([], OutOfFuel)
  | S fuel' =>
      let target := nth x args "" in
      let x := S x in
      let target := alias_switch (aliases i) (lower target) target in
      match target_switch (switch_cases i) (lower target) with
      | None => ([], Exit2 Unknown)                       (* default: Unknown target specified *)
      | Some t =>
          let expected := x + length (targs t) in
          if (length args <? expected)%nat then ([], Exit2 Missing)   (* expected > len(args.Args) *)
          else
            match parse_args args (targs t) x with
            | (inl ty, _) => ([], Exit2 (BadArg ty))
            | (inr vs, x') =>
                let c := mkcall t vs in
                if fails (tdef t) vs then ([c], Failed)          (* handleError(logger, ret) exits *)
                else let (cs, e) := loop i args fuel' x' in (c :: cs, e)
            end
      end
  end.

(* ignoreDefault, _ := strconv.ParseBool(os.Getenv("MAGEFILE_IGNOREDEFAULT")) ; unset = "" *)
Definition ignore_default (envval : string) : bool :=
  match conv TBool envval with
  | Some p => String.eqb p "true"
  | None => false
  end.

(* if len(args.Args) < 1 { default / list } ; the loop *)
Definition dispatch (i : info) (ignore_env : string) (args : list string) : list callrec * exit :=
  if (length args <? 1)%nat then
    match default i with
    | Some d =>
        if ignore_default ignore_env then ([], Listed)
        else match targs d with
             | _ :: _ => ([], Exit2 Missing)               (* {{if .DefaultFunc.Args}} not enough arguments *)
             | [] => let c := mkcall d [] in
                     ([c], if fails (tdef d) [] then Failed else Done)
             end
    | None => ([], Listed)
    end
  else loop i args (length args) 0.

(* ---- the whole generated main, with what the mode flags do.
   fs.Parse(os.Args[1:]) takes the leading flags; args.Args = fs.Args() are the words.  The mode
   (how the program was started) is: os.Args[0], -v / MAGEFILE_VERBOSE, MAGEFILE_DEBUG, -t /
   MAGEFILE_TIMEOUT.  The only thing the dispatcher does with it: with Verbose it logs
   "Running target: <TargetName>" after the argument-count check and before the conversions.
   os.Args[0] is used for the usage text only, the timeout bounds the context (C12), debug is
   not read.  [loop_v] is [loop] with that logging statement transcribed too; the log is the
   second component. *)
Record mode := { m_argv0 : string; m_verbose : bool; m_debug : bool; m_timeout : option string }.

Fixpoint loop_v (verbose : bool) (i : info) (args : list string) (fuel x : nat) : (list callrec * exit) * list string :=
  if (length args <=? x)%nat then (([], Done), []) else
  match fuel with
  | 0 => (([], OutOfFuel), [])
  | S fuel' =>
      let target := nth x args "" in
      let x := S x in
      let target := alias_switch (aliases i) (lower target) target in
      match target_switch (switch_cases i) (lower target) with
      | None => (([], Exit2 Unknown), [])
      | Some t =>
          let expected := x + length (targs t) in
          if (length args <? expected)%nat then (([], Exit2 Missing), [])
          else
            let lg := if verbose then [tname t] else [] in     (* if args.Verbose { logger.Println("Running target:", ...) } *)
            match parse_args args (targs t) x with
            | (inl ty, _) => (([], Exit2 (BadArg ty)), lg)
            | (inr vs, x') =>
                let c := mkcall t vs in
                if fails (tdef t) vs then (([c], Failed), lg)
                else let '((cs, e), l) := loop_v verbose i args fuel' x' in ((c :: cs, e), lg ++ l)
            end
      end
  end.

Definition main (m : mode) (i : info) (ignore_env : string) (args : list string) : (list callrec * exit) * list string :=
  if (length args <? 1)%nat then (dispatch i ignore_env args, [])
  else loop_v (m_verbose m) i args (length args) 0.
End Run.
