(* C04, the declarative side: what the property sentence says about a command line.
   Definitions only (no proofs): name resolution, conversion in declaration order, and the
   property as a GRAMMAR [Seg] of the word list. *)
From Mage Require Import Base.Strs Model.Dispatch.

Section Spec.
Variable conv : argty -> string -> option string.
Variable fails : nat -> list value -> bool.
Variable i : info.

Definition targets : list target := funcs i ++ concat (imports i).
Definition arity (t : target) : nat := length (targs t).

(* the word w names the target t: by its name  target / namespace:target / importalias:target /
   importalias:namespace:target, or by an alias of it; letter case does not matter *)
Definition resolves (w : string) (t : target) : Prop :=
  In t targets /\
  (lower (tname t) = lower w \/
   exists a tn, In (a, tn) (aliases i) /\ lower a = lower w /\ lower tn = lower (tname t)).

(* the documented form: no two names (of targets or aliases) are equal up to letter case *)
Definition no_collision : Prop :=
  NoDup (map (fun t => lower (tname t)) targets ++ map (fun a => lower (fst a)) (aliases i)).

(* the k-th value is the k-th word converted at the k-th declared type *)
Inductive converts : list argty -> list string -> list value -> Prop :=
| cv_nil : converts [] [] []
| cv_cons ty w v tys ws vs :
    convert conv ty w = Some v -> converts tys ws vs -> converts (ty :: tys) (w :: ws) (v :: vs).

(* the first word (in declaration order) that does not convert stands at a parameter of type b;
   only the first [length tys] words are looked at *)
Inductive first_bad : list argty -> list string -> argty -> Prop :=
| fb_here ty w tys ws : convert conv ty w = None -> first_bad (ty :: tys) (w :: ws) ty
| fb_later ty w v tys ws b :
    convert conv ty w = Some v -> first_bad tys ws b -> first_bad (ty :: tys) (w :: ws) b.

(* THE PROPERTY as a grammar of the command line: words, the bodies that run with the values
   they receive (left to right, once per mention), how the run ends *)
Inductive Seg : list string -> list callrec -> exit -> Prop :=
| SegNil : Seg [] [] Done
| SegCall w args rest t vs cs e :
    resolves w t -> converts (targs t) args vs -> fails (tdef t) vs = false ->
    Seg rest cs e ->
    Seg (w :: args ++ rest) (mkcall t vs :: cs) e
| SegFail w args rest t vs :               (* a failed body: nothing after it runs *)
    resolves w t -> converts (targs t) args vs -> fails (tdef t) vs = true ->
    Seg (w :: args ++ rest) [mkcall t vs] Failed
| SegUnknown w ws :
    (forall t, ~ resolves w t) ->
    Seg (w :: ws) [] (Exit2 Unknown)
| SegMissing w ws t :
    resolves w t -> length ws < arity t ->
    Seg (w :: ws) [] (Exit2 Missing)
| SegBadArg w ws t ty :
    resolves w t -> arity t <= length ws -> first_bad (targs t) ws ty ->
    Seg (w :: ws) [] (Exit2 (BadArg ty)).

(* a command line seen as mentions: a name word followed by its argument words *)
Definition mention := (string * list string)%type.
Definition flatten (ms : list mention) : list string := concat (map (fun m => fst m :: snd m) ms).

(* a mention that runs its target's body successfully, and the call it makes *)
Inductive good : mention -> callrec -> Prop :=
| good_intro w args t vs :
    resolves w t -> converts (targs t) args vs -> fails (tdef t) vs = false ->
    good (w, args) (mkcall t vs).

(* the three ways a name word w followed by [tail] stops the run with exit status 2 *)
Inductive stops : string -> list string -> reason -> Prop :=
| stop_unknown w tail : (forall t, ~ resolves w t) -> stops w tail Unknown
| stop_missing w tail t : resolves w t -> length tail < arity t -> stops w tail Missing
| stop_badarg w tail t ty :
    resolves w t -> arity t <= length tail -> first_bad (targs t) tail ty -> stops w tail (BadArg ty).

(* same mentions up to the letter case of the name words; argument words identical *)
Definition same_up_to_name_case (ms ms' : list mention) : Prop :=
  Forall2 (fun m m' => lower (fst m) = lower (fst m') /\ snd m = snd m') ms ms'.
(* each mention has exactly as many argument words as its target declares *)
Definition well_formed (ms : list mention) : Prop :=
  Forall (fun m => exists t, resolves (fst m) t /\ length (snd m) = arity t) ms.
End Spec.
