(* Model of mage's duplicate-name checks (parse/parse.go: TargetName, ID, Package/checkDupeTargets,
   getImportFrom, setImports' ordering of the imports, setAliases' map, checkDupes, PrimaryPackage)
   and of the two switches of the generated main (mage/template.go: alias switch, then target
   switch).  Executable definitions only; proofs in Proof/Dupes_facts.v.

   A package is given by the data the parser extracted: the local targets (receiver "" = plain
   function), the mage:import'ed packages in source order (alias "" = bare tag / root import) with
   THEIR targets, and the entries of `var Aliases` in source order with the Function each one was
   resolved to (getFunction is not part of this property).  Strings are bytes; [lower] is
   strings.ToLower restricted to ASCII (identifiers and alias keys outside ASCII are not modelled).

   [fixed = true] is the CURRENT code (commit 1f96f80): checkDupes runs in PrimaryPackage after
   setAliases, lower-casing alias keys.  [fixed = false] is the code before that commit: checkDupes
   ran at the end of setImports, when info.Aliases was still nil, and compared keys verbatim. *)
From Mage Require Import Base.Strs.

(* ---------------------------------------------------------------- strings *)
Definition lower_ascii (c : ascii) : ascii :=
  let n := nat_of_ascii c in
  if Nat.leb 65 n && Nat.leb n 90 then ascii_of_nat (n + 32) else c.

Fixpoint lower (s : string) : string :=
  match s with
  | EmptyString => EmptyString
  | String c r => String (lower_ascii c) (lower r)
  end.

Definition is_empty (s : string) : bool := String.eqb s "".

(* strings.Join(l, ":") *)
Fixpoint join_colon (l : list string) : string :=
  match l with
  | [] => ""
  | [x] => x
  | x :: r => x ++ ":" ++ join_colon r
  end%string.

(* ---------------------------------------------------------------- syntax *)
(* parse.Function, the four fields the checks read *)
Record func := { f_alias : string; f_path : string; f_recv : string; f_name : string }.

Record tgt := { t_recv : string; t_name : string }.
Record import := { i_alias : string; i_path : string; i_tgts : list tgt }.
Record pkg := { locals : list tgt; imports : list import; aliases : list (string * func) }.

Definition func_eqb (a b : func) : bool :=
  String.eqb (f_alias a) (f_alias b) && String.eqb (f_path a) (f_path b) &&
  String.eqb (f_recv a) (f_recv b) && String.eqb (f_name a) (f_name b).

(* Function.TargetName: the non-empty ones of PkgAlias, Receiver, Name joined by ":" *)
Definition target_name (f : func) : string :=
  join_colon (filter (fun s => negb (is_empty s)) [f_alias f; f_recv f; f_name f]).

(* Function.ID: "<path or <current>>.[Receiver.]Name" *)
Definition fid (f : func) : string :=
  ((if is_empty (f_path f) then "<current>" else f_path f) ++ "." ++
   (if is_empty (f_recv f) then "" else f_recv f ++ ".") ++ f_name f)%string.

(* Package(): PkgAlias and ImportPath are empty; getImportFrom then sets them on every function *)
Definition local_funcs (pk : pkg) : list func :=
  map (fun t => {| f_alias := ""; f_path := ""; f_recv := t_recv t; f_name := t_name t |}) (locals pk).
Definition import_funcs (i : import) : list func :=
  map (fun t => {| f_alias := i_alias i; f_path := i_path i; f_recv := t_recv t; f_name := t_name t |}) (i_tgts i).

(* ---------------------------------------------------------------- Go maps with slice values *)
Fixpoint mm_add {V} (k : string) (v : V) (m : list (string * list V)) : list (string * list V) :=
  match m with
  | [] => [(k, [v])]
  | (k', l) :: r => if String.eqb k k' then (k', l ++ [v]) :: r else (k', l) :: mm_add k v r
  end.

Fixpoint mm_get {V} (k : string) (m : list (string * list V)) : list V :=
  match m with
  | [] => []
  | (k', l) :: r => if String.eqb k k' then l else mm_get k r
  end.

(* ---------------------------------------------------------------- errors *)
Inductive err :=
| ECase (groups : list (list string))              (* "Build targets must be case insensitive ...": the Names per clashing key *)
| EAlias (alias : string) (ids : list func)         (* "alias %q duplicates existing target(s): ids" *)
| EMulti (groups : list (string * list func)).      (* "%q target has multiple definitions: ids" per key *)

(* ---------------------------------------------------------------- checkDupeTargets / Package *)
Definition low_of (f : func) : string :=
  let low := lower (f_name f) in
  if is_empty (f_recv f) then low else (lower (f_recv f) ++ ":" ++ low)%string.

Definition set_mem (k : string) (s : list string) : bool := existsb (String.eqb k) s.

(* the loop of checkDupeTargets: state = (hasDupes, lowers, names) *)
Definition cdt_step (st : bool * list string * list (string * list string)) (f : func) :=
  let '(has, lowers, names) := st in
  let low := low_of f in
  let has' := if set_mem low lowers then true else has in
  (has', low :: lowers, mm_add low (f_name f) names).

Definition check_dupe_targets (fs : list func) : bool * list (string * list string) :=
  let '(has, _, names) := fold_left cdt_step fs (false, [], []) in (has, names).

(* the tail of Package(): the message lists every names[v] with more than one element *)
Definition package_check (fs : list func) : option err :=
  let '(has, names) := check_dupe_targets fs in
  if has then Some (ECase (map snd (filter (fun kv => Nat.ltb 1 (length (snd kv))) names))) else None.

(* ---------------------------------------------------------------- setImports: order of the imports *)
(* getNamedImports: aliased imports in sorted order; then the root imports in source order *)
Fixpoint insert_by {A} (ltb : A -> A -> bool) (x : A) (l : list A) : list A :=
  match l with
  | [] => [x]
  | y :: r => if ltb y x then y :: insert_by ltb x r else x :: y :: r
  end.
Definition isort {A} (ltb : A -> A -> bool) (l : list A) : list A := fold_right (insert_by ltb) [] l.

Definition named (i : import) : bool := negb (is_empty (i_alias i)).

(* setImports collects the aliased imports in a map keyed by (path, alias) (commit 5f65f03: one package
   may be imported under several aliases): writing the same pair twice is one import.  The bare-tag
   imports are appended to a slice unless the path is already there (commit 4a102aa; before it, one
   entry per occurrence: [root_imports_before_4a102aa]). *)
Definition same_import (a b : import) : bool :=
  String.eqb (i_path a) (i_path b) && String.eqb (i_alias a) (i_alias b).
Definition dedup_imports (l : list import) : list import :=
  fold_left (fun acc x => if existsb (same_import x) acc then acc else acc ++ [x]) l [].
Definition named_imports (pk : pkg) : list import := dedup_imports (filter named (imports pk)).
Definition root_imports_before_4a102aa (pk : pkg) : list import := filter (fun i => negb (named i)) (imports pk).
(* all of them have the alias "": [same_import] compares the paths; the first occurrence stays *)
Definition root_imports (pk : pkg) : list import := dedup_imports (root_imports_before_4a102aa pk).

(* getNamedImports visits the pairs sorted by path, then alias *)
Definition import_ltb (a b : import) : bool :=
  if String.eqb (i_path a) (i_path b) then String.ltb (i_alias a) (i_alias b) else String.ltb (i_path a) (i_path b).
Definition ordered_imports (pk : pkg) : list import :=
  isort import_ltb (named_imports pk) ++ root_imports pk.
Definition ordered_imports_before_4a102aa (pk : pkg) : list import :=
  isort import_ltb (named_imports pk) ++ root_imports_before_4a102aa pk.

(* every import goes through Package(): the first package with an internal clash ends the parse *)
Fixpoint first_err {A} (f : A -> option err) (l : list A) : option err :=
  match l with
  | [] => None
  | x :: r => match f x with Some e => Some e | None => first_err f r end
  end.

(* ---------------------------------------------------------------- setAliases: map[string]*Function *)
(* the map, kept in sorted key order (checkDupes sorts the keys, text/template ranges over maps in key order);
   a repeated key overwrites *)
Fixpoint amap_set (k : string) (f : func) (m : list (string * func)) : list (string * func) :=
  match m with
  | [] => [(k, f)]
  | (k', f') :: r =>
      if String.eqb k k' then (k, f) :: r
      else if String.ltb k k' then (k, f) :: (k', f') :: r
      else (k', f') :: amap_set k f r
  end.
Definition alias_map (l : list (string * func)) : list (string * func) :=
  fold_left (fun m kf => amap_set (fst kf) (snd kf) m) l [].

(* ---------------------------------------------------------------- checkDupes *)
Definition cd_build (fs : list func) (m : list (string * list func)) : list (string * list func) :=
  fold_left (fun m f => mm_add (lower (target_name f)) f m) fs m.

Fixpoint cd_aliases (fixed : bool) (al : list (string * func)) (m : list (string * list func))
  : err + list (string * list func) :=
  match al with
  | [] => inr m
  | (name, f) :: r =>
      let alias := if fixed then lower name else name in
      match mm_get alias m with
      | [] => cd_aliases fixed r (mm_add alias f m)
      | ids => inl (EAlias alias ids)
      end
  end.

Definition cd_dupes (m : list (string * list func)) : list (string * list func) :=
  filter (fun kl => Nat.ltb 1 (length (snd kl))) m.

Definition check_dupes (fixed : bool) (info_funcs : list func) (imps : list import) (amap : list (string * func)) : option err :=
  let m0 := cd_build info_funcs [] in
  let m1 := fold_left (fun m imp => cd_build (import_funcs imp) m) imps m0 in
  match cd_aliases fixed amap m1 with
  | inl e => Some e
  | inr m2 => match cd_dupes m2 with [] => None | d => Some (EMulti d) end
  end.

(* ---------------------------------------------------------------- PrimaryPackage *)
Definition or_else (a b : option err) : option err := match a with Some e => Some e | None => b end.

Definition mage_check_with (imps : list import) (fixed : bool) (pk : pkg) : option err :=
  (* Package(path, files) *)
  or_else (package_check (local_funcs pk))
  (* setImports: getImportFrom -> Package for each; before the repair checkDupes ran here, info.Aliases still nil *)
  (or_else (first_err (fun i => package_check (import_funcs i)) imps)
  (if fixed
   then (* setDefault; setAliases; checkDupes *)
        check_dupes true (local_funcs pk) imps (alias_map (aliases pk))
   else check_dupes false (local_funcs pk) imps [])).

Definition mage_check (fixed : bool) (pk : pkg) : option err := mage_check_with (ordered_imports pk) fixed pk.
(* the current checks over the imports as collected before commit 4a102aa (a bare import per spec) *)
Definition mage_check_before_4a102aa (pk : pkg) : option err := mage_check_with (ordered_imports_before_4a102aa pk) true pk.

Definition mage_accepts (pk : pkg) : bool :=
  match mage_check true pk with None => true | Some _ => false end.

(* what the message names: per reported group the alias (lower-cased, as printed) if it is the alias
   message, and the Function.Names of the definitions listed *)
Definition report (e : err) : list (option string * list string) :=
  match e with
  | ECase gs => map (fun g => (None, g)) gs
  | EAlias a ids => [(Some a, map f_name ids)]
  | EMulti gs => map (fun g => (None, map f_name (snd g))) gs
  end.

Definition error_names (pk : pkg) : list (option string * list string) :=
  match mage_check true pk with None => [] | Some e => report e end.

(* ---------------------------------------------------------------- the generated dispatcher *)
(* all targets in the order of the second switch: .Funcs, then .Imports (the order only matters
   between equal case labels, which Go rejects and C07_no_shadowing excludes) *)
Definition all_funcs (pk : pkg) : list func :=
  local_funcs pk ++ flat_map import_funcs (ordered_imports pk).

(* switch strings.ToLower(target) { case "{{lower $alias}}": target = "{{$func.TargetName}}" } *)
Definition alias_switch (amap : list (string * func)) (w : string) : string :=
  match find (fun kf => String.eqb (lower (fst kf)) (lower w)) amap with
  | Some (_, f) => target_name f
  | None => w
  end.

(* switch strings.ToLower(target) { case "{{lower .TargetName}}": run it ... default: unknown } *)
Definition target_switch (fs : list func) (t : string) : option func :=
  find (fun f => String.eqb (lower (target_name f)) (lower t)) fs.

Definition resolve (pk : pkg) (w : string) : option func :=
  target_switch (all_funcs pk) (alias_switch (alias_map (aliases pk)) w).

(* ---------------------------------------------------------------- the property's vocabulary *)
(* every name one can type: targets, namespace targets, imported targets (source order) and alias keys *)
(* the imports of the package: each (path, alias) pair once, each bare-tag path once *)
Definition effective_imports (pk : pkg) : list import := named_imports pk ++ root_imports pk.
Definition src_funcs (pk : pkg) : list func := local_funcs pk ++ flat_map import_funcs (effective_imports pk).
Definition alias_keys (pk : pkg) : list string := map fst (alias_map (aliases pk)).
Definition runnable_names (pk : pkg) : list string := map target_name (src_funcs pk) ++ alias_keys pk.

(* Go identifiers are not empty *)
Definition wf_pkg (pk : pkg) : Prop := forall f, In f (src_funcs pk) -> f_name f <> "".
