(* What internal/run.go's SplitEnv / joinEnv / EnvWithGOOS compute, written over the Go-map vocabulary of
   Base/GoLib.v.  Definitions only.  These are NOT a second hand model of the code: on every run the
   functions are translated from the source (harness/extract) and proved equal to these (lib/extractlib.py,
   items SplitEnv / joinEnv / EnvWithGOOS); Proof/EnvSpec_facts.v relates them to C11's environment model
   (Model/Flags.v: lookup = last entry wins, dedup_env = what os/exec keeps) and to C10's hand model of the
   same functions (Model/Constraints.v: splitEnv, joinEnv, envWithGOOS). *)
From Mage Require Import Base.Strs Base.GoLib.

Definition eq_byte : ascii := "="%char.

(* "k=v" *)
Definition join_kv (kv : string * string) : string := (fst kv ++ "=" ++ snd kv)%string.

(* an entry SplitEnv accepts: it contains a '=' *)
Definition well_formed (s : string) : bool := has_char eq_byte s.

(* the loop of SplitEnv: out[name] = value for every entry, cut at the FIRST '='; None = the error return *)
Fixpoint env_split (env : list string) (out : gomap string) : option (gomap string) :=
  match env with
  | [] => Some out
  | s :: r => match split_first eq_byte s with
              | None => None
              | Some (k, v) => env_split r (map_set out k v)
              end
  end.

(* the (name, value) pairs of the well-formed entries, in order: an environment as Model/Flags.v reads it *)
Definition env_pairs (env : list string) : list (string * string) :=
  flat_map (fun s => match split_first eq_byte s with Some p => [p] | None => [] end) env.

(* the two assignments of EnvWithGOOS (EnvWithCurrentGOOS: goos = goarch = "") *)
Definition goos_env (m : gomap string) (rt_goos rt_goarch goos goarch : string) : gomap string :=
  map_set (map_set m "GOOS" (if String.eqb goos "" then rt_goos else goos))
          "GOARCH" (if String.eqb goarch "" then rt_goarch else goarch).

Fixpoint no_eq_byte (k : string) : bool :=
  match k with EmptyString => true | String a r => negb (Ascii.eqb a eq_byte) && no_eq_byte r end.
