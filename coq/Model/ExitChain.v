(* Model of the exit-status chain (C05):
     target/dependency body -> mg.Deps (runDeps: changeExit) -> runTarget -> handleError -> os.Exit n
       -> kernel (n mod 256) -> RunCompiled: sh.ExitStatus(err) -> Invoke -> ParseAndRun -> os.Exit -> kernel.
   Transcribed from  mage/template.go:89-97 (flag parse of the generated main), 282-324 (runTarget),
   329-341 (handleError), 355-483 (-l / -h / default / the target loop);  mage/main.go:136-178 (ParseAndRun),
   182-311 (Parse), 314-458 (Invoke), 728-772 (RunCompiled);  mg/errors.go (Fatal, ExitStatus);
   sh/cmd.go:113-198 (Exec, CmdRan, ExitStatus);  mg/deps.go:55-71, 94-127, 165-178 (SerialDeps, runDeps, changeExit —
   changeExit itself is Model/Deps.changeExit).
   Executable definitions only.  Exit codes are Z; what the kernel hands to the parent of a process that called
   exit(n) is n mod 256, written explicitly ([kernel]).  What a body does (its failure kind), whether a flag set
   parses, whether the go tool can list/parse/compile are inputs of the model: the harness supplies their actual
   values per case. *)
From Mage Require Import Base.Strs Model.Deps.
Local Open Scope Z_scope.

(* ------------------------------------------------------------------ the operating system *)
Definition kernel (n : Z) : Z := n mod 256.

(* what os/exec's c.Run() can report about a child process *)
Inductive child :=
| CExit (n : Z)      (* the child ran and called exit(n) (or returned from main: n = 0) *)
| CSignaled          (* the child was terminated by a signal *)
| CNotStarted.       (* fork/exec failed: no such file, not executable, exec format error *)

(* c.Run() returned a nil error *)
Definition run_err_nil (c : child) : bool :=
  match c with CExit n => kernel n =? 0 | _ => false end.

(* sh/cmd.go:164-175  CmdRan(err) *)
Definition sh_CmdRan (c : child) : bool :=
  if run_err_nil c then true
  else match c with
       | CExit _ => true          (* *exec.ExitError, ee.Exited() *)
       | CSignaled => false       (* *exec.ExitError, not Exited() *)
       | CNotStarted => false     (* some other error *)
       end.

(* sh/cmd.go:183-198  ExitStatus(err) of the error of c.Run() *)
Definition sh_ExitStatus (c : child) : Z :=
  if run_err_nil c then 0
  else match c with
       | CExit n => kernel n      (* ExitError: e.Sys().(exitStatus).ExitStatus() *)
       | CSignaled => -1          (* syscall.WaitStatus.ExitStatus() of a signaled process *)
       | CNotStarted => 1
       end.

(* ------------------------------------------------------------------ values that travel as errors *)
Inductive value :=
| VNil                (* nil *)
| VPlain              (* an error value without a method ExitStatus() of its own: errors.New, fmt.Errorf - also with %w
                         around an mg.Fatal error: the type assertions of handleError / mg.ExitStatus / sh.ExitStatus do
                         not look through wrappers -, types with Unwrap() returning nil or []error, a typed nil pointer *)
| VFatal (c : Z)      (* an error value whose own ExitStatus() returns c: mg.Fatal(c, ..) / mg.Fatalf(c, ..), any c in Z *)
| VOther.             (* a panic value that is not an error (string, int, ...) *)

Definition is_nil (v : value) : bool := match v with VNil => true | _ => false end.
Definition is_error (v : value) : bool := match v with VPlain | VFatal _ => true | _ => false end.

(* mg/errors.go:41-51  ExitStatus(err error) *)
Definition mg_ExitStatus (v : value) : Z :=
  match v with
  | VNil => 0
  | VFatal c => c
  | _ => 1
  end.

(* sh/cmd.go:113-136  Exec (the error result of sh.Run / sh.RunV / sh.RunWith) *)
Definition sh_Run (c : child) : value :=
  if run_err_nil c then VNil
  else if sh_CmdRan c then VFatal (sh_ExitStatus c)     (* mg.Fatalf(code, `running ... failed with exit code %d`) *)
  else VPlain.                                          (* fmt.Errorf(`failed to run ...`) *)

(* the command ran (and exited 0) but the error of c.Run() is neither nil nor an *exec.ExitError (the copy of the child's
   output into a non-file io.Writer failed): sh.CmdRan(err) = false (cmd.go:173 "return false"), sh.ExitStatus(err) = 1
   (cmd.go:197), so Exec returns fmt.Errorf(`failed to run ...`) - a plain error, exactly as for a command that
   could not be started *)
Definition sh_Run_other : value := VPlain.

(* ------------------------------------------------------------------ what a function body does *)
Inductive body :=
| BOk                                   (* return nil *)
| BErr                                  (* return errors.New(..) *)
| BFatal (c : Z)                        (* return mg.Fatal(c, ..) or mg.Fatalf(c, ..) *)
| BPanicErr                             (* panic(errors.New(..)) *)
| BPanicFatal (c : Z)                   (* panic(mg.Fatal(c, ..)) *)
| BPanicVal                             (* panic("..") / panic(42) *)
| BSh (c : child)                       (* return sh.Run(cmd) / RunV / RunWith / Output / Exec ... where cmd behaves as c *)
| BShCopyErr                            (* return sh.Exec(env, w, w', cmd): the child exits 0 but copying its output into the
                                           caller's io.Writer fails - c.Run() returns an error that is not an *exec.ExitError *)
| BOsExit (c : Z)                       (* os.Exit(c) *)
| BDeps (ser : bool) (ds : list body).  (* mg.Deps(ds..) / mg.CtxDeps (ser = false), mg.SerialDeps(ds..) (ser = true); return nil *)

Inductive bres :=
| Returned (v : value)
| Panicked (v : value)
| Exited (c : Z).                       (* the process is gone: os.Exit(c) was called *)

(* mg/deps.go:102-119: what one goroutine of runDeps adds to (exit, errs).  Every failing member is recorded: the
   message text plays no role (two members failing with the same text are two failures), so it is not in the model;
   the harness runs dependency sets whose members fail with identical texts against it. *)
Record acc := { a_exit : Z; a_nerrs : nat }.

Definition dep_report (a : acc) (r : bres) : acc :=
  match r with
  | Panicked v =>                                      (* if v := recover(); v != nil *)
      if is_nil v then a
      else {| a_exit := changeExit (a_exit a) (if is_error v then mg_ExitStatus v else 1);
              a_nerrs := S (a_nerrs a) |}
  | Returned v =>                                      (* if err := fn.run(ctx); err != nil *)
      if is_nil v then a
      else {| a_exit := changeExit (a_exit a) (mg_ExitStatus v); a_nerrs := S (a_nerrs a) |}
  | Exited _ => a                                      (* never reports *)
  end.

Fixpoint first_exit (rs : list bres) : option Z :=
  match rs with
  | [] => None
  | Exited c :: _ => Some c
  | _ :: r => first_exit r
  end.

(* mg/deps.go:94-127  runDeps; rs = the members' results in the order in which the goroutines report.
   A member that calls os.Exit ends the process while wg.Wait() is still blocked. *)
Definition runDeps (rs : list bres) : bres :=
  match first_exit rs with
  | Some c => Exited c
  | None =>
      let a := fold_left dep_report rs {| a_exit := 0; a_nerrs := 0 |} in
      if Nat.ltb 0 (a_nerrs a) then Panicked (VFatal (a_exit a))   (* panic(Fatal(exit, strings.Join(errs, "\n"))) *)
      else Returned VNil
  end.

(* mg/deps.go:55-71  SerialDeps / SerialCtxDeps: for i := range fns { runDeps(ctx, funcs[i:i+1]) } *)
Fixpoint serialDeps (rs : list bres) : bres :=
  match rs with
  | [] => Returned VNil
  | r :: rest =>
      match runDeps [r] with
      | Returned _ => serialDeps rest
      | other => other                                  (* the panic propagates, the rest is never started *)
      end
  end.

Fixpoint run_body (b : body) : bres :=
  match b with
  | BOk => Returned VNil
  | BErr => Returned VPlain
  | BFatal c => Returned (VFatal c)
  | BPanicErr => Panicked VPlain
  | BPanicFatal c => Panicked (VFatal c)
  | BPanicVal => Panicked VOther
  | BSh c => Returned (sh_Run c)
  | BShCopyErr => Returned sh_Run_other
  | BOsExit c => Exited c
  | BDeps ser ds =>
      let rs := map run_body ds in
      if ser then serialDeps rs else runDeps rs
  end.

(* ------------------------------------------------------------------ the generated main program *)

(* how the program stops: os.Exit(n) or return from main;  how many requested target bodies were started;
   whether the generated main itself wrote a diagnostic to stderr (logger = log.New(os.Stderr, ..)) *)
Record halt := { h_exit : option Z; h_ran : nat; h_msg : bool }.

Definition halt_status (h : halt) : Z :=
  match h_exit h with None => kernel 0 | Some n => kernel n end.

(* template.go:329-341  handleError: Some n = os.Exit(n), None = goes on *)
Definition handleError (v : value) : option Z :=
  match v with
  | VNil => None
  | VFatal c => Some c          (* if c, ok := err.(code); ok { os.Exit(c.ExitStatus()) } *)
  | VPlain => Some 1
  | VOther => Some 1
  end.

(* one target mention on the command line: the word and the argument words it consumes *)
Inductive mention :=
| MRun (b : body)     (* a known target with enough, convertible arguments whose body does b *)
| MUnknown            (* default: of the switch *)
| MMissing            (* expected > len(args.Args) *)
| MBadArg.            (* strconv.Atoi / ParseBool / time.ParseDuration failed *)

(* template.go:412-483  for x := 0; x < len(args.Args); { ... } *)
Fixpoint run_mentions (ms : list mention) : halt :=
  match ms with
  | [] => {| h_exit := None; h_ran := 0; h_msg := false |}
  | MUnknown :: _ => {| h_exit := Some 2; h_ran := 0; h_msg := true |}
  | MMissing :: _ => {| h_exit := Some 2; h_ran := 0; h_msg := true |}
  | MBadArg :: _ => {| h_exit := Some 2; h_ran := 0; h_msg := true |}
  | MRun b :: rest =>
      (* template.go:282-324 runTarget hands back whatever the target's goroutine returned or recovered
         (no SIGINT, no timeout here: C12); then handleError *)
      match run_body b with
      | Exited c => {| h_exit := Some c; h_ran := 1; h_msg := false |}
      | Returned v | Panicked v =>
          match handleError v with
          | Some n => {| h_exit := Some n; h_ran := 1; h_msg := true |}
          | None => let h := run_mentions rest in
                    {| h_exit := h_exit h; h_ran := S (h_ran h); h_msg := h_msg h |}
          end
      end
  end.

Inductive flagparse :=
| FlagsOk
| FlagsErrHelp        (* fs.Parse returned flag.ErrHelp (-help / --help: not a defined flag) *)
| FlagsBad.           (* undefined flag, invalid value, missing value *)

Inductive dflt := NoDefault | DefaultArgs | DefaultBody (b : body).

Record cprog := {
  cp_flags : flagparse;
  cp_list : bool;             (* -l or MAGEFILE_LIST *)
  cp_help : bool;             (* -h or MAGEFILE_HELP *)
  cp_list_err : bool;         (* list() returns an error (stdout cannot be written) *)
  cp_default : dflt;
  cp_ignore_default : bool;   (* MAGEFILE_IGNOREDEFAULT *)
  cp_mentions : list mention
}.

Definition ret : halt := {| h_exit := None; h_ran := 0; h_msg := false |}.
Definition die (n : Z) (msg : bool) : halt := {| h_exit := Some n; h_ran := 0; h_msg := msg |}.

(* the listing at the end of the no-argument branch: logger.Println("Error:", err); os.Exit(1) *)
Definition list_or_die (cp : cprog) : halt := if cp_list_err cp then die 1 true else ret.

(* the generated main().  fixed = false is the program before commit 0cc1688 (flag parse failure: plain return);
   reports = false is the program before commit 836d65c (the flag error only on stdout, a failing -l listing only on
   the standard logger, which is discarded unless -v: nothing on stderr in either case). *)
Definition compiled_main_gen (fixed reports : bool) (cp : cprog) : halt :=
  match cp_flags cp with
  | FlagsErrHelp => ret                                       (* template.go:91-93 *)
  | FlagsBad => if fixed then die 2 reports else ret          (* :94-96 Fprintln(os.Stderr, "Error:", err); os.Exit(2) *)
  | FlagsOk =>
      if cp_help cp && match cp_mentions cp with [] => true | _ => false end then ret     (* :99-102 fs.Usage() *)
      else if cp_list cp then
        (if cp_list_err cp then die 1 reports else ret)       (* :360-365 logger.Println("Error:", err); os.Exit(1) *)
      else if cp_help cp then
        match cp_mentions cp with
        | [] => die 2 true                                    (* "no target specified" *)
        | MUnknown :: _ => die 2 true                         (* Unknown target: %q *)
        | _ :: _ => ret
        end
      else
        match cp_mentions cp with
        | [] =>
            match cp_default cp with
            | NoDefault => list_or_die cp
            | DefaultArgs => if cp_ignore_default cp then list_or_die cp else die 2 true
            | DefaultBody b => if cp_ignore_default cp then list_or_die cp else run_mentions [MRun b]
            end
        | ms => run_mentions ms
        end
  end.

(* the current tree *)
Definition compiled_main (fixed : bool) (cp : cprog) : halt := compiled_main_gen fixed true cp.

Definition compiled_exit (fixed : bool) (cp : cprog) : Z := halt_status (compiled_main fixed cp).

(* the compiled program seen as a child process *)
Definition child_of (fixed : bool) (cp : cprog) : child :=
  CExit (match h_exit (compiled_main fixed cp) with None => 0 | Some n => n end).

(* ------------------------------------------------------------------ the mage front end *)
Record fargs := {
  fa_parse : flagparse;       (* result of fs.Parse(args); its error is kept in the named result err and returned at the end,
                                 whatever options were parsed before it (-w, -d, -v, -t, -gocmd, -f, -keep ... do not reset it) *)
  fa_help : bool; fa_init : bool; fa_compile : bool (* -compile <non-empty> *); fa_version : bool; fa_clean : bool;
  fa_goosarch : bool;         (* -goos or -goarch given non-empty *)
  fa_force : bool;            (* -f *)
  fa_hashfast : bool;         (* MAGEFILE_HASHFAST *)
  fa_nargs : nat              (* len(fs.Args()) *)
}.

Inductive command := CmdNone | CmdVersion | CmdInit | CmdClean | CmdCompileStatic.
Inductive perr := PNoErr | PErrHelp | PErr.

Definition is_none (c : command) : bool := match c with CmdNone => true | _ => false end.
Definition is_compile (c : command) : bool := match c with CmdCompileStatic => true | _ => false end.
Definition is_clean (c : command) : bool := match c with CmdClean => true | _ => false end.

(* main.go:182-311  Parse *)
Definition Parse (a : fargs) : command * perr :=
  match fa_parse a with
  | FlagsErrHelp => (CmdNone, PErrHelp)
  | p =>
      let parse_ok := match p with FlagsOk => true | _ => false end in
      if parse_ok && fa_help a && Nat.eqb (fa_nargs a) 0 then (CmdNone, PErrHelp)      (* fs.Usage() *)
      else
        let cmd := if fa_init a then CmdInit
                   else if fa_compile a then CmdCompileStatic
                   else if fa_version a then CmdVersion
                   else if fa_clean a then CmdClean
                   else CmdNone in
        if is_clean cmd && Nat.ltb 0 (fa_nargs a) then (cmd, PErr)
        else
          let numCommands := ((if is_none cmd then 0 else 1) + (if fa_help a then 1 else 0))%nat in
          if Nat.ltb 1 numCommands then (cmd, PErr)
          else if negb (is_compile cmd) && fa_goosarch a then (cmd, PErr)
          else if fa_help a && Nat.ltb 1 (fa_nargs a) then (cmd, PErr)
          else if Nat.ltb 0 (fa_nargs a) && negb (is_none cmd) then (cmd, PErr)
          else (cmd, if parse_ok then PNoErr else PErr)
  end.

(* what the go tool and the file system say while Invoke prepares the binary *)
Record build := {
  bd_list_err : bool;       (* Magefiles(..) fails *)
  bd_nofiles : bool;        (* no file carries the mage tag *)
  bd_exename_err : bool;    (* ExeName fails *)
  bd_goenv_err : bool;      (* `go env GOCACHE` fails *)
  bd_gocache : bool;        (* it printed a non-empty path *)
  bd_exe_exists : bool;     (* os.Stat(exePath) == nil *)
  bd_parse_err : bool;      (* parse.PrimaryPackage fails (syntax error, duplicate targets, bad import) *)
  bd_generate_err : bool;   (* GenerateMainfile fails *)
  bd_compile_err : bool     (* go build fails *)
}.

(* result of the front end before os.Exit: the int, whether the compiled program was run, whether the front end
   itself wrote a diagnostic to stderr *)
Record fres := { f_code : Z; f_child : bool; f_msg : bool }.
Definition fdone (n : Z) (msg : bool) : fres := {| f_code := n; f_child := false; f_msg := msg |}.

(* main.go:728-772  RunCompiled *)
Definition RunCompiled (ch : child) : fres :=
  {| f_code := sh_ExitStatus ch;
     f_child := match ch with CNotStarted => false | _ => true end;
     f_msg := negb (sh_CmdRan ch) |}.                     (* errlog.Printf("failed to run compiled magefile: %v") *)

(* main.go:314-458  Invoke;  force = inv.Force (set by Parse for -compile), compile = inv.CompileOut != "" *)
Definition Invoke (a : fargs) (bd : build) (ch : child) : fres :=
  let compile := fa_compile a && negb (fa_init a) in
  let force := fa_force a || compile in
  if bd_list_err bd then fdone 1 true
  else if bd_nofiles bd then fdone 1 true
  else if negb compile && bd_exename_err bd then fdone 1 true
  else if negb (fa_hashfast a) && bd_goenv_err bd then fdone 1 true
  else
    let useCache := negb (fa_hashfast a) && bd_gocache bd in
    if negb useCache && bd_exe_exists bd && negb force then RunCompiled ch
    else if bd_parse_err bd then fdone 1 true
    else if bd_generate_err bd then fdone 1 true
    else if bd_compile_err bd then fdone 1 true
    else if compile then fdone 0 false
    else RunCompiled ch.

(* main.go:136-178  ParseAndRun.  clean_reports = false is the front end before commit 158c196: a failing -clean was
   reported with out.Println, i.e. on stdout only; now errlog.Println (stderr). *)
Definition ParseAndRun_gen (clean_reports : bool) (a : fargs) (init_err clean_err : bool) (bd : build) (ch : child) : fres :=
  match Parse a with
  | (_, PErrHelp) => fdone 0 false
  | (_, PErr) => fdone 2 true
  | (CmdVersion, PNoErr) => fdone 0 false
  | (CmdInit, PNoErr) => if init_err then fdone 1 true else fdone 0 false
  | (CmdClean, PNoErr) => if clean_err then fdone 1 clean_reports else fdone 0 false
  | (CmdCompileStatic, PNoErr) => Invoke a bd ch
  | (CmdNone, PNoErr) => Invoke a bd ch
  end.

(* the current tree *)
Definition ParseAndRun := ParseAndRun_gen true.

(* main.go (package main): os.Exit(mage.Main()) *)
Definition mage_exit (a : fargs) (init_err clean_err : bool) (bd : build) (ch : child) : Z :=
  kernel (f_code (ParseAndRun a init_err clean_err bd ch)).

(* one whole invocation of `mage`: the command line, the environment's answers, the program the magefiles compile to *)
Record scenario := {
  sc_args : fargs; sc_init_err : bool; sc_clean_err : bool; sc_build : build;
  sc_start : bool;            (* the compiled binary can be started *)
  sc_prog : cprog
}.

Definition sc_child (fixed : bool) (sc : scenario) : child :=
  if sc_start sc then child_of fixed (sc_prog sc) else CNotStarted.

Definition mage_run (fixed : bool) (sc : scenario) : fres :=
  ParseAndRun (sc_args sc) (sc_init_err sc) (sc_clean_err sc) (sc_build sc) (sc_child fixed sc).

Definition mage_status (fixed : bool) (sc : scenario) : Z := kernel (f_code (mage_run fixed sc)).
