(* Go's flag package as mage uses it, and strconv.ParseBool.  Executable definitions only.

   [cl_parse spec words] transcribes flag.FlagSet.Parse / parseOne (Go 1.23 src/flag/flag.go:1145-1230) with
   ErrorHandling = ContinueOnError - what the zero-value flag.FlagSet{} of mage/main.go:184 and mage/template.go:66
   has - over mage's two flag sets [front_spec] (main.go:189-212) and [gen_spec] (template.go:70-73).
   time.ParseDuration is a parameter ([parse_dur]); strings are taken verbatim.
   It is a hand transcription of standard-library code: checks/c11.py compares it on every run with a real
   flag.FlagSet carrying the same 17 / 4 definitions (harness/c11conv), on generated word lists. *)
From Mage Require Import Base.Strs.

(* strconv.ParseBool *)
Definition in_strs (s : string) (l : list string) : bool := existsb (String.eqb s) l.
Definition parse_bool (s : string) : option bool :=
  if in_strs s ["1"; "t"; "T"; "true"; "TRUE"; "True"] then Some true
  else if in_strs s ["0"; "f"; "F"; "false"; "FALSE"; "False"] then Some false
  else None.

(* ================================================================== the flag package *)
Inductive kind := KBool | KDur | KStr.
Inductive fval := VB (b : bool) | VD (d : Z) | VS (s : string).
Definition spec := list (string * kind).
Definition assigns := list (string * fval).

Fixpoint kind_of (sp : spec) (n : string) : option kind :=
  match sp with
  | [] => None
  | (n', k) :: r => if String.eqb n n' then Some k else kind_of r n
  end.

Definition is_dash (c : ascii) : bool := Ascii.eqb c "-"%char.
Definition is_eq (c : ascii) : bool := Ascii.eqb c "="%char.

(* for i := 1; i < len(name); i++ { if name[i] == '=' { value = name[i+1:]; name = name[0:i] } }  (the tail of name) *)
Fixpoint cut_eq (s : string) : string * option string :=
  match s with
  | EmptyString => (EmptyString, None)
  | String c r => if is_eq c then (EmptyString, Some r)
                  else let (a, v) := cut_eq r in (String c a, v)
  end.

Inductive wclass :=
| WNonFlag                                   (* len(s) < 2 || s[0] != '-'  : parsing stops, the word stays *)
| WTerminator                                (* "--" : parsing stops, the word is consumed *)
| WBadSyntax                                 (* "-=x", "---x", "--=x" *)
| WFlag (name : string) (value : option string).

Definition classify (s : string) : wclass :=
  match s with
  | String c0 (String c1 r) =>
      if negb (is_dash c0) then WNonFlag
      else if is_dash c1 && String.eqb r "" then WTerminator
      else
        let name := if is_dash c1 then r else String c1 r in
        match name with
        | EmptyString => WBadSyntax
        | String n0 nr =>
            if is_dash n0 || is_eq n0 then WBadSyntax
            else let (a, v) := cut_eq nr in WFlag (String n0 a) v
        end
  | _ => WNonFlag
  end.

Inductive pres :=
| POk (a : assigns) (rest : list string)     (* fs.Parse returned nil; rest = fs.Args() *)
| PHelp                                      (* flag.ErrHelp: -help / --help where no such flag is defined *)
| PBad (a : assigns).                        (* any other error; a = what had been set before it *)

Section Ext.
Variable parse_dur : string -> option Z.       (* time.ParseDuration *)

(* Value.Set of the three kinds of flag value *)
Definition set_value (k : kind) (v : string) : option fval :=
  match k with
  | KBool => option_map VB (parse_bool v)
  | KDur => option_map VD (parse_dur v)
  | KStr => Some (VS v)
  end.

(* a Set that fails: boolValue.Set / durationValue.Set store the zero value all the same (`*b = boolValue(v)` with the
   v of the failed conversion), but the flag is not entered into f.actual: it shows (fs.Visit) only if it had been set
   before.  Nothing in mage looks at the values after an error; kept so that the transcription is exact. *)
Definition assigned (n : string) (a : assigns) : bool := existsb (fun nv => String.eqb n (fst nv)) a.
Definition zero_of (k : kind) : fval := match k with KBool => VB false | KDur => VD 0%Z | KStr => VS "" end.
Definition fail_set (a : assigns) (n : string) (k : kind) : assigns :=
  match k with
  | KStr => a
  | _ => if assigned n a then a ++ [(n, zero_of k)] else a
  end.

(* Parse: for { seen, err := f.parseOne(); if seen { continue }; if err == nil { break }; return err }.
   [pend] = a non-boolean flag that was given without "=value" and takes the next word. *)
Fixpoint parse_from (sp : spec) (args : list string) (pend : option (string * kind)) (acc : assigns) : pres :=
  match args with
  | [] => match pend with
          | Some _ => PBad acc                                     (* flag needs an argument *)
          | None => POk acc []
          end
  | s :: tl =>
      match pend with
      | Some (n, k) =>
          match set_value k s with
          | Some fv => parse_from sp tl None (acc ++ [(n, fv)])
          | None => PBad (fail_set acc n k)                        (* invalid value %q for flag -%s *)
          end
      | None =>
          match classify s with
          | WNonFlag => POk acc args
          | WTerminator => POk acc tl
          | WBadSyntax => PBad acc                                 (* bad flag syntax *)
          | WFlag n hv =>
              match kind_of sp n with
              | None => if String.eqb n "help" || String.eqb n "h" then PHelp
                        else PBad acc                              (* flag provided but not defined *)
              | Some KBool =>
                  match hv with
                  | Some v => match parse_bool v with
                              | Some b => parse_from sp tl None (acc ++ [(n, VB b)])
                              | None => PBad (fail_set acc n KBool) (* invalid boolean value *)
                              end
                  | None => parse_from sp tl None (acc ++ [(n, VB true)])
                  end
              | Some k =>
                  match hv with
                  | Some v => match set_value k v with
                              | Some fv => parse_from sp tl None (acc ++ [(n, fv)])
                              | None => PBad (fail_set acc n k)
                              end
                  | None => parse_from sp tl (Some (n, k)) acc
                  end
              end
          end
      end
  end.

Definition cl_parse (sp : spec) (words : list string) : pres := parse_from sp words None [].

(* main.go:189-212 *)
Definition front_spec : spec :=
  [("f", KBool); ("debug", KBool); ("v", KBool); ("h", KBool); ("t", KDur); ("keep", KBool); ("d", KStr); ("w", KStr);
   ("gocmd", KStr); ("goos", KStr); ("goarch", KStr); ("ldflags", KStr); ("l", KBool); ("version", KBool);
   ("init", KBool); ("clean", KBool); ("compile", KStr)].
(* template.go:70-73 *)
Definition gen_spec : spec := [("v", KBool); ("l", KBool); ("h", KBool); ("t", KDur)].

End Ext.

(* ------------------------------------------------------------------ reading the assignments: the last one of a flag wins *)
Fixpoint last_val (n : string) (a : assigns) : option fval :=
  match a with
  | [] => None
  | (n', v) :: r => match last_val n r with
                    | Some x => Some x
                    | None => if String.eqb n n' then Some v else None
                    end
  end.
Definition get_bool (n : string) (a : assigns) : option bool := match last_val n a with Some (VB b) => Some b | _ => None end.
Definition get_dur (n : string) (a : assigns) : option Z := match last_val n a with Some (VD d) => Some d | _ => None end.
Definition get_str (n : string) (a : assigns) : option string := match last_val n a with Some (VS s) => Some s | _ => None end.

