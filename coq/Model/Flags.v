(* Model of the path a configuration takes from the command line / environment of `mage` (or of a
   compiled magefile binary) to the code of a target.  Executable definitions only.

     mage/main.go      Parse (flag defaults from mg.Debug/Verbose/GoCmd), Invoke (Dir/WorkDir defaulting,
                       magefiles/ directory switch), RunCompiled (c.Dir, c.Env, stdio wiring)
     mage/template.go  generated main: parseBool / parseDuration, flag defaults from MAGEFILE_*,
                       order of the -h / -l tests, re-export of MAGEFILE_VERBOSE by os.Setenv
     mg/runtime.go     Verbose, Debug, GoCmd
     os/exec           the child's environment keeps the LAST entry of a key (dedupEnv)
     flag package      Model/FlagPkg.v: both programs parse their words with flag.FlagSet; what the front end
                       leaves over (everything behind a consumed "--" included) is parsed AGAIN by the generated main

   An environment is the list os.Environ() returns: (key, value) pairs in order; the split of "k=v" at
   the first '=' is the operating system's convention and is not modelled (keys contain no '=').
   A later entry for a key overrides an earlier one ([lookup] = last occurrence); every operation
   below is written so that this reading is right for ALL lists, duplicate keys included.

   External behaviour is a parameter, never an axiom: time.ParseDuration ([parse_dur]),
   time.Duration.String ([dur_string]) and filepath.Join ([join]) are Section variables; the
   harness supplies their actual values (computed by the Go standard library, outside mage). *)
From Mage Require Export Base.Strs Model.FlagPkg.   (* strconv.ParseBool, Go's flag package *)

Definition env := list (string * string).

(* os.Getenv / os.LookupEnv *)
Fixpoint lookup (k : string) (e : env) : option string :=
  match e with
  | [] => None
  | (k', v) :: r =>
      match lookup k r with
      | Some x => Some x
      | None => if String.eqb k k' then Some v else None
      end
  end.

Definition getenv (k : string) (e : env) : string :=
  match lookup k e with Some v => v | None => "" end.

Definition has_key (k : string) (e : env) : bool :=
  existsb (fun kv => String.eqb k (fst kv)) e.

(* os/exec dedupEnv: walks the list from the end, keeps the first entry seen for each key (= its last
   occurrence), output in the original relative order *)
Fixpoint dedup_env (e : env) : env :=
  match e with
  | [] => []
  | (k, v) :: r => if has_key k r then dedup_env r else (k, v) :: dedup_env r
  end.

Fixpoint remove_key (k : string) (e : env) : env :=
  match e with
  | [] => []
  | (k', v) :: r => if String.eqb k k' then remove_key k r else (k', v) :: remove_key k r
  end.

(* os.Setenv: overwrite the entry of the key in place, append when there is none.  (The Go runtime
   blanks later duplicates of a key when it first reads the environment block: remove_key.) *)
Fixpoint setenv (k v : string) (e : env) : env :=
  match e with
  | [] => [(k, v)]
  | (k', v') :: r => if String.eqb k k' then (k, v) :: remove_key k r else (k', v') :: setenv k v r
  end.

Definition VERBOSE := "MAGEFILE_VERBOSE".
Definition DEBUG := "MAGEFILE_DEBUG".
Definition GOCMD := "MAGEFILE_GOCMD".
Definition LIST := "MAGEFILE_LIST".
Definition HELP := "MAGEFILE_HELP".
Definition TIMEOUT := "MAGEFILE_TIMEOUT".

(* ---- mg/runtime.go:  b, _ := strconv.ParseBool(os.Getenv(X)); return b *)
Definition mg_bool (k : string) (e : env) : bool :=
  match parse_bool (getenv k e) with Some b => b | None => false end.
Definition mg_verbose (e : env) : bool := mg_bool VERBOSE e.
Definition mg_debug (e : env) : bool := mg_bool DEBUG e.
Definition mg_gocmd (e : env) : string :=
  let cmd := getenv GOCMD e in if negb (String.eqb cmd "") then cmd else "go".

(* ---- command-line flags after the flag package has parsed them: None = not given *)
Definition flag_or {A} (given : option A) (default : A) : A :=
  match given with Some x => x | None => default end.

Record flags := {                  (* of the front end `mage` *)
  f_v : option bool; f_debug : option bool; f_l : option bool; f_h : option bool;
  f_t : option Z;                  (* nanoseconds *)
  f_gocmd : option string; f_d : option string; f_w : option string }.

(* the assignments the flag package made on mage's command line, as that record (main.go:189-204) *)
Definition flags_of (a : assigns) : flags :=
  {| f_v := get_bool "v" a; f_debug := get_bool "debug" a; f_l := get_bool "l" a; f_h := get_bool "h" a;
     f_t := get_dur "t" a; f_gocmd := get_str "gocmd" a; f_d := get_str "d" a; f_w := get_str "w" a |}.

Record invocation := {
  i_debug : bool; i_dir : string; i_workdir : string; i_verbose : bool; i_list : bool; i_help : bool;
  i_timeout : Z; i_gocmd : string }.

(* Parse, main.go:189-204 *)
Definition parse (f : flags) (e : env) : invocation :=
  {| i_debug := flag_or (f_debug f) (mg_debug e);
     i_verbose := flag_or (f_v f) (mg_verbose e);
     i_help := flag_or (f_h f) false;
     i_timeout := flag_or (f_t f) 0%Z;
     i_dir := flag_or (f_d f) "";
     i_workdir := flag_or (f_w f) "";
     i_gocmd := flag_or (f_gocmd f) (mg_gocmd e);
     i_list := flag_or (f_l f) false |}.

(* what Invoke finds on disk *)
Record layout := {
  has_magefiles_dir : bool;        (* <Dir>/magefiles exists and is a directory *)
  top_has_magefiles : bool }.      (* Magefiles(originalDir) succeeded with a non-empty list *)

(* which stream of the caller a stream of the child is connected to *)
Inductive stream := CallerStdin | CallerStdout | CallerStderr.
Record wiring := { w_stdin : stream; w_stdout : stream; w_stderr : stream }.

Definition b01 (b : bool) : string := if b then "1" else "0".
Definition opt_entry (c : bool) (k v : string) : env := if c then [(k, v)] else [].

Section Ext.
Variable parse_dur : string -> option Z.       (* time.ParseDuration *)
Variable dur_string : Z -> string.             (* time.Duration.String *)
Variable join : string -> string -> string.    (* filepath.Join *)

(* Invoke, main.go:316-347 *)
Definition invoke (lay : layout) (inv : invocation) : invocation :=
  let gocmd := if String.eqb (i_gocmd inv) "" then "go" else i_gocmd inv in
  let dir := if String.eqb (i_dir inv) "" then "." else i_dir inv in
  let workdir := if String.eqb (i_workdir inv) "" then dir else i_workdir inv in
  let magefilesDir := join dir "magefiles" in
  let dir' :=
    if has_magefiles_dir lay then
      let originalDir := dir in
      if top_has_magefiles lay then originalDir else magefilesDir
    else dir in
  {| i_debug := i_debug inv; i_dir := dir'; i_workdir := workdir; i_verbose := i_verbose inv;
     i_list := i_list inv; i_help := i_help inv; i_timeout := i_timeout inv; i_gocmd := gocmd |}.

(* RunCompiled, main.go:728-761.  [fixed = false] is the code before a52b92f / 3a2321a, which appended
   MAGEFILE_VERBOSE / MAGEFILE_DEBUG only when true. *)
Definition appended (fixed : bool) (inv : invocation) : env :=
  (if i_verbose inv then [(VERBOSE, "1")] else if fixed then [(VERBOSE, "0")] else []) ++
  opt_entry (i_list inv) LIST "1" ++
  opt_entry (i_help inv) HELP "1" ++
  (if i_debug inv then [(DEBUG, "1")] else if fixed then [(DEBUG, "0")] else []) ++
  opt_entry (negb (String.eqb (i_gocmd inv) "")) GOCMD (i_gocmd inv) ++
  opt_entry (0 <? i_timeout inv)%Z TIMEOUT (dur_string (i_timeout inv)).

Definition run_compiled_env (fixed : bool) (inv : invocation) (e : env) : env := e ++ appended fixed inv.

Definition run_compiled_dir (inv : invocation) : string :=
  let cdir := i_dir inv in
  if negb (String.eqb (i_workdir inv) (i_dir inv)) then i_workdir inv else cdir.

(* c.Stderr = inv.Stderr; c.Stdout = inv.Stdout; c.Stdin = inv.Stdin - whatever the invocation asks for
   and however many words follow (none: the default target runs) *)
Definition run_compiled_wiring (inv : invocation) (nargs : nat) : wiring :=
  {| w_stderr := CallerStderr; w_stdout := CallerStdout; w_stdin := CallerStdin |}.

(* the process the operating system starts: os/exec de-duplicates c.Env *)
Definition exec_env (cenv : env) : env := dedup_env cenv.

(* ---- generated main, template.go:40-100, 346-366 *)
Definition tpl_parse_bool (k : string) (e : env) : bool :=
  let val := getenv k e in
  if String.eqb val "" then false
  else match parse_bool val with
       | None => false          (* + a warning *)
       | Some b => b
       end.

Definition tpl_parse_duration (k : string) (e : env) : Z :=
  let val := getenv k e in
  if String.eqb val "" then 0%Z
  else match parse_dur val with
       | None => 0%Z            (* + a warning *)
       | Some d => d
       end.

Record cflags := { c_v : option bool; c_l : option bool; c_h : option bool; c_t : option Z }.
Definition no_cflags : cflags := {| c_v := None; c_l := None; c_h := None; c_t := None |}.

(* the assignments the flag package made on the compiled program's command line (template.go:70-73) *)
Definition cflags_of_assigns (a : assigns) : cflags :=
  {| c_v := get_bool "v" a; c_l := get_bool "l" a; c_h := get_bool "h" a; c_t := get_dur "t" a |}.

Record arguments := { a_verbose : bool; a_list : bool; a_help : bool; a_timeout : Z }.

Definition gm_parse (cf : cflags) (e : env) : arguments :=
  {| a_verbose := flag_or (c_v cf) (tpl_parse_bool VERBOSE e);
     a_list := flag_or (c_l cf) (tpl_parse_bool LIST e);
     a_help := flag_or (c_h cf) (tpl_parse_bool HELP e);
     a_timeout := flag_or (c_t cf) (tpl_parse_duration TIMEOUT e) |}.

(* what the program does with its non-flag words; [nargs] of them.  Order of the tests as in the
   template: usage (help without a word), then the Setenv, then list, then help. *)
Inductive mode := MUsage | MList | MHelp | MRun.
Definition IGNOREDEFAULT := "MAGEFILE_IGNOREDEFAULT".
Definition gm_mode (a : arguments) (nargs : nat) (has_default : bool) (e : env) : mode :=
  if a_help a && Nat.eqb nargs 0 then MUsage
  else if a_list a then MList
  else if a_help a then MHelp
  else if Nat.ltb nargs 1 then
    (* no words: the default target runs, unless there is none or MAGEFILE_IGNOREDEFAULT says so: listing *)
    if has_default then (if mg_bool IGNOREDEFAULT e then MList else MRun) else MList
  else MRun.

(* the environment target code sees: os.Setenv("MAGEFILE_VERBOSE", "1" / "0") *)
Definition gm_target_env (a : arguments) (e : env) : env := setenv VERBOSE (b01 (a_verbose a)) e.

(* ---- the two routes *)
Definition front_end (fixed : bool) (lay : layout) (f : flags) (e : env) : invocation * env * string :=
  let inv := invoke lay (parse f e) in
  (inv, exec_env (run_compiled_env fixed inv e), run_compiled_dir inv).

(* through mage.  RunCompiled hands the compiled program inv.Args = fs.Args(): the words the front end's flag
   parsing left over.  The flag package stops at the first word that does not look like a flag, so these begin with
   a plain word - unless the front end consumed a "--": what follows it arrives verbatim and the generated main
   parses it with ITS flag set.  [cf] = the compiled program's own flags (no_cflags when it got none). *)
Definition child_env (fixed : bool) (lay : layout) (f : flags) (e : env) : env :=
  snd (fst (front_end fixed lay f e)).
Definition mage_args (fixed : bool) (lay : layout) (f : flags) (cf : cflags) (e : env) : arguments :=
  gm_parse cf (child_env fixed lay f e).
Definition mage_target_env (fixed : bool) (lay : layout) (f : flags) (cf : cflags) (e : env) : env :=
  gm_target_env (mage_args fixed lay f cf e) (child_env fixed lay f e).
Definition mage_cwd (lay : layout) (f : flags) (e : env) : string :=
  snd (front_end true lay f e).
Definition mage_build_dir (lay : layout) (f : flags) (e : env) : string :=
  i_dir (fst (fst (front_end true lay f e))).

(* the compiled binary started directly with its own flags in environment e *)
Definition bin_args (cf : cflags) (e : env) : arguments := gm_parse cf e.
Definition bin_target_env (cf : cflags) (e : env) : env := gm_target_env (gm_parse cf e) e.

(* ---- whole command lines *)
Inductive outcome :=
| Rejected (status : Z)        (* flag error: message + usage, os.Exit(2) (template.go:94-96; main.go:145-148) *)
| UsageShown                   (* -help / --help: flag.ErrHelp, usage text, status 0 *)
| Runs (a : arguments) (te : env) (words : list string).
    (* the generated main goes on with arguments a; target code sees te; the dispatcher gets these words *)

(* the compiled program started with these words in environment e *)
Definition binary_cmdline (words : list string) (e : env) : outcome :=
  match cl_parse parse_dur gen_spec words with
  | PBad _ => Rejected 2
  | PHelp => UsageShown
  | POk a rest => let args := gm_parse (cflags_of_assigns a) e in Runs args (gm_target_env args e) rest
  end.

(* mage started with these words, for command lines that select no command (-version, -init, -clean, -compile)
   and are no misuse of -h / -goos (those rules, Parse main.go:253-306, are C05's Model/ExitChain.v) *)
Definition mage_cmdline (fixed : bool) (lay : layout) (words : list string) (e : env) : outcome :=
  match cl_parse parse_dur front_spec words with
  | PBad _ => Rejected 2
  | PHelp => UsageShown
  | POk a rest =>
      if flag_or (get_bool "h" a) false && match rest with [] => true | _ => false end then UsageShown   (* main.go:253-257 *)
      else binary_cmdline rest (child_env fixed lay (flags_of a) e)
  end.

(* where the target runs / which directory is built, from the words *)
Definition mage_cmdline_dirs (lay : layout) (words : list string) (e : env) : string * string :=
  let f := flags_of (match cl_parse parse_dur front_spec words with POk a _ => a | PBad a => a | PHelp => [] end) in
  (mage_cwd lay f e, mage_build_dir lay f e).

End Ext.
