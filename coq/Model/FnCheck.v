(* Model of mg.F / checkF / the reflective call (mg/fn.go).  Executable definitions only.

   Transcription notes (line numbers of mg/fn.go at the pinned tree):
   - [checkF] follows lines 101-172 test by test, with the index variables [x] and
     [inputs] kept, [inputs] as a Z because the code lets it go to -1 .. NumIn.
   - reflect's view of a function type is [NumIn], [In i], [IsVariadic], [NumOut], [Out i];
     a variadic function's last [In] is a slice type, which the record makes true by
     construction ([vtail = Some e] : the last parameter is [...e]).
   - [call_args] follows lines 45-76 (assembly of vargs). *)
From Mage Require Import Base.Strs.

Inductive gty :=
| TInt | TBool | TString | TDur            (* the four supported argument types *)
| TCtx                                     (* context.Context *)
| TErr                                     (* error *)
| TNs (n : nat)                            (* a type assignable to struct{}: 0 mg.Namespace, 1 struct{}, 2.. named ones *)
| TSlice (e : gty)
| TOther (n : nat).                        (* any other type: int64, float64, named string, *int, interface{} ... *)

Fixpoint gty_eqb (a b : gty) : bool :=
  match a, b with
  | TInt, TInt | TBool, TBool | TString, TString | TDur, TDur | TCtx, TCtx | TErr, TErr => true
  | TNs n, TNs m => Nat.eqb n m
  | TSlice x, TSlice y => gty_eqb x y
  | TOther n, TOther m => Nat.eqb n m
  | _, _ => false
  end.

(* mg.argTypes *)
Definition supported (t : gty) : bool :=
  match t with TInt | TBool | TString | TDur => true | _ => false end.

Definition assignable_to_empty (t : gty) : bool := match t with TNs _ => true | _ => false end.

Record sig := { ins : list gty; vtail : option gty; outs : list gty }.

Definition variadic (s : sig) : bool := match vtail s with Some _ => true | None => false end.
Definition all_ins (s : sig) : list gty :=
  ins s ++ match vtail s with Some e => [TSlice e] | None => [] end.
Definition num_in (s : sig) : nat := length (all_ins s).
Definition in_at (s : sig) (i : nat) : gty := nth i (all_ins s) (TOther 0).

Inductive target := Func (s : sig) | NotFunc.

(* dynamic values handed to mg.F *)
Inductive value :=
| VInt (z : Z) | VBool (b : bool) | VStr (s : string) | VDur (z : Z)
| VNil                                     (* untyped nil: reflect.TypeOf gives nil *)
| VOther (t : gty)                         (* a value of some other dynamic type *)
| VCtxGiven                                (* the context Run was called with *)
| VEmpty.                                  (* struct{}{} *)

Definition ty_of (v : value) : option gty :=
  match v with
  | VInt _ => Some TInt | VBool _ => Some TBool | VStr _ => Some TString | VDur _ => Some TDur
  | VNil => None
  | VOther t => Some t
  | VCtxGiven => Some TCtx
  | VEmpty => Some (TNs 1)
  end.

Definition elem (t : gty) : gty := match t with TSlice e => e | _ => t end.

(* lines 154-170: the loop over args with its saturating index *)
Fixpoint loop (s : sig) (x : nat) (args : list value) : bool :=
  match args with
  | [] => true
  | a :: rest =>
      let argT0 := in_at s x in
      let argT := if variadic s && Nat.eqb x (num_in s - 1) then elem argT0 else argT0 in
      if negb (supported argT) then false
      else match ty_of a with
           | Some pt =>
               if gty_eqb argT pt
               then loop s (if Nat.ltb x (num_in s - 1) then S x else x) rest
               else false
           | None => false
           end
  end.

Inductive result := Bad | Good (hasCtx isNs : bool).

Definition checkF (t : target) (args : list value) : result :=
  match t with
  | NotFunc => Bad                                                           (* 103-105 *)
  | Func s =>
    let nin := num_in s in
    if Nat.ltb 1 (length (outs s)) then Bad                                  (* 107-109 *)
    else if Nat.eqb (length (outs s)) 1 && negb (gty_eqb (nth 0 (outs s) TInt) TErr) then Bad   (* 110-112 *)
    else if Nat.ltb nin (length args) && negb (variadic s) then Bad          (* 115-117 *)
    else if Nat.eqb nin 0 then Good false false                              (* 119-121 *)
    else
      let isNs := assignable_to_empty (in_at s 0) in                         (* 126-132 *)
      let x := if isNs then 1 else 0 in
      let inputs := (Z.of_nat nin - (if isNs then 1 else 0))%Z in
      let hasCtx := Nat.ltb x nin && gty_eqb (in_at s x) TCtx in             (* 133-143 *)
      let inputs := (inputs - (if hasCtx then 1 else 0))%Z in
      let x := if hasCtx then S x else x in
      if (if variadic s
          then Z.ltb (Z.of_nat (length args)) (inputs - 1)                   (* 145-149 *)
               || negb (supported (elem (in_at s (nin - 1))))                (* the variadic element type itself (fix) *)
          else negb (Z.eqb (Z.of_nat (length args)) inputs)) then Bad        (* 150-152 *)
      else if loop s x args then Good hasCtx isNs else Bad                   (* 154-171 *)
  end.

(* lines 45-66: the argument vector handed to reflect.Call *)
Definition call_args (hasCtx isNs : bool) (args : list value) : list value :=
  (if isNs then [VEmpty] else []) ++ (if hasCtx then [VCtxGiven] else []) ++ args.

(* what the function's error result becomes (lines 67-75) *)
Inductive fnret := RetNone | RetNilErr | RetErr.
Inductive runret := RunNil | RunSameErr.
Definition run_result (r : fnret) : runret :=
  match r with RetNone => RunNil | RetNilErr => RunNil | RetErr => RunSameErr end.
