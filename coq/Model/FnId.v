(* Model of the identity of an mg.F value (mg/fn.go: idArgs + json.Marshal; mg/deps.go: onceKey).
   Executable definitions only.

   id = JSON array of the arguments, strings hex-encoded first (so that the JSON encoder's
   replacement of invalid UTF-8 cannot conflate two values); ints and durations are JSON
   numbers in decimal, bools are true/false. *)
From Mage Require Import Base.Strs Model.FnCheck.
From Coq Require Import DecimalString DecimalZ.

Definition hexdigit (n : N) : ascii :=
  ascii_of_N (if N.ltb n 10 then 48 + n else 87 + n).      (* '0'.. / 'a'.. *)

Fixpoint hex (s : string) : string :=
  match s with
  | EmptyString => EmptyString
  | String c r => let n := N_of_ascii c in String (hexdigit (N.div n 16)) (String (hexdigit (N.modulo n 16)) (hex r))
  end.

Definition dec (z : Z) : string := NilZero.string_of_int (Z.to_int z).

Definition quote : string := String (ascii_of_N 34) EmptyString.

(* values the checker accepts are of the four supported types only *)
Definition enc (v : value) : string :=
  match v with
  | VInt z => dec z
  | VDur z => dec z
  | VBool true => "true"
  | VBool false => "false"
  | VStr s => (quote ++ hex s ++ quote)%string
  | _ => "null"
  end.

Fixpoint join (sep : string) (l : list string) : string :=
  match l with
  | [] => EmptyString
  | [x] => x
  | x :: r => (x ++ sep ++ join sep r)%string
  end.

Definition fn_id (args : list value) : string := ("[" ++ join "," (map enc args) ++ "]")%string.

(* the registry key: function name and id *)
Definition once_key (fname : string) (args : list value) : string * string := (fname, fn_id args).
