(* Declarative reading of property C14's sentence (not a transcription of code):
   "mg.F(fn, args...) succeeds exactly when fn has a valid dependency signature and args are the
   values for its non-context, non-namespace parameters, in order, with exactly matching supported
   types (variadic tails included)". *)
From Mage Require Import Base.Strs Model.FnCheck.

Definition strip_recv (l : list gty) : list gty * bool :=
  match l with TNs _ :: r => (r, true) | _ => (l, false) end.
Definition strip_ctx (l : list gty) : list gty * bool :=
  match l with TCtx :: r => (r, true) | _ => (l, false) end.

(* result: nothing or a single error *)
Definition outs_ok (o : list gty) : bool :=
  match o with [] => true | [TErr] => true | _ => false end.

(* the value has exactly the (supported) parameter type *)
Definition arg_matches (p : gty) (a : value) : bool :=
  supported p && match ty_of a with Some t => gty_eqb p t | None => false end.

Fixpoint match_fixed (ps : list gty) (args : list value) : bool :=
  match ps, args with
  | [], [] => true
  | p :: ps', a :: args' => arg_matches p a && match_fixed ps' args'
  | _, _ => false
  end.

(* the parameters that take values: after the optional receiver and the optional context *)
Definition value_params (s : sig) : list gty := fst (strip_ctx (fst (strip_recv (ins s)))).
Definition has_receiver (s : sig) : bool := snd (strip_recv (ins s)).
Definition has_ctx (s : sig) : bool := snd (strip_ctx (fst (strip_recv (ins s)))).

Definition well_typed (t : target) (args : list value) : bool :=
  match t with
  | NotFunc => false
  | Func s =>
      outs_ok (outs s) &&
      let ps := value_params s in
      match vtail s with
      | None => match_fixed ps args
      | Some e =>
          supported e && Nat.leb (length ps) (length args) &&
          match_fixed ps (firstn (length ps) args) &&
          forallb (arg_matches e) (skipn (length ps) args)
      end
  end.

(* the binding Go's call rules give: receiver, context, then the values *)
Definition expected_binding (s : sig) (args : list value) : list value :=
  (if has_receiver s then [VEmpty] else []) ++ (if has_ctx s then [VCtxGiven] else []) ++ args.

(* a value may be passed for a parameter of type p (reflect.Call's assignability), as far as the
   model's types go: equal types, or the empty struct for a struct{}-like receiver *)
Definition passable (p : gty) (v : value) : bool :=
  match ty_of v with
  | Some t => gty_eqb p t || (assignable_to_empty p && assignable_to_empty t)
  | None => false
  end.

(* every element of the argument vector fits its parameter; the tail fits the variadic element *)
Fixpoint fits (params : list gty) (vt : option gty) (vs : list value) : bool :=
  match params, vs with
  | [], _ => match vt with Some e => forallb (passable e) vs | None => match vs with [] => true | _ => false end end
  | p :: ps, v :: vs' => passable p v && fits ps vt vs'
  | _ :: _, [] => false
  end.

Definition supported_value (v : value) : bool :=
  match v with VInt _ | VBool _ | VStr _ | VDur _ => true | _ => false end.

(* [VOther t] stands for a value whose dynamic type is none of the four supported ones (a value of
   dynamic type int IS a [VInt]); the junk term [VOther TInt] denotes no Go value. *)
Definition wf_value (v : value) : bool :=
  match v with VOther t => negb (supported t) | _ => true end.
