(* C18 - the data flow from the parsed magefile package to the data the main-file template is
   executed on (parse/parse.go: PrimaryPackage, setImports, getNamedImports, getImportFrom,
   getFunction, setDefault, setAliases, Functions/Imports sort.Interface; mage/main.go: the two
   sort.Sort calls before GenerateMainfile; mage/template.go: `range .Aliases`).

   Definitions only.  Every iteration over a Go hash map is an ADVERSARY:
   - the ast.Package.Files map: the list [in_files] IS the order in which a `range` visits it
     (go/doc, which also reads it, sorts the file names first);
   - the importNames set (getNamedImports) and the Aliases map (ranged by text/template): the map is
     an association list and the order of a `range` over it is given by the functions
     [in_range_names] / [in_range_aliases] of the inputs (any function returning a permutation);
   - the functions found by go/doc ([in_funcs]) are a list in arbitrary order as well.
   [fixed = true] is the current code (after 5f65f03: named imports are a set of (path, alias)
   pairs); [fixed = false] is that code with the two sorted iterations of commit 7540a9b taken out
   again (files visited in map order, named imports fetched in map order). *)
From Mage Require Import Base.Strs.
From Coq Require Import DecimalString.

(* ---------------------------------------------------------------- sorting
   sort.Strings, sort.Slice, sort.Sort(Functions) / sort.Sort(Imports) and the template engine's
   sorted map range are modelled by ONE insertion sort on a comparison [le x y] = "not y < x".
   Proof/SortPerm.v shows that for a total order every correct sort (pdqsort included) returns
   this list.  Strings are compared with Go's `<` (bytewise lexicographic = String.leb). *)
Section Sort.
Context {A : Type} (le : A -> A -> bool).
Fixpoint insert_le (x : A) (l : list A) : list A :=
  match l with
  | [] => [x]
  | y :: r => if le x y then x :: l else y :: insert_le x r
  end.
Definition sort_le (l : list A) : list A := fold_right insert_le [] l.
End Sort.

Definition key_leb {A} (key : A -> string) (x y : A) : bool := String.leb (key x) (key y).
Definition sort_by {A} (key : A -> string) : list A -> list A := sort_le (key_leb key).

(* getNamedImports' sort.Slice: by path, then by alias *)
Definition pair_leb (x y : string * string) : bool :=
  if String.eqb (fst x) (fst y) then String.leb (snd x) (snd y) else String.leb (fst x) (fst y).

(* ---------------------------------------------------------------- Go maps with string keys
   m[k] = v keeps the position of an existing key; the position is irrelevant for lookups and a
   `range` is given by the adversary. *)
Fixpoint mset {V} (k : string) (v : V) (m : list (string * V)) : list (string * V) :=
  match m with
  | [] => [(k, v)]
  | (k', v') :: r => if String.eqb k k' then (k, v) :: r else (k', v') :: mset k v r
  end.

(* importNames : map[namedImport]bool, a set of (path, alias) pairs *)
Definition pair_eqb (x y : string * string) : bool :=
  String.eqb (fst x) (fst y) && String.eqb (snd x) (snd y).
Fixpoint sadd (x : string * string) (s : list (string * string)) : list (string * string) :=
  match s with
  | [] => [x]
  | y :: r => if pair_eqb x y then s else y :: sadd x r
  end.

Definition mem (s : string) (l : list string) : bool := existsb (String.eqb s) l.

(* ---------------------------------------------------------------- data *)
(* what Package() records about one function or namespace method; [pf_body] stands for everything
   else the template prints (synopsis, comment, arguments, IsError, IsContext) *)
Record pfunc := { pf_recv : string; pf_name : string; pf_body : string }.

(* parse.Function *)
Record func := { fn_alias : string;      (* PkgAlias *)
                 fn_pkg : string;        (* Package: the unique name of the import, "" for local functions *)
                 fn_path : string;       (* ImportPath *)
                 fn_recv : string; fn_name : string; fn_body : string }.

Definition mk_func (alias pkg path : string) (p : pfunc) : func :=
  {| fn_alias := alias; fn_pkg := pkg; fn_path := path;
     fn_recv := pf_recv p; fn_name := pf_name p; fn_body := pf_body p |}.

Definition nonempty (s : string) : bool := negb (String.eqb s "").

(* Function.TargetName: the non-empty ones of PkgAlias, Receiver, Name joined by ":" *)
Definition target_name (f : func) : string :=
  String.concat ":" (filter nonempty [fn_alias f; fn_recv f; fn_name f]).

Definition local_func (p : pfunc) : func := mk_func "" "" "" p.
Definition local_target_name (p : pfunc) : string := target_name (local_func p).

(* one import spec that carries the mage:import tag: what getImportPath returns with ok = true;
   alias "" is a root import *)
Record ispec := { sp_path : string; sp_alias : string }.
(* one file of the package: its tagged import specs in source order *)
Record file := { f_name : string;
                 f_doc : option string;      (* ast.File.Doc.Text() of the package comment, None = no comment *)
                 f_specs : list ispec }.

(* parse.Import *)
Record import := { i_alias : string; i_name : string; i_uname : string; i_path : string; i_funcs : list func }.

(* the value of Default and of an element of Aliases, as getFunction classifies the expression *)
Inductive aexpr :=
| AIdent (name : string)                     (* Build *)
| ASel (first name : string)                 (* ns.Build  or  pkg.Build *)
| ASel2 (pkg recv name : string)             (* pkg.NS.Build *)
| ABad.                                      (* anything else *)

Record inputs := {
  in_files : list file;                      (* ast.Package.Files in the order a range visits it *)
  in_funcs : list pfunc;                     (* pi.Funcs as Package() found them *)
  in_default : option aexpr;                 (* var Default = ... *)
  in_aliases : list (string * aexpr);        (* elements of the Aliases literal, source order *)
  in_range_names : list (string * string) -> list (string * string);    (* range over importNames *)
  in_range_aliases : list (string * func) -> list (string * func)       (* range over PkgInfo.Aliases *)
}.

(* mainfileTemplateData, as far as it depends on the package *)
Record tdata := { td_desc : string; td_funcs : list func; td_default : option func;
                  td_aliases : list (string * func); td_imports : list import }.

(* ---------------------------------------------------------------- Package(): Description
   Description: toOneLine(p.Doc) with p = doc.New(pkg, ...).  go/doc (modelled, not verified) reads
   the files of the package in SORTED file-name order and glues their package comments together:
     text := comment.Text(); if r.doc == "" { r.doc = text } else { r.doc += "\n" + text }
   toOneLine = strings.TrimSpace(strings.Replace(s, "\n", " ", -1)) (white space: the ASCII bytes). *)
Definition nl : string := String (ascii_of_nat 10) EmptyString.

Definition read_doc (acc : string) (f : file) : string :=
  match f_doc f with
  | None => acc
  | Some text => if String.eqb acc "" then text else String.append acc (String.append nl text)
  end.

Definition package_doc (files : list file) : string :=
  fold_left read_doc (sort_by f_name files) "".

Definition is_space (c : ascii) : bool :=
  let n := nat_of_ascii c in ((9 <=? n)%nat && (n <=? 13)%nat) || (n =? 32)%nat.

Fixpoint nl_to_space (s : string) : string :=
  match s with
  | EmptyString => EmptyString
  | String c r => String (if (nat_of_ascii c =? 10)%nat then ascii_of_nat 32 else c) (nl_to_space r)
  end.

Fixpoint ltrim (s : string) : string :=
  match s with
  | EmptyString => EmptyString
  | String c r => if is_space c then ltrim r else s
  end.

Fixpoint rtrim (s : string) : string :=
  match s with
  | EmptyString => EmptyString
  | String c r => let r' := rtrim r in
                  if is_space c && String.eqb r' "" then EmptyString else String c r'
  end.

Definition to_one_line (s : string) : string := rtrim (ltrim (nl_to_space s)).

Definition description (files : list file) : string := to_one_line (package_doc files).

(* ---------------------------------------------------------------- setImports, first loop *)
Definition visit_spec (acc : list (string * string) * list string) (s : ispec) :=
  let '(names, roots) := acc in
  if String.eqb (sp_alias s) "" then
    (* the same package imported bare by several specs is one import (4a102aa): appended if not there yet *)
    (names, if existsb (String.eqb (sp_path s)) roots then roots else roots ++ [sp_path s])
  else (sadd (sp_path s, sp_alias s) names, roots).

Definition visit_file (acc : list (string * string) * list string) (f : file) :=
  fold_left visit_spec (f_specs f) acc.

Definition collect (files : list file) : list (string * string) * list string :=
  fold_left visit_file files ([], []).

(* the order in which setImports visits the files *)
Definition files_visited (fixed : bool) (files : list file) : list file :=
  if fixed then sort_by f_name files else files.

(* getNamedImports: the (path, alias) pairs in the order the imports are fetched *)
Definition named_order (fixed : bool) (rng : list (string * string) -> list (string * string))
           (names : list (string * string)) : list (string * string) :=
  if fixed then sort_le pair_leb (rng names) else rng names.

(* ---------------------------------------------------------------- unique names
   unique := name + "_mageimport"; x := 1
   for used[unique] { unique = fmt.Sprintf("%s_mageimport%d", name, x); x++ }
   The loop is a search; [fuel] = number of names in use suffices (Proof/Gen_facts.v). *)
Definition dec (n : nat) : string := NilEmpty.string_of_uint (Nat.to_uint n).

Definition cand (name : string) (x : nat) : string :=
  String.append name (String.append "_mageimport" (dec x)).

Fixpoint uniq_search (fuel x : nat) (used : list string) (name unique : string) : string :=
  if mem unique used then
    match fuel with
    | 0 => unique
    | S f => uniq_search f (S x) used name (cand name x)
    end
  else unique.

Definition uniq_name (used : list string) (name : string) : string :=
  uniq_search (length used) 1 used name (String.append name "_mageimport").

Definition set_uname (u : string) (i : import) : import :=
  {| i_alias := i_alias i; i_name := i_name i; i_uname := u; i_path := i_path i;
     i_funcs := map (fun f => {| fn_alias := fn_alias f; fn_pkg := u; fn_path := fn_path f;
                                 fn_recv := fn_recv f; fn_name := fn_name f; fn_body := fn_body f |}) (i_funcs i) |}.

Fixpoint assign (used : list string) (imps : list import) : list import :=
  match imps with
  | [] => []
  | i :: r => let u := uniq_name used (i_name i) in set_uname u i :: assign (u :: used) r
  end.

Section WithEnv.
(* `go list` + Package() of an imported path: the package name and its functions, None = error *)
Variable env : string -> option (string * list pfunc).

Definition get_import (path alias : string) : option import :=
  match env path with
  | None => None
  | Some (name, pfs) =>
      Some {| i_alias := alias; i_name := name; i_uname := ""; i_path := path;
              i_funcs := map (mk_func alias "" path) pfs |}
  end.

(* fetched one after the other, the first error ends setImports *)
Fixpoint get_all (l : list (string * string)) : option (list import) :=
  match l with
  | [] => Some []
  | (p, a) :: r =>
      match get_import p a with
      | None => None
      | Some i => match get_all r with None => None | Some is_ => Some (i :: is_) end
      end
  end.

(* setImports: pi.Imports in collection order, unique names set *)
Definition set_imports (fixed : bool) (rng : list (string * string) -> list (string * string))
           (files : list file) : option (list import) :=
  let '(names, roots) := collect (files_visited fixed files) in
  match get_all (named_order fixed rng names ++ map (fun p => (p, "")) roots) with
  | None => None
  | Some imps => Some (assign [] imps)
  end.
End WithEnv.

(* ---------------------------------------------------------------- getFunction *)
Definition is_fn (recv name : string) (f : func) : bool :=
  String.eqb (fn_name f) name && String.eqb (fn_recv f) recv.

Definition first_import (pkg : string) (imps : list import) : option import :=
  find (fun i => String.eqb (i_name i) pkg) imps.

Definition get_function (e : aexpr) (funcs : list func) (imps : list import) : option func :=
  match e with
  | AIdent n => find (is_fn "" n) funcs
  | ASel first n =>
      match find (is_fn first n) funcs with
      | Some f => Some f
      | None => match first_import first imps with        (* the first import of that name, then break *)
                | Some i => find (is_fn "" n) (i_funcs i)
                | None => None
                end
      end
  | ASel2 pkg recv n =>
      match first_import pkg imps with
      | Some i => find (is_fn recv n) (i_funcs i)
      | None => None
      end
  | ABad => None
  end.

(* setAliases: malformed or unknown values are skipped with a warning *)
Definition set_aliases (entries : list (string * aexpr)) (funcs : list func) (imps : list import)
  : list (string * func) :=
  fold_left (fun m ke => match get_function (snd ke) funcs imps with
                         | Some f => mset (fst ke) f m
                         | None => m
                         end) entries [].

(* ---------------------------------------------------------------- PrimaryPackage + Invoke *)
Definition template_data (env : string -> option (string * list pfunc)) (fixed : bool) (i : inputs)
  : option tdata :=
  let funcs := map local_func (in_funcs i) in
  match set_imports env fixed (in_range_names i) (in_files i) with
  | None => None
  | Some imps =>
      let dflt := match in_default i with Some e => get_function e funcs imps | None => None end in
      let amap := set_aliases (in_aliases i) funcs imps in
      Some {| td_desc := description (in_files i);                         (* Package(): toOneLine(p.Doc) *)
              td_funcs := sort_by target_name funcs;                       (* sort.Sort(info.Funcs) *)
              td_default := dflt;
              td_aliases := sort_by fst (in_range_aliases i amap);        (* {{range $alias, $func := .Aliases}} *)
              td_imports := sort_by i_uname imps |}                        (* sort.Sort(info.Imports) *)
  end.

(* ---------------------------------------------------------------- what Compile hands to `go build`
   mage.Magefiles: go/build lists the directory through ioutil.ReadDir, which SORTS the entries by
   name (modelled, not verified), and keeps the files that are magefiles ([selected]: the subject of
   C10; a parameter here) in that order.  mage.Invoke appends the generated main file; mage.Compile
   takes the base names and runs  go build -o <out> [-ldflags <l>] <files...>  in the directory.
   [entries] is the raw directory listing, an adversary (file-system order). *)
Definition mainfile : string := "mage_output_file.go".

Definition magefile_list (selected : string -> bool) (entries : list string) : list string :=
  filter selected (sort_by (fun s => s) entries).

Definition compile_args (out ldflags : string) (selected : string -> bool) (entries : list string) : list string :=
  ["build"; "-o"; out] ++ (if String.eqb ldflags "" then [] else ["-ldflags"; ldflags])
  ++ magefile_list selected entries ++ [mainfile].

(* the association the property speaks about *)
Definition association (t : tdata) : list (string * string) :=
  map (fun i => (i_path i, i_uname i)) (td_imports t).
